"""C32 Groups and communicators follow MPI rules."""
from hypothesis import strategies as st

from .. import core, mpi

MAXNP = 12
UNDEF = "U"       # stands for MPI_UNDEFINED in the reference
PNULL = "P"       # stands for MPI_PROC_NULL


# ---------------------------------------------------------------------------------------------
# Reference: ordered-list algebra of MPI-3.1 chapter 6.  A group is a list of world ranks.
def g_union(a, b):
    return a + [x for x in b if x not in a]


def g_inter(a, b):
    return [x for x in a if x in b]          # order of the FIRST group


def g_diff(a, b):
    return [x for x in a if x not in b]      # order of the FIRST group


def g_compare(a, b):
    if a == b:
        return "IDENT"
    if sorted(a) == sorted(b):
        return "SIMILAR"
    return "UNEQUAL"


def pick_distinct(n, xs):
    """distinct indices of range(n), in an arbitrary order, derived from arbitrary integers"""
    avail = list(range(n))
    res = []
    for x in xs:
        if not avail:
            break
        res.append(avail.pop(x % len(avail)))
    return res


def norm_ranges(n, triples):
    """valid (first,last,stride) triples for a group of n ranks: all designated ranks in range and distinct"""
    res, used = [], set()
    if n == 0:
        return res
    for a, b, s in triples:
        a %= n
        b %= n
        s = s or 1
        s = abs(s) if a <= b else -abs(s)
        ranks = list(range(a, b + (1 if s > 0 else -1), s))
        if used & set(ranks):
            continue
        used |= set(ranks)
        res.append([a, b, s])
    return res


def range_ranks(ranges):
    res = []
    for a, b, s in ranges:
        res += list(range(a, b + (1 if s > 0 else -1), s))
    return res


def per_rank(vals):
    return vals[0] if all(v == vals[0] for v in vals) else {"@": vals}


class Model:
    """Interprets the steps of a case: builds the program and the expected answers of every process."""

    def __init__(self, case, K):
        self.K = K
        self.np = np_ = case["np"]
        self.world = list(range(np_))
        self.prog = []
        self.expect = []          # (index in prog, what, {world rank: {field: value}})
        # every object is a per-process value: groups[k][w] = list of world ranks; comms[k][w] = list of world ranks or None
        self.groups = []
        self.gnames = []
        self.comms = [[list(self.world) for _ in self.world]]
        self.cnames = ["world"]
        self.nontrivial = False
        self.labels = []
        self.emit({"op": "comm_group", "comm": "world", "out": "g0"}, "comm_group",
                  {w: self.group_fields(list(self.world), w) for w in self.world})
        self.groups.append([list(self.world) for _ in self.world])
        self.gnames.append("g0")
        self.groups.append([[] for _ in self.world])
        self.gnames.append("empty")
        for st_ in case["steps"]:
            getattr(self, "step_" + st_[0])(*st_[1:])

    # ---- helpers
    def emit(self, op, what, exp, only=None):
        if only is not None:
            op["only"] = only
        self.expect.append((len(self.prog), what, exp))
        self.prog.append(op)
        return len(self.prog) - 1

    def group_fields(self, members, w):
        return {"rc": 0, "size": len(members), "members": list(members), "me": members.index(w) if w in members else UNDEF}

    def comm_fields(self, members, w):
        if members is None:
            return {"rc": 0, "null": True}
        return {"rc": 0, "null": False, "csize": len(members), "members": list(members), "rank": members.index(w)}

    def new_group(self, op, what, values, only=None):
        name = "g%d" % len(self.groups)
        op["out"] = name
        procs = self.world if only is None else only
        self.emit(op, what, {w: self.group_fields(values[w], w) for w in procs}, only)
        self.groups.append(values)
        self.gnames.append(name)

    def new_comm(self, op, what, values, only):
        name = "c%d" % len(self.comms)
        op["out"] = name
        self.emit(op, what, {w: self.comm_fields(values[w], w) for w in only}, only)
        self.comms.append(values)
        self.cnames.append(name)

    def G(self, sel):
        k = sel % len(self.groups)
        return self.gnames[k], self.groups[k]

    def C(self, sel):
        k = sel % len(self.comms)
        return self.cnames[k], self.comms[k]

    # ---- group constructors
    def step_incl(self, gsel, xs):
        name, g = self.G(gsel)
        ranks = [pick_distinct(len(g[w]), xs) for w in self.world]
        self.new_group({"op": "group_incl", "group": name, "ranks": per_rank(ranks)}, "group_incl",
                       [[g[w][i] for i in ranks[w]] for w in self.world])
        self.labels.append("incl")

    def step_perm(self, gsel, mode, xs):
        """MPI_Group_incl of ALL the ranks of a group in another order: reversed, rotated, or arbitrary"""
        name, g = self.G(gsel)
        ranks = []
        for w in self.world:
            n = len(g[w])
            if mode == 0:
                ranks.append(list(range(n - 1, -1, -1)))
            elif mode == 1:
                k = (xs[0] if xs else 1) % max(n, 1)
                ranks.append(list(range(k, n)) + list(range(k)))
            else:
                ranks.append(pick_distinct(n, xs + [0] * n))
        self.new_group({"op": "group_incl", "group": name, "ranks": per_rank(ranks)}, "group_incl",
                       [[g[w][i] for i in ranks[w]] for w in self.world])
        self.labels.append("incl-permutation")

    def step_excl(self, gsel, xs):
        name, g = self.G(gsel)
        ranks = [pick_distinct(len(g[w]), xs) for w in self.world]
        self.new_group({"op": "group_excl", "group": name, "ranks": per_rank(ranks)}, "group_excl",
                       [[x for i, x in enumerate(g[w]) if i not in ranks[w]] for w in self.world])
        self.labels.append("excl")

    def step_rincl(self, gsel, triples):
        name, g = self.G(gsel)
        ranges = [norm_ranges(len(g[w]), triples) for w in self.world]
        self.new_group({"op": "group_range_incl", "group": name, "ranges": per_rank(ranges)}, "group_range_incl",
                       [[g[w][i] for i in range_ranks(ranges[w])] for w in self.world])
        self.labels.append("range_incl")
        if any(r[2] < 0 for rr in ranges for r in rr):
            self.labels.append("negative-stride")

    def step_rexcl(self, gsel, triples):
        name, g = self.G(gsel)
        ranges = [norm_ranges(len(g[w]), triples) for w in self.world]
        self.new_group({"op": "group_range_excl", "group": name, "ranges": per_rank(ranges)}, "group_range_excl",
                       [[x for i, x in enumerate(g[w]) if i not in range_ranks(ranges[w])] for w in self.world])
        self.labels.append("range_excl")

    def binary(self, opname, fn, s1, s2):
        n1, g1 = self.G(s1)
        n2, g2 = self.G(s2)
        self.new_group({"op": opname, "g1": n1, "g2": n2}, opname, [fn(g1[w], g2[w]) for w in self.world])
        self.labels.append(opname[6:])
        for w in self.world:
            a, b = g1[w], g2[w]
            if a and b and a != b:
                common_a = [x for x in a if x in b]
                common_b = [x for x in b if x in a]
                if common_a != common_b or (opname == "group_union" and common_a):
                    self.nontrivial = True
                    if common_a != common_b:
                        self.labels.append("operands-ordered-differently")
                    break

    def step_union(self, s1, s2):
        self.binary("group_union", g_union, s1, s2)

    def step_inter(self, s1, s2):
        self.binary("group_intersection", g_inter, s1, s2)

    def step_diff(self, s1, s2):
        self.binary("group_difference", g_diff, s1, s2)

    def step_pair(self, gsel, xs, which):
        """B = an arbitrary-order subset of the world group; then op(A, B) and op(B, A): operands that overlap in different orders"""
        a = gsel % len(self.groups)
        self.step_incl(0, xs)
        b = len(self.groups) - 1
        op = [self.step_union, self.step_inter, self.step_diff][which % 3]
        op(a, b)
        op(b, a)
        if which >= 3:
            self.step_compare(a, b)
            self.step_translate(a, list(range(6)), b)

    def step_cgroup(self, csel):
        name, c = self.C(csel)
        only = [w for w in self.world if c[w] is not None]
        if not only:
            return
        # processes that hold MPI_COMM_NULL for this communicator keep an empty group under that name (group "empty" semantics)
        vals = [list(c[w]) if c[w] is not None else [] for w in self.world]
        gname = "g%d" % len(self.groups)
        self.emit({"op": "comm_group", "comm": name, "out": gname}, "comm_group", {w: self.group_fields(vals[w], w) for w in only}, only)
        others = [w for w in self.world if c[w] is None]
        if others:
            self.emit({"op": "group_incl", "group": "g0", "ranks": [], "out": gname}, "group_incl", {w: self.group_fields([], w) for w in others}, others)
        self.groups.append(vals)
        self.gnames.append(gname)
        self.labels.append("comm_group")

    # ---- group queries
    def step_translate(self, s1, xs, s2):
        n1, g1 = self.G(s1)
        n2, g2 = self.G(s2)
        ranks, exp = [], {}
        for w in self.world:
            rs, ex = [], []
            for x in xs:
                if x < 0 or not g1[w]:
                    rs.append(self.K.PROC_NULL)
                    ex.append(PNULL)
                else:
                    i = x % len(g1[w])
                    rs.append(i)
                    ex.append(g2[w].index(g1[w][i]) if g1[w][i] in g2[w] else UNDEF)
            ranks.append(rs)
            exp[w] = {"rc": 0, "res": ex}
        self.emit({"op": "group_translate", "g1": n1, "g2": n2, "ranks": per_rank(ranks)}, "group_translate", exp)
        self.labels.append("translate")

    def step_compare(self, s1, s2):
        n1, g1 = self.G(s1)
        n2, g2 = self.G(s2)
        exp = {w: {"rc": 0, "res": g_compare(g1[w], g2[w])} for w in self.world}
        self.emit({"op": "group_compare", "g1": n1, "g2": n2}, "group_compare", exp)
        self.labels += ["compare-" + exp[w]["res"] for w in self.world[:1]]

    # ---- communicators
    def step_split(self, csel, colors, keys):
        name, c = self.C(csel)
        only = [w for w in self.world if c[w] is not None]
        vals = [None] * self.np
        for w in only:
            col = colors[w % len(colors)]
            if col is None:
                continue
            parent = c[w]
            same = [(keys[x % len(keys)], parent.index(x), x) for x in parent if colors[x % len(colors)] == col]
            vals[w] = [x for _, _, x in sorted(same)]          # ordered by key, ties by rank in the parent
        self.new_comm({"op": "comm_split", "comm": name, "color": per_rank([colors[w % len(colors)] for w in self.world]),
                       "key": per_rank([keys[w % len(keys)] for w in self.world])}, "comm_split", vals, only)
        self.labels.append("split")
        ks = [keys[w % len(keys)] for w in only]
        if len(set(ks)) < len(ks):
            self.labels.append("split-key-ties")
        if any(colors[w % len(colors)] is None for w in only):
            self.labels.append("split-undefined-color")
        if len(only) >= 3:
            self.nontrivial = True

    def step_dup(self, csel):
        name, c = self.C(csel)
        only = [w for w in self.world if c[w] is not None]
        self.new_comm({"op": "comm_dup", "comm": name}, "comm_dup", [list(c[w]) if c[w] is not None else None for w in self.world], only)
        self.labels.append("dup")

    def step_create(self, csel, labels, xs, group_only=False):
        """MPI_Comm_create(parent, group): every process of the parent passes the group of the processes that carry its label (the
        same list, in the same order, on all of them; MPI-3: disjoint groups); label None = the empty group -> MPI_COMM_NULL."""
        name, c = self.C(csel)
        only = [w for w in self.world if c[w] is not None]
        if not only:
            return
        vals = [None] * self.np
        ranks = [[] for _ in self.world]
        for w in only:
            parent = c[w]
            lab = labels[w % len(labels)]
            if lab is None:
                continue
            idxs = [i for i, x in enumerate(parent) if labels[x % len(labels)] == lab]
            order = pick_distinct(len(idxs), xs + list(range(len(idxs))))          # a permutation, the same for the whole subgroup
            ranks[w] = [idxs[j] for j in order]
            vals[w] = [parent[i] for i in ranks[w]]
        tmp = "t%d" % len(self.prog)
        self.emit({"op": "comm_group", "comm": name, "out": tmp}, "comm_group", {w: self.group_fields(c[w], w) for w in only}, only)
        self.emit({"op": "group_incl", "group": tmp, "ranks": per_rank(ranks), "out": tmp + "s"}, "group_incl",
                  {w: self.group_fields(vals[w] or [], w) for w in only}, only)
        if group_only:
            # MPI-3 MPI_Comm_create_group: collective over the members of the group only (tag = their label)
            callers = [w for w in only if vals[w] is not None]
            if callers:
                self.new_comm({"op": "comm_create_group", "comm": name, "group": tmp + "s",
                               "tag": per_rank([labels[w % len(labels)] or 0 for w in self.world])}, "comm_create_group", vals, callers)
                self.labels.append("create_group")
            return
        self.new_comm({"op": "comm_create", "comm": name, "group": tmp + "s"}, "comm_create", vals, only)
        self.labels.append("create")
        if any(labels[w % len(labels)] is None for w in only):
            self.labels.append("create-empty-group")
        if len(set(labels[w % len(labels)] for w in only) - {None}) > 1:
            self.labels.append("create-disjoint-groups")

    def step_ccompare(self, s1, s2):
        n1, c1 = self.C(s1)
        n2, c2 = self.C(s2)
        only = [w for w in self.world if c1[w] is not None and c2[w] is not None]
        if not only:
            return
        exp = {}
        for w in only:
            r = "IDENT" if n1 == n2 else g_compare(c1[w], c2[w])
            exp[w] = {"rc": 0, "res": "CONGRUENT" if (r == "IDENT" and n1 != n2) else r}
        self.emit({"op": "comm_compare", "c1": n1, "c2": n2}, "comm_compare", exp, only)
        self.labels.append("comm_compare")

    def step_iso(self, s1, s2, ps, qs, anysrc, anytag, tag):
        """p sends one message to q on communicator A then one on B (same tag); q receives on B FIRST, then on A."""
        n1, c1 = self.C(s1)
        n2, c2 = self.C(s2)
        if n1 == n2:
            return
        pairs = [(p, q) for p in self.world for q in self.world
                 if p != q and c1[p] is not None and c2[p] is not None and q in c1[p] and q in c2[p]]
        if not pairs:
            return
        p, q = pairs[(ps * 13 + qs) % len(pairs)]
        A, B = c1[p], c2[p]
        # wildcard receives must not see the traffic of another isolation step: the steps are separated by barriers on the world,
        # and every step has its own tag
        self.emit({"op": "barrier", "comm": "world"}, "barrier", {w: {"rc": 0} for w in self.world})
        k = len(self.prog)
        tag = tag + 10 * k
        pa, pb = "%02x" % (17 + k % 200) * 8, "%02x" % (18 + k % 200) * 8
        self.emit({"op": "buf", "name": "sa%d" % k, "size": 8, "hex": pa}, "buf", {p: {"rc": 0}}, [p])
        self.emit({"op": "buf", "name": "sb%d" % k, "size": 8, "hex": pb}, "buf", {p: {"rc": 0}}, [p])
        self.emit({"op": "buf", "name": "ra%d" % k, "size": 8, "fill": 0}, "buf", {q: {"rc": 0}}, [q])
        self.emit({"op": "buf", "name": "rb%d" % k, "size": 8, "fill": 0}, "buf", {q: {"rc": 0}}, [q])
        self.emit({"op": "isend", "buf": "sa%d" % k, "count": 8, "type": "BYTE", "dest": A.index(q), "tag": tag, "comm": n1, "req": "qa%d" % k},
                  "isend", {p: {"rc": 0}}, [p])
        self.emit({"op": "isend", "buf": "sb%d" % k, "count": 8, "type": "BYTE", "dest": B.index(q), "tag": tag, "comm": n2, "req": "qb%d" % k},
                  "isend", {p: {"rc": 0}}, [p])
        self.emit({"op": "recv", "buf": "rb%d" % k, "count": 8, "type": "BYTE", "src": self.K.ANY_SOURCE if anysrc else B.index(p),
                   "tag": self.K.ANY_TAG if anytag else tag, "comm": n2},
                  "isolation-recv", {q: {"rc": 0, "src": B.index(p), "tag": tag, "count": 8}}, [q])
        self.emit({"op": "recv", "buf": "ra%d" % k, "count": 8, "type": "BYTE", "src": A.index(p), "tag": tag, "comm": n1},
                  "isolation-recv", {q: {"rc": 0, "src": A.index(p), "tag": tag, "count": 8}}, [q])
        self.emit({"op": "waitall", "reqs": ["qa%d" % k, "qb%d" % k]}, "waitall", {p: {"rc": 0}}, [p])
        self.emit({"op": "dump", "buf": "rb%d" % k}, "isolation-data", {q: {"hex": pb}}, [q])
        self.emit({"op": "dump", "buf": "ra%d" % k}, "isolation-data", {q: {"hex": pa}}, [q])
        self.emit({"op": "barrier", "comm": "world"}, "barrier", {w: {"rc": 0} for w in self.world})
        self.labels.append("isolation")
        if anysrc or anytag:
            self.labels.append("isolation-wildcard")
        if sorted(A) == sorted(B):
            self.labels.append("isolation-same-processes")
        self.nontrivial = True


# ---------------------------------------------------------------------------------------------
small = st.integers(0, 40)
xs_list = st.lists(st.integers(0, 30), max_size=8)
triple = st.tuples(st.integers(0, 23), st.integers(0, 23), st.sampled_from([-3, -2, -1, -1, 1, 1, 2, 3, 0])).map(list)
colors = st.lists(st.sampled_from([0, 0, 1, 1, 2, 5, None]), min_size=1, max_size=MAXNP)
keys = st.lists(st.integers(-3, 3), min_size=1, max_size=MAXNP)

step = st.one_of(
    st.tuples(st.just("incl"), small, xs_list),
    st.tuples(st.just("perm"), small, st.integers(0, 2), xs_list),
    st.tuples(st.just("perm"), small, st.integers(0, 2), xs_list),
    st.tuples(st.just("pair"), small, xs_list, st.integers(0, 5)),
    st.tuples(st.just("pair"), small, xs_list, st.integers(0, 5)),
    st.tuples(st.just("excl"), small, xs_list),
    st.tuples(st.just("rincl"), small, st.lists(triple, max_size=4)),
    st.tuples(st.just("rexcl"), small, st.lists(triple, max_size=4)),
    st.tuples(st.just("union"), small, small),
    st.tuples(st.just("inter"), small, small),
    st.tuples(st.just("diff"), small, small),
    st.tuples(st.just("inter"), small, small),
    st.tuples(st.just("cgroup"), small),
    st.tuples(st.just("translate"), small, st.lists(st.integers(-1, 30), max_size=8), small),
    st.tuples(st.just("compare"), small, small),
    st.tuples(st.just("split"), small, colors, keys),
    st.tuples(st.just("dup"), small),
    st.tuples(st.just("create"), small, st.lists(st.sampled_from([0, 0, 1, 2, None]), min_size=1, max_size=MAXNP), xs_list, st.booleans()),
    st.tuples(st.just("ccompare"), small, small),
    st.tuples(st.just("iso"), small, small, small, small, st.booleans(), st.booleans(), st.integers(0, 5)),
    st.tuples(st.just("iso"), small, small, small, small, st.booleans(), st.booleans(), st.integers(0, 5)),
    st.tuples(st.just("dup"), small),
).map(list)


@st.composite
def cases(draw):
    np_ = draw(st.sampled_from([1, 2, 3, 4, 4, 5, 6, 7, 8, 8, 9, 10, 11, 12, 12]))
    return {"np": np_, "steps": draw(st.lists(step, min_size=1, max_size=14))}


class C32(core.Prop):
    id = "C32"
    ready = True
    drivers = ["mpi_interp"]
    sizes = {"quick": 1000, "thorough": 30000}
    max_workers = 4
    technique = ("stateful property-based testing (Hypothesis): ordered-list reference of the MPI-3.1 group algebra and communicator "
                 "constructors, compared with what every rank of an SMPI program observes")
    rule = ("A case = a world of 1..12 ranks and <= 14 steps, each creating or querying a group or a communicator chosen among those "
            "built so far (indices modulo the number of live objects, rank lists and ranges normalised to be valid, so every list of "
            "steps is a valid program): Group_incl/excl (any order of distinct ranks), range_incl/range_excl (positive and negative "
            "strides), union, intersection, difference (also with MPI_GROUP_EMPTY), Comm_group, translate_ranks (with MPI_PROC_NULL and "
            "ranks absent from the target), Group_compare, Comm_split (colors incl. MPI_UNDEFINED, keys with ties and negatives), Comm_dup, "
            "Comm_create (one group for all, disjoint groups, empty group), Comm_create_group, Comm_compare, and an isolation step: p sends one message on "
            "communicator A then one on B with the same tag, q receives on B first (optionally ANY_SOURCE/ANY_TAG) then on A. "
            "Every member process executes every step; after each constructor the driver reports size, the caller's rank and the "
            "member list translated to world ranks.  Oracle: ordered lists of world ranks. Non-trivial: a binary group operation on two "
            "non-empty different groups that share members in a different order (or a union with common members), a split of >= 3 "
            "processes, or an isolation step. Distinct = distinct canonical JSON.")
    assumptions = ["rank lists with duplicates or out-of-range ranks, overlapping ranges, negative colors are erroneous in MPI: not generated",
                   "the identity of the returned handle (e.g. MPI_GROUP_EMPTY for an empty result) is not asserted, only its content",
                   "smpi/errors-are-fatal:no so that error codes are returned instead of aborting"]

    def strategy(self, tier):
        return cases()

    def fixed_cases(self, tier):
        res = []
        # the textbook examples: two groups in opposite orders
        for np_ in (2, 3, 5):
            res.append({"np": np_, "steps": [["incl", 0, [np_ - 1] * np_], ["union", 0, 2], ["union", 2, 0], ["inter", 0, 2], ["inter", 2, 0],
                                             ["diff", 0, 2], ["diff", 2, 0], ["compare", 0, 2], ["compare", 3, 0], ["translate", 0, list(range(np_)), 2]]})
        return res

    def check(self, case):
        oc = core.Outcome()
        K, E = mpi.consts()
        m = Model(case, K)
        res = mpi.run({"np": case["np"], "prog": m.prog}, cpu=30)
        oc.labels = sorted(set(m.labels)) + ["np=%d" % case["np"]]
        oc.nontrivial = m.nontrivial
        fail = res.failure()
        if fail:
            sig, msg = fail
            if sig == "bad-case":
                raise RuntimeError(msg)
            if res.crash is not None:
                sig = "crash:" + m.prog[res.crash["i"]]["op"]
            oc.bad(sig, msg)
            return oc
        sym = {K.UNDEFINED: UNDEF, K.PROC_NULL: PNULL}
        cmpname = {K.IDENT: "IDENT", K.SIMILAR: "SIMILAR", K.UNEQUAL: "UNEQUAL", K.CONGRUENT: "CONGRUENT"}
        for i, what, exp in m.expect:
            op = m.prog[i]
            for w, fields in sorted(exp.items()):
                rec = res.get(w, i)
                if rec is None:
                    oc.bad(what + ":not-executed", "rank %d did not report op #%d %s" % (w, i, op))
                    continue
                for f, ev in fields.items():
                    if f not in rec:
                        if f == "rc" or rec.get("rc", 0) != 0:
                            continue
                        oc.bad(what + ":missing-" + f, "rank %d op #%d %s: no field %s in %s" % (w, i, op, f, rec))
                        continue
                    gv = rec[f]
                    if f in ("me", "rank") and gv in sym:
                        gv = sym[gv]
                    if f == "res" and what in ("group_compare", "comm_compare"):
                        gv = cmpname.get(gv, gv)
                    if f == "res" and what == "group_translate":
                        gv = [sym.get(x, x) for x in gv]
                    if f == "members":
                        gv = [sym.get(x, x) for x in gv]
                    if gv == ev:
                        continue
                    if f == "members" and sorted(map(str, gv)) == sorted(map(str, ev)):
                        kind = "order"
                    else:
                        kind = f
                    oc.bad("%s:%s" % (what, kind), "rank %d, op #%d %s: %s = %s, expected %s%s"
                           % (w, i, {k: v for k, v in op.items() if k != "only"}, f, gv, ev, self.context(m, op, w)))
                    break
                if oc.violations:
                    break
            if oc.violations:
                break
        return oc

    @staticmethod
    def context(m, op, w):
        out = []
        for key in ("group", "g1", "g2"):
            if key in op and op[key] in m.gnames:
                out.append("%s=%s" % (op[key], m.groups[m.gnames.index(op[key])][w]))
        for key in ("comm", "c1", "c2"):
            if key in op and op[key] in m.cnames:
                out.append("%s=%s" % (op[key], m.comms[m.cnames.index(op[key])][w]))
        return "  [as world ranks: " + ", ".join(out) + "]" if out else ""


PROP = C32()
