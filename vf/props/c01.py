"""C01 Simulations are reproducible."""
from .. import core, s4u, syncgen

KINDS = ("mutex", "sem", "cond", "barrier", "mailbox", "exec", "async", "mess")


def fan_programs():
    """An actor that owns 4-12 pending asynchronous communications, each matched with a blocked peer, when it is killed or when its
    body ends: the kernel cancels them one after the other, and the order in which the peers wake up must not depend on addresses
    (containers keyed by pointers are the classic source of layout-dependent orders; with <= 3 elements most of them still iterate in
    insertion order, hence the size)."""
    from hypothesis import strategies as st

    @st.composite
    def build(draw):
        plat = s4u.small_shared_platform()
        hosts = [h["name"] for h in plat["hosts"]]
        n = draw(st.integers(4, 12))
        sends = draw(st.booleans())
        owner = []
        for i in range(n):
            size = draw(st.sampled_from([1e7, 1e8, 1e9]))
            owner.append(["put_async", i, size, {}, i] if sends else ["get_async", i, i, {}])
        how = draw(st.sampled_from(["killed", "killed", "body-ends"]))
        owner.append(["sleep", 1000.0 if how == "killed" else draw(st.sampled_from([0.25, 1.0, 2.0]))])
        actors = [{"name": "a0", "host": draw(st.sampled_from(hosts)), "ops": owner}]
        for i in range(n):
            ops = []
            if draw(st.integers(0, 2)) == 0:
                ops.append(["sleep", draw(st.sampled_from([0.0, 0.125, 0.25]))])
            ops.append(["get", i, {}] if sends else ["put", i, draw(st.sampled_from([1e7, 1e8, 1e9])), {}])
            ops += [["lock", 0], ["sleep", 0.125], ["unlock", 0]]
            actors.append({"name": "a%d" % (i + 1), "host": draw(st.sampled_from(hosts)), "ops": ops})
        if how == "killed":
            actors.append({"name": "a%d" % (n + 1), "host": draw(st.sampled_from(hosts)),
                           "ops": [["sleep", draw(st.sampled_from([0.5, 1.0, 2.0]))], ["kill", "a0"]]})
        return {"platform": plat, "objects": {"mailbox": n, "mutex": [{"recursive": False}]}, "actors": actors, "fan": how}
    return build()


class C01(core.Prop):
    id = "C01"
    drivers = ["s4u_interp"]
    ready = True
    sizes = {"quick": 300, "thorough": 3000}
    max_workers = 6
    technique = ("property-based metamorphic testing (Hypothesis): the same generated program run in fresh processes with different "
                 "address-space layouts (ASLR on twice, ASLR off, perturbed heap/environment) must give byte-identical observation logs")
    rule = ("Programs of 2-5 actors x <=10 operations mixing sleeps, execs, blocking and asynchronous mailbox communications (sizes 0..1e5) "
            "with wait/test, message queues, mutexes, semaphores (with timeouts), condition variables and barriers, on a 3-host platform "
            "with shared links (real sharing, latencies, one multi-pstate host); one program in four is instead an actor that owns 4-12 pending "
            "asynchronous communications, each matched with a blocked peer, when it is killed or when its body ends (the kernel cancels them "
            "one by one: the wake-up order of the peers is in the log). Each program is executed 3 times in forked children whose heap is shifted by different, "
            "case-chosen amounts (all later addresses and pointer hash values differ) and, one program in five, 3 more times in brand-new "
            "processes: with ASLR, under `setarch -R`, and with a larger environment, MALLOC_PERTURB_ and MALLOC_TOP_PAD_. "
            "Oracle: all the complete observation logs (every request/response of every actor with hex-float dates and values, every "
            "kernel signal, the deadlock report) are byte-identical. "
            "Non-trivial: >=2 actors blocked on one object at some point or >=2 events at the same date from different actors "
            "(measured from the log: two consecutive records of different actors with the same date).")
    assumptions = ["the interpreter prints no pointer and no wall-clock value; dates are printed with %a"]

    def strategy(self, tier):
        from hypothesis import strategies as st
        gen = syncgen.programs(kinds=KINDS, max_actors=5, max_ops=10, platform=s4u.small_shared_platform())
        return st.integers(0, 3).flatmap(lambda k: fan_programs() if k == 0 else gen)

    def check(self, case):
        oc = core.Outcome()
        # cheap runs: forked children of the server whose heap is shifted by different amounts (addresses and pointer hashes
        # differ); one program in five is also run in brand-new processes: ASLR on, ASLR off (setarch -R), perturbed environment
        h = int(core.case_hash(case)[:8], 16)
        runs = [("fork-pad0", "fork", 0), ("fork-pad1", "fork", 4096 + 8 * (h % 4001)), ("fork-pad2", "fork", 16 * (h % 977) + 24)]
        if h % 5 == 0:
            runs += [("exec-aslr", (), None), ("exec-no-aslr", ("setarch", "-R"), None),
                     ("exec-perturbed", (), {"MALLOC_PERTURB_": "165", "VF_PADDING": "x" * 20000, "MALLOC_TOP_PAD_": "1048576"})]
            oc.labels.append("fresh-processes")
        outs = []
        oc.evals = 0
        for name, prefix, env in runs:
            if prefix == "fork":
                sc = dict(case)
                if env:
                    sc["pad"] = env
                log = s4u.run(sc)
            else:
                log = s4u.run_exec(case, prefix, env)
            oc.evals += 1
            if log.wall_exceeded:
                raise core.Inconclusive()
            if not log.done:
                oc.bad("run-crashed", "run %s did not finish: %s" % (name, log.crash_text()))
                return oc
            outs.append((name, log))
        ref_name, ref = outs[0]
        for name, log in outs[1:]:
            if log.r.out != ref.r.out:
                a, b = ref.r.out.splitlines(), log.r.out.splitlines()
                i = 0
                while i < min(len(a), len(b)) and a[i] == b[i]:
                    i += 1
                oc.bad("runs-differ:" + name, "run %s differs from run %s at log line %d:\n  %s\n  %s" % (
                    name, ref_name, i, a[i] if i < len(a) else "<end>", b[i] if i < len(b) else "<end>"))
                break
        recs = [l for l in ref.lines if l.get("k") in ("req", "ret")]
        same_date = any(x["a"] != y["a"] and x["t"] == y["t"] for x, y in zip(recs, recs[1:]))
        if same_date:
            oc.labels.append("same-date-events")
        if ref.of("deadlock"):
            oc.labels.append("deadlock")
        if any("exc" in l for l in recs):
            oc.labels.append("exception")
        if case.get("fan"):
            oc.labels.append("owner-of-many-pending-comms-" + case["fan"])
            if sum(1 for l in recs if "exc" in l) >= 4:
                oc.labels.append(">=4-peers-woken-by-the-cancellation")
        oc.nontrivial = same_date
        return oc


PROP = C01()
