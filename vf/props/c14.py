"""C14 Real runs conform to the reference interleaving semantics."""
import json

from .. import core, refsem, s4u, syncgen

FACTORIES = ["raw", "boost", "thread"]


def normalise(progs, a, i, v):
    op = progs[a][i][0]
    if op == "barrier":
        return "*"                         # return value of Barrier::wait: not part of the outcome
    if op == "get" and isinstance(v, dict):
        return {"from": v["from"], "seq": v["seq"]}
    return v


def run_outcome(case, log):
    """terminal outcome of a real run, in the format of refsem.Explorer.terminal()"""
    progs = {a["name"]: a["ops"] for a in case["actors"]}
    obs = {a: [] for a in progs}
    blocked = {}
    for rec in log.ops():
        a = rec["a"]
        if rec["n_ret"] is None:
            blocked[a] = rec["i"]
        elif "exc" in rec:
            obs[a].append("!" + rec["exc"])
        else:
            obs[a].append(normalise(progs, a, rec["i"], rec.get("r")))
    return refsem._freeze({"obs": obs, "blocked": blocked, "failed": False}), blocked


class C14(core.Prop):
    id = "C14"
    drivers = ["s4u_interp"]
    ready = True
    sizes = {"quick": 400, "thorough": 5000}
    max_workers = 6
    technique = ("property-based testing (Hypothesis): terminal outcome of real runs under each context factory must belong to the "
                 "outcome set computed by an independent all-interleavings reference explorer (vf/refsem.py)")
    rule = ("Synchronisation-only programs of 2-5 actors x <=12 operations over mutexes (plain/recursive, lock/try_lock/unlock), semaphores, "
            "condition variables (wait, wait_for), barriers and mailboxes (blocking put/get), with dyadic sleeps that only shift the arrival "
            "order; each program is executed under contexts/factory raw, boost and thread. Oracle: the reference explorer (FIFO objects, "
            "request/wait steps, mode 'real') enumerates every reachable terminal state = (observations of every actor, blocked actors and the "
            "operation each is blocked in); the run's terminal state must be one of them, a deadlock must be reported iff actors stay blocked, "
            "hence only in a reachable deadlock and never for a program without one. "
            "Non-trivial: the reference has >=2 terminal outcomes or a reachable deadlock. Programs whose reference state space exceeds "
            "300000 states are discarded by size (counted as invalid).")
    assumptions = ["the reference semantics is validated against simgrid-mc without reduction by C38 on the same generator",
                   "a condition-variable wait with a positive timeout may time out at any moment while not notified (superset of timed behaviour)"]

    def strategy(self, tier):
        from hypothesis import strategies as st
        general = syncgen.programs(kinds=("mutex", "sem", "cond", "cond-any-mutex", "barrier", "mailbox", "tick"), max_actors=5,
                                   max_ops=12, mc=True)
        # a class aimed at condition variables: one condition variable, two mutexes, every waiter may bring its own mutex
        condvars = syncgen.programs(kinds=("mutex", "cond", "cond-any-mutex", "tick"), max_actors=4, min_actors=3, max_ops=8, mc=True,
                                    max_mutex=2, max_cond=1)
        return st.one_of(general, general, condvars)

    def check(self, case):
        oc = core.Outcome()
        try:
            ex = refsem.explore(case, "real", max_states=300000)
        except refsem.TooBig:
            oc.invalid = True
            return oc
        oc.evals = 0
        for fac in FACTORIES:
            sc = dict(case)
            sc["cfg"] = list(case.get("cfg", [])) + ["contexts/factory:" + fac]
            log = s4u.run(sc, cpu=20, wall=240)
            oc.evals += 1
            if log.wall_exceeded:
                raise core.Inconclusive()
            if not log.done:
                oc.bad("run-crashed:" + fac, "s4u_interp did not finish under contexts/factory:%s: %s" % (fac, log.crash_text()))
                continue
            term, blocked = run_outcome(case, log)
            dl = bool(log.of("deadlock"))
            if dl != bool(blocked):
                oc.bad("deadlock-report-inconsistent", "factory %s: deadlock reported=%s but blocked actors=%s" % (fac, dl, blocked))
            if term not in ex.outcomes:
                kind = "unreachable-deadlock" if blocked else "unreachable-outcome"
                near = sorted(ex.outcomes)[:4]
                oc.bad(kind, "factory %s: the run ended in %s which the reference semantics cannot reach (%d reachable terminal states, "
                       "e.g. %s)" % (fac, term, len(ex.outcomes), near))
        if len(ex.outcomes) >= 2:
            oc.labels.append("ref>=2-outcomes")
        if ex.deadlocks:
            oc.labels.append("ref-has-deadlock")
        oc.labels.append("ref-states<=1000" if ex.nstates <= 1000 else "ref-states>1000")
        oc.nontrivial = len(ex.outcomes) >= 2 or bool(ex.deadlocks)
        oc.info = {"ref_outcomes": len(ex.outcomes), "ref_states": ex.nstates}
        return oc


PROP = C14()
