"""C07 Barrier semantics."""
from .c04 import SyncProp


class C07(SyncProp):
    id = "C07"
    kinds = ("barrier",)
    gen_args = {"max_actors": 6, "max_ops": 8}
    sizes = {"quick": 1500, "thorough": 20000}
    ready = True
    nontrivial_labels = ("barrier->=2-groups", "deadlock")
    technique = ("property-based testing (Hypothesis): generated barrier programs run on the real kernel, their kernel-ordered log "
                 "replayed through a sequential barrier specification (groups of n in arrival order, exact release dates)")
    rule = ("Programs of 1-6 actors calling wait 1-8 times on 1-2 barriers of size 1..6 (sizes larger than the number of arrivals included: "
            "the last group stays incomplete), with dyadic sleeps that vary the arrival order. Oracle: the k-th arrival belongs to group "
            "ceil(k/n); every waiter of a group returns exactly at the date of the group's last arrival, none earlier; waiters of an incomplete "
            "group never return. The return value of wait is not asserted (the statement does not mention it). "
            "Non-trivial: >=2 groups form on one barrier, or a group stays incomplete (reported deadlock).")
    assumptions = ["sequential runs (contexts/nthreads:1)"]


PROP = C07()
