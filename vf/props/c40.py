"""C40 ODPOR explores each equivalence class once."""
import os
import re

from hypothesis import strategies as st

from .. import core, mcprog, mcrun, peek, refsem, syncgen


class C40(core.Prop):
    id = "C40"
    drivers = ["s4u_interp", "mc_peek"]
    ready = True
    max_workers = 6
    sizes = {"quick": 30, "thorough": 800}
    technique = ("property-based differential testing (Hypothesis): the complete executions explored by simgrid-mc with reduction odpor vs "
                 "those explored without reduction, compared up to the checker's own dependency relation (Mazurkiewicz classes)")
    rule = ("Synchronisation programs (half from mcprog.many_actor_programs: 4-5 actors x 1-2 operations in a generated creation order, semaphores of capacity 0/1 with release/acquire chains across actors, lock / try_lock mixes; a third from mcprog.deadlock_free_programs: 2-3 actors; the others from vf/syncgen.py, contention profile; model-checker subset: mutex incl. try_lock, semaphore, condition "
            "variable, barrier, blocking mailbox put/get; 2-3 actors x <=6 operations, thorough 4 x 8; no multi-valued transition) that "
            "have no deadlock and at most 300 (thorough 1500) maximal paths according to the reference interleaving semantics "
            "(vf/refsem.py).  simgrid-mc runs them (DFS) with reduction none and with reduction odpor, --log=mc_dfs.thres:verbose; every "
            "complete execution is rebuilt from the 'Executed <aid> ... (stack depth d' lines.  Every distinct trace is replayed by "
            "mc_peek (all of them in forked copies of one process), which rebuilds the checker-side transitions and evaluates "
            "dispatch_depends() on every pair.  Canonical form of a trace = (per-actor sequence of transition types, set of ordered "
            "pairs ((actor a, its i-th transition), (actor b, its j-th transition)) that are dependent and occur in that order).  Oracle: "
            "the odpor traces have pairwise different canonical forms; the set of canonical forms of the odpor traces equals the set of "
            "canonical forms of the traces explored without reduction (same number of classes, each class represented); and a third run "
            "with model-check/debug-optimality:1 does not die on 'Inserted a sequence that is equivalent'.  Runs that abort on the "
            "recorded C38 defects (sdpor/odpor 'Actor -1 does not exist in state') are counted, not decided.  Second mode ('sample', half of the "
            "cases) for programs with 300..40000 paths, where an exhaustive run is too expensive: 30 generated random complete schedules stand for "
            "the executions found without reduction; each must be equivalent to one odpor execution, and the odpor executions must be pairwise "
            "inequivalent.  Non-trivial: >= 3 classes. "
            "Distinct = distinct canonical JSON.")
    assumptions = ["the reference semantics is only used to select programs (no deadlock, bounded number of paths)",
                   "two traces are equivalent iff they have the same canonical form; depends() is evaluated inside each trace on the "
                   "transitions as refreshed by their execution"]

    limit = 300

    def strategy(self, tier):
        big = tier == "thorough"
        self.limit = 1500 if big else 300
        limit = self.limit
        contention = syncgen.programs(kinds=("mutex", "sem", "cond", "barrier", "mailbox"), max_actors=4 if big else 3, max_ops=8 if big else 6,
                                      mc=True, max_mutex=2, max_sem=1, max_cond=1, max_bar=1, profile="contention")
        # most contention programs can deadlock (outside the domain: C40 is about complete executions); the others are deadlock-free
        # by construction
        safe = mcprog.deadlock_free_programs(max_actors=4 if big else 3, max_blocks=3)
        large = mcprog.deadlock_free_programs(max_actors=4 if big else 3, max_blocks=4)

        def paths(sc):
            try:
                ex = refsem.explore(sc, "mc", max_states=100000)
            except refsem.TooBig:
                return None
            if ex.deadlocks or not ex.complete_outcomes():
                return None
            return ex.npaths
        # construction rather than rejection: the search only sees programs of the domain
        many = mcprog.many_actor_programs()      # 4-5 actors x 1-2 operations, generated creation order, semaphore chains
        exact = st.one_of(safe, safe, many, many, many, contention).filter(lambda sc: (paths(sc) or 0) >= 2 and paths(sc) <= limit)
        sampled = large.filter(lambda sc: limit < (paths(sc) or 0) <= 40000)
        picks = st.lists(st.lists(st.integers(0, 5), min_size=70, max_size=70), min_size=30, max_size=30)
        return st.one_of(exact.map(lambda sc: {"program": sc, "mode": "exact"}),
                         st.tuples(sampled, picks).map(lambda t: {"program": t[0], "mode": "sample", "picks": t[1]}))

    def fixed_cases(self, tier):
        if os.environ.get("VF_NO_FIXED"):
            return []
        return FIXED

    def check(self, case):
        oc = core.Outcome()
        sc = case["program"]
        try:
            ex = refsem.explore(sc, "mc", max_states=150000)
        except refsem.TooBig:
            oc.invalid = True
            return oc
        mode = case.get("mode", "exact")
        if ex.deadlocks or (mode == "exact" and ex.npaths > self.limit) or not ex.complete_outcomes():
            oc.invalid = True
            return oc
        oc.labels.append("mode-" + mode)
        progs = [a["ops"] for a in sc["actors"]]
        oc.labels.append("actors>=4" if len(progs) >= 4 else "actors=%d" % len(progs))
        rel = [{o[1] for o in l if o[0] == "release"} for l in progs]
        if any(any(o[0] == "acquire" for o in l[:i]) for l in progs for i, o2 in enumerate(l) if o2[0] == "release"):
            oc.labels.append("sem-release-chain")
        if any(sum(1 for r in rel if x in r) >= 2 for x in set().union(*rel)):
            oc.labels.append("sem-released-by-several-actors")
        if any(o[0] == "try_lock" for l in progs for o in l):
            oc.labels.append("has-try-lock")
        oc.evals = 0
        runs = {}
        for red in (("none", "odpor") if mode == "exact" else ("odpor",)):
            r0, hang = peek.run_checker(sc, ["model-check/reduction:" + red] + mcrun.BASE_CFG, cpu=120, wall=1200, logs=["mc_dfs.thres:verbose"])
            oc.evals += 1
            if r0.wall_exceeded:
                raise core.Inconclusive()
            r = mcrun.McResult(sc, r0)
            if "does not exist in state" in r0.err:
                oc.labels.append("undecided-known-c38-abort")
                return oc
            if hang or r0.cpu_exceeded or not r.ended or r0.rc != 0:
                oc.bad("checker-failed:" + red, "simgrid-mc reduction:%s did not end normally (status %s, hang %s, cpu exceeded %s); log tail: %s"
                       % (red, r0.rc, hang, r0.cpu_exceeded, r.tail()))
                return oc
            traces, mismatch = peek.explored_traces(r0.err)
            if mismatch:
                oc.bad("driver-trace-parse", "trace rebuilt from the verbose log %s, printed %s" % (mismatch[1], mismatch[0]))
                return oc
            if len(traces) != r.traces:
                oc.bad("driver-trace-parse", "reduction %s: %d complete executions rebuilt from the log, the checker counts %d explored traces"
                       % (red, len(traces), r.traces))
                return oc
            runs[red] = traces
        if mode == "sample":
            # no exhaustive run: a sample of random complete schedules stands for "the executions found without reduction"; each
            # of them must be equivalent to one odpor execution
            ps = peek.run({"scenario": sc, "schedule": [], "branches": [[{"pick": k} for k in pl] for pl in case["picks"]], "dump": "none"},
                          cpu=120, wall=1200)
            oc.evals += 1
            if ps.r.wall_exceeded:
                raise core.Inconclusive()
            if not ps.done or ps.of("branch_crash"):
                oc.bad("driver-crash", "mc_peek did not finish: " + ps.crash_text())
                return oc
            sampled = []
            for k in range(len(case["picks"])):
                lines = ps.branches.get(k, [])
                fin = next((l for l in lines if l.get("k") == "final"), None)
                if fin is None or not any(l.get("k") == "stuck" for l in lines):
                    oc.bad("driver-sample", "a sampled schedule did not run the program to its end (70 steps are not enough?)")
                    return oc
                sampled.append(tuple(fin["aid"]))
            runs["none"] = sorted(set(sampled))
        oc.labels.append("none-traces<=10" if len(runs["none"]) <= 10 else "none-traces<=100" if len(runs["none"]) <= 100 else "none-traces>100")
        distinct = sorted(set(runs["none"]) | set(runs["odpor"]))
        p = peek.run({"scenario": sc, "schedule": [], "branches": [[[a, 0] for a in t] for t in distinct], "dump": "none"}, cpu=120, wall=1200)
        oc.evals += 1
        if p.r.wall_exceeded:
            raise core.Inconclusive()
        if not p.done or p.of("branch_crash"):
            oc.bad("driver-crash", "mc_peek did not finish: " + p.crash_text())
            return oc
        canon = {}
        for k, t in enumerate(distinct):
            lines = p.branches.get(k, [])
            fin = next((l for l in lines if l.get("k") == "final"), None)
            errs = [l for l in lines if l.get("k") == "error"]
            execs = [l for l in lines if l.get("k") == "exec"]
            if fin is None or errs or fin["n"] != len(t):
                oc.bad("trace-not-replayable", "the trace %s explored by simgrid-mc cannot be replayed by the application: %s"
                       % (";".join(map(str, t)), errs[:1] or "incomplete"))
                return oc
            canon[t] = self.canonical(t, execs, fin["dep"])
        cn = {}
        for t in runs["none"]:
            cn.setdefault(canon[t], []).append(t)
        co = {}
        for t in runs["odpor"]:
            co.setdefault(canon[t], []).append(t)
        fmt = lambda t: ";".join(map(str, t))
        dup = [ts for ts in co.values() if len(ts) > 1]
        if dup:
            oc.bad("odpor-explores-class-twice", "reduction odpor explored %d complete executions, %d of them equivalent to another one: e.g. %s and %s "
                   "(same per-actor transitions, every dependent pair in the same order)" % (len(runs["odpor"]), sum(len(d) - 1 for d in dup), fmt(dup[0][0]), fmt(dup[0][1])))
        missing = [c for c in cn if c not in co]
        extra = [c for c in co if c not in cn]
        allops = [o[0] for a in sc["actors"] for o in a["ops"]]
        cvt = ":condvar-timed-wait" if "cv_wait_for" in allops and ("notify_one" in allops or "notify_all" in allops) else ""
        if missing:
            oc.bad("odpor-misses-class" + cvt, "%s %d executions in %d classes, odpor %d executions in %d classes: no odpor execution is "
                   "equivalent to %s" % ("reduction none explored" if mode == "exact" else "random schedules gave", len(runs["none"]), len(cn),
                                         len(runs["odpor"]), len(co), fmt(cn[missing[0]][0])))
        if extra and mode == "exact":
            oc.bad("odpor-unknown-class", "odpor explored %s, which is equivalent to none of the %d executions explored without reduction"
                   % (fmt(co[extra[0]][0]), len(runs["none"])))
        # in-product oracle
        r0, hang = peek.run_checker(sc, ["model-check/reduction:odpor", "model-check/debug-optimality:1"] + mcrun.BASE_CFG, cpu=120, wall=1200)
        oc.evals += 1
        if r0.wall_exceeded:
            raise core.Inconclusive()
        if "Inserted a sequence that is equivalent" in r0.err:
            oc.bad("debug-optimality", "simgrid-mc reduction:odpor with model-check/debug-optimality:1 reports an execution equivalent to an already "
                   "explored one: %s" % "\n".join(l for l in r0.err.splitlines() if "sequence" in l or "Actor" in l)[:800])
        elif hang or (r0.rc != 0 and "does not exist in state" not in r0.err):
            oc.bad("checker-failed:odpor-debug", "simgrid-mc reduction:odpor debug-optimality did not end normally (status %s, hang %s): %s"
                   % (r0.rc, hang, mcrun.McResult(sc, r0).tail()))
        nclasses = len(co)
        oc.labels.append("classes=1" if nclasses == 1 else "classes=2" if nclasses == 2 else "classes<=10" if nclasses <= 10 else "classes<=50" if nclasses <= 50 else "classes>50")
        if len(runs["none"]) > len(cn):
            oc.labels.append("reduction-possible")
        oc.nontrivial = nclasses >= 3
        oc.info = {"none": len(runs["none"]), "odpor": len(runs["odpor"]), "classes": nclasses}
        return oc

    @staticmethod
    def canonical(trace, execs, dep):
        """(per-actor type sequences, ordered dependent pairs between events named (actor, rank))"""
        rank = {}
        names = []
        per_actor = {}
        for k, a in enumerate(trace):
            rank[a] = rank.get(a, 0) + 1
            names.append((a, rank[a]))
            per_actor.setdefault(a, []).append(execs[k]["tname"])
        pairs = set()
        n = len(trace)
        for i in range(n):
            for j in range(i + 1, n):
                if trace[i] != trace[j] and (dep[i][j] == "1" or dep[j][i] == "1" or dep[i][j] == "X"):
                    pairs.add((names[i], names[j]))
        return (tuple(sorted((a, tuple(l)) for a, l in per_actor.items())), frozenset(pairs))


def _sc(objects, actors):
    return {"platform": {"hosts": [{"name": "h0", "speed": 1024.0, "cores": 8}]}, "objects": objects,
            "actors": [{"name": "a%d" % i, "host": "h0", "ops": ops} for i, ops in enumerate(actors)], "quiet": ["adv", "act"]}


FIXED = [
    # 4 actors, semaphores s, t of capacity 0: a1 releases s, a2 releases t, a3 acquires t then releases s, a4 acquires s.  a4's SEM_WAIT
    # races with the SEM_UNLOCK(s) of a1 and of a3, and a2's SEM_UNLOCK(t) sits between them in the clock vector: 3 classes
    {"program": _sc({"sem": [0, 0]}, [[["release", 0]], [["release", 1]], [["acquire", 1], ["release", 0]], [["acquire", 0]]]), "mode": "exact"},
    {"program": _sc({"sem": [0], "mutex": [{"recursive": False}]},
                    [[["release", 0]], [["lock", 0], ["unlock", 0]], [["lock", 0], ["unlock", 0], ["release", 0]], [["acquire", 0]]]), "mode": "exact"},
    {"program": _sc({"mutex": [{"recursive": False}]}, [[["lock", 0], ["unlock", 0]], [["lock", 0], ["unlock", 0]]])},
    {"program": _sc({"mutex": [{"recursive": False}]}, [[["try_lock", 0], ["unlock_if", 0, 0]], [["try_lock", 0], ["unlock_if", 0, 0]],
                                                        [["lock", 0], ["unlock", 0]]])},
]

PROP = C40()
