"""C15 Sharing solvers never exceed capacities."""
from hypothesis import strategies as st

from .. import core, lmm


class C15(core.Prop):
    id = "C15"
    drivers = ["lmm_driver"]
    ready = True
    technique = "stateful property-based testing (Hypothesis) of LMM operation histories; capacity validity predicate evaluated on every solved system"
    sizes = {"quick": 15000, "thorough": 400000}
    rule = ("Hypothesis-generated histories (<=60 ops) of constraint/variable creation, expand (weights 0, <1, 1, >1, repeated), "
            "bound/penalty/capacity updates, suspend (penalty 0), free and solve on systems of <=12 constraints x <=20 variables, "
            "policies SHARED/FATPIPE/NONLINEAR(callback), concurrency limits, x solver in {maxmin, fairbottleneck, bmf} x selective on/off, "
            "executed on the real lmm::System by lmm_driver; after EVERY solve the capacity predicate is evaluated on the dumped system. "
            "Non-trivial: some solve leaves >=2 saturated constraints, or a bounded variable sitting at its bound. Distinct = distinct canonical JSON.")
    assumptions = ["tolerance = precision/work-amount (1e-5) relative to the capacity plus 1e-5*sum(w/penalty) absolute, as the statement allows",
                   "a BMF run that stops with its documented 'Unable to find a BMF allocation' abort is an allowed outcome (counted)",
                   "weights/penalties are drawn so that w/penalty >= 0.0078 >> precision (values below the precision are treated as zero by design)"]

    def strategy(self, tier):
        return lmm.histories(solvers=("maxmin", "maxmin", "fairbottleneck", "bmf"), selective=None, limits="some")

    def check(self, case):
        oc = core.Outcome()
        solver = case["solver"]
        r = lmm.run_history(case)
        steps, done = lmm.parse(r)
        oc.labels.append(solver)
        oc.labels.append("selective" if case["selective"] else "full")
        if not done:
            if solver == "bmf" and "Unable to find a BMF allocation" in r.err:
                oc.labels.append("bmf-explicit-error")
            elif r.wall_exceeded:
                raise core.Inconclusive()
            else:
                oc.bad("driver-crash:%s" % solver, "lmm_driver ended with rc=%s cpu_exceeded=%s; stderr tail: %s"
                       % (r.rc, r.cpu_exceeded, r.err[-1500:]))
        nsat_max = 0
        at_bound = False
        for s in steps:
            if not s["st"]["solved"]:
                continue
            where = "after op #%d" % s["i"]
            lmm.check_capacity(s["st"], solver, oc, where)
            nsat = 0
            for ci, c in enumerate(s["st"]["cnst"]):
                cap = lmm.eff_capacity(c, s["st"], ci)
                u, _ = lmm.usage(s["st"], ci, c)
                if u > 0 and u >= cap * (1 - 1e-4):
                    nsat += 1
            nsat_max = max(nsat_max, nsat)
            for v in s["st"]["var"]:
                if lmm.enabled(v) and v["bound"] > 0 and lmm.consuming(v) and abs(v["value"] - v["bound"]) <= 1e-4 * v["bound"]:
                    at_bound = True
            if oc.violations:
                break
        if nsat_max >= 2:
            oc.labels.append("two-saturated")
        if at_bound:
            oc.labels.append("var-at-bound")
        if any(c[0] == "cnst" and c[2] == 2 for c in case["ops"]):
            oc.labels.append("has-nonlinear")
        if any(c[0] == "cnst" and c[2] == 0 for c in case["ops"]):
            oc.labels.append("has-fatpipe")
        oc.nontrivial = nsat_max >= 2 or at_bound
        return oc


PROP = C15()
