"""C16 Max-min and BMF allocations are fair."""
from .. import core, lmm


class C16(core.Prop):
    id = "C16"
    drivers = ["lmm_driver"]
    ready = True
    technique = "property-based testing: differential against an exact-rational progressive-filling max-min solver plus a fairness characterisation predicate"
    sizes = {"quick": 15000, "thorough": 400000}
    rule = ("Same histories as C15, solver in {maxmin, bmf}. After every solve: (a) maxmin: every enabled consuming variable below its bound "
            "has a saturated constraint on which its rate*penalty is the largest; (b) on shared-only systems the rates equal the unique weighted "
            "max-min allocation computed by an exact progressive-filling solver over fractions.Fraction; (c) bmf: every consuming variable below its "
            "bound holds the largest weight*penalty*rate on a saturated resource, or the solver stops with its explicit error. "
            "Non-trivial: the solution of some solve has >=3 distinct rate*penalty levels.")
    assumptions = ["equality tolerance: relative 1e-7, widened to 2*precision*capacity/weight absolute (what the solver's clamps may legally eat)",
                   "systems with concurrency limits are compared using the penalties SimGrid currently applies (staged variables do not run)"]

    def strategy(self, tier):
        return lmm.histories(solvers=("maxmin", "maxmin", "maxmin", "bmf"), selective=None, limits="some")

    def check(self, case):
        oc = core.Outcome()
        solver = case["solver"]
        r = lmm.run_history(case)
        steps, done = lmm.parse(r)
        oc.labels.append(solver)
        if not done:
            if solver == "bmf" and "Unable to find a BMF allocation" in r.err:
                oc.labels.append("bmf-explicit-error")
            elif r.wall_exceeded:
                raise core.Inconclusive()
            else:
                oc.bad("driver-crash:%s" % solver, "lmm_driver ended with rc=%s; stderr tail: %s" % (r.rc, r.err[-1500:]))
        levels = 0
        exact_checked = 0
        for s in steps:
            if not s["st"]["solved"]:
                continue
            where = "after op #%d" % s["i"]
            if solver == "maxmin":
                levels = max(levels, lmm.check_fair_maxmin(s["st"], oc, where))
                w = lmm.check_exact(s["st"], oc, where)
                if w is not None:
                    exact_checked += 1
            else:
                lmm.check_fair_bmf(s["st"], oc, where)
                levels = max(levels, len({round(v["value"] * v["sg_pen"], 9) for v in s["st"]["var"] if lmm.enabled(v) and lmm.consuming(v)}))
            if oc.violations:
                break
        if exact_checked:
            oc.labels.append("exact-compared")
        if levels >= 3:
            oc.labels.append("three-levels")
        oc.nontrivial = levels >= 3
        return oc


PROP = C16()
