"""C13 Workflow dependencies are respected."""
from .. import core, wfgen


class C13(core.Prop):
    id = "C13"
    drivers = [wfgen.DRIVER]
    max_workers = 6
    ready = True
    technique = ("property-based testing (Hypothesis): random DAGs built through the API and through the JSON / DAX loaders, run on a "
                 "sharing-free platform; start and completion signals compared with the dates the dependency rule implies (closed forms)")
    sizes = {"quick": 800, "thorough": 40000}
    rule = ("Random DAGs of 1-30 activities (execs, host-to-host comms Comm::sendto_init, disk I/Os; 0-3 predecessors taken among the earlier "
            "nodes, often a common hub so that fan-out and joins occur; amounts include 0) on a sharing-free platform (2-4 hosts of 64 cores, "
            "one FATPIPE link per pair, one disk per I/O, CM02 without cross-traffic / TCP window) so that every duration is a closed form.  Built "
            "(a) through the API in four ways: from the main thread before Engine::run, from an actor (Exec::init / this_actor::exec_init, "
            "completions collected with ActivitySet::wait_any like examples/cpp/exec-dependent), with Engine::track_vetoed_activities + a "
            "scheduling loop (examples/cpp/dag-scheduling), with assignment from the on_veto callback; each node is assigned at creation, before "
            "start(), after a vetoed start(), at a later date by another actor (quarters of a second: coinciding dates are frequent), or at its veto; "
            "roots are started at build time or later, other nodes optionally get an early (vetoed) start(); (b) as a wfformat JSON file "
            "(create_DAG_from_json; tasks in topological or shuffled order, 'machine' given or not) and (c) as a DAX file (create_DAG_from_DAX; jobs, "
            "files with 0-2 producers and 0-3 consumers, control dependencies), both assigned after loading at date 0 or later.  Oracle, from the "
            "on_start / on_completion / on_veto signals: the loaders build exactly the described graph (names, kinds, amounts, dependencies, "
            "pre-assignment); every activity starts once and completes once; no start before the completion of a predecessor or before the "
            "assignment; start date == max(latest completion of the predecessors, assignment date, date of the first start request for a root) "
            "within 2 ulp; completion - start == closed form; get_start_time / get_finish_time agree with the signals.  Non-trivial: a node with "
            ">= 2 predecessors completing at different dates, or assigned after its predecessors completed.  DOT is skipped (no graphviz in this build).")
    assumptions = ["a communication is started by its own assignment (Comm::set_source / set_destination call start()): the scripts never call "
                   "start() on a root communication that is already fully assigned (Activity::start() has no guard: a second start restarts the "
                   "activity, which crashes at completion) and only assign a communication after its dependencies are declared",
                   "activities created by an actor report their completion when that actor waits for them: the builder actor waits with wait_any",
                   "disk I/O durations are accepted within half a byte per time advance that cuts the I/O (DiskS19Model::update_actions_state moves "
                   "an I/O forward by rint(rate * delta) bytes per step); other durations within 1e-9 relative + 1e-9 s",
                   "JSON files in which the single parent of a transfer is a compute task listed earlier without 'machine' are not generated "
                   "(the loader reads Exec::get_host() of an unassigned execution: undefined)",
                   "no failures, no cancellation, no parallel tasks"]

    def strategy(self, tier):
        return wfgen.cases()

    def check(self, case):
        oc = core.Outcome()
        log = wfgen.run(case)
        if log.wall_exceeded:
            raise core.Inconclusive()
        if not log.done:
            oc.bad("run-crashed", "s4u_wf did not finish: " + log.crash_text())
            return oc
        labels = set()
        oc.nontrivial = bool(wfgen.check(case, log, oc, labels))
        oc.labels = sorted(labels)
        return oc


PROP = C13()
