"""C13 Workflow dependencies are respected."""
from .. import core, wfgen


class C13(core.Prop):
    id = "C13"
    drivers = [wfgen.DRIVER]
    sizes = {"quick": 1000, "thorough": 40000}
    max_workers = 6
    technique = ("property-based testing (Hypothesis): random DAGs built through the API and through the JSON / DAX loaders, run on a "
                 "sharing-free platform; start and completion signals compared with the dates the dependency rule implies (closed forms)")
    rule = ""
    assumptions = []

    def strategy(self, tier):
        return wfgen.cases()

    def check(self, case):
        oc = core.Outcome()
        log = wfgen.run(case)
        if log.wall_exceeded:
            raise core.Inconclusive()
        if not log.done:
            oc.bad("run-crashed", "s4u_wf did not finish: " + log.crash_text())
            return oc
        labels = set()
        oc.nontrivial = bool(wfgen.check(case, log, oc, labels))
        oc.labels = sorted(labels)
        return oc


PROP = C13()
