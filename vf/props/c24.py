"""C24 Hierarchical routes are composed correctly."""
import os

from hypothesis import strategies as st

from .. import core, known, route

SIG_UPREV = "interzone-up:intermediate-zone-links-reversed"
SIG_DIJ_GW = "dijkstra-interior:consecutive-gateways-differ"
SIG_DIJ_PREPEND = "dijkstra:local-route-prepended-to-gathered-links"
SIG_BYPASS_REC = "interzone:bypass-not-applied-between-gateway-and-endpoint"
SIG_BYPASS_LOOP = "bypass-zone-route:endpoint-that-is-the-gateway-gets-its-loopback"
SIG_NESTED = "interzone:gateway-not-a-direct-member-of-its-zone"


class C24(core.Prop):
    id = "C24"
    drivers = ["route_driver"]
    ready = True
    max_workers = 4
    sizes = {"quick": 350, "thorough": 10000}
    technique = ("property-based testing (Hypothesis): reference route resolver written from the platform description and the "
                 "documented recursive algorithm; validity predicates (C25/C26) for the segments whose local route is not unique")
    rule = ("Hypothesis generates platforms of nested zones, at most 3 levels below the root zone and 40 hosts: leaf zones Full (all pairs "
            "declared, symmetrical or two one-way routes of 1-3 links), Floyd / Dijkstra / DijkstraCache (symmetric tree + chords), Star "
            "(up / down / symmetrical / loopback link lists, shared backbone), Vivaldi (peers with coordinates), WIFI (stations + access "
            "point), Empty (one host), torus / fat tree / dragonfly with host leaves; interior zones Full / Floyd / Dijkstra / "
            "DijkstraCache over sub-zones (zone routes with explicit gateways, per-direction gateways, chains whose consecutive gateways "
            "differ), Star with zones and hosts mixed, clusters whose leaves are small zones; split-duplex links, routers, declared "
            "loopback routes, default gateways, bypassRoute (two hosts of a zone) and bypassZoneRoute (zones below two different "
            "children, one per declaring zone).  Three platforms in ten are a Floyd zone whose outer sub-zones are only connected "
            "through a transit sub-zone entered and left by two different gateways, with directional routes inside it (label "
            "transit-two-gateways).  Gateways are direct members of the zone they speak for or (labelled class, as in "
            "examples/platforms/g5k.xml) nested in a sub-zone.  route_driver builds the platform through the s4u API; all host pairs "
            "(<= 7 hosts) or 10-50 drawn pairs (+ hosts to themselves) are asked to Host::route_to.  Oracle: a reference resolver "
            "written from the description and Platform_routing.rst (bypass first; same zone -> local route; else common ancestor, the "
            "route it declares between the two children, recursion src -> gw_src and gw_dst -> dst) yields a list of segments; "
            "exact segments must match link for link (a symmetrical declaration = reversed list with the other half of split-duplex "
            "links), segments inside shortest-path leaf zones are checked with the C25 predicate and cluster segments with the C26 "
            "predicates on the run of links owned by that zone; latency = sum of the latencies of the returned links + Vivaldi "
            "terms.  Non-trivial: the pair's common ancestor is above both hosts' zones, or a bypass applies.")
    assumptions = ["latencies are k/1024 so the sum is exact; the Vivaldi term is compared with relative tolerance 1e-12",
                   "at most one bypass route can apply to a pair (the lookup order among several is not documented)",
                   "hosts of Empty and WIFI zones are not routed to themselves (not documented)",
                   "classes that only fail because of a finding recorded for C25/C26 (multi-link hops in Dijkstra zones, dragonfly with several chassis, "
                   "Dijkstra sub-zones entered and left through different gateways) are not generated while that finding is `known`"]

    def strategy(self, tier):
        # classes behind recorded findings are generated only once the finding is no longer `known` (or with VF_C24_FULL=1)
        full = bool(os.environ.get("VF_C24_FULL"))
        kn25, kn26, kn24 = known.Known("C25"), known.Known("C26"), known.Known("C24")
        base = dict(dijkstra_single_link=kn25.is_known("dijkstra-hop-links-reversed") and not full,
                    dragonfly_one_chassis=kn26.is_known("dragonfly:same-group-route-restarts-from-chassis-0") and not full)
        if full or not kn24.is_known(SIG_NESTED):
            return route.platforms(nested_gw=5, **base)
        # the g5k-style class (gateway nested in a sub-zone) stays in at a low rate: its failures are matched by signature
        return route.platforms(nested_gw=1, **base)

    def check(self, case):
        oc = core.Outcome()
        plat = route.Platform(case)
        pairs = case["pairs"]
        res = [None] * len(pairs)       # result of every pair, or None when the process died before answering it
        fatal = {}                      # pair index -> (RunResult) of the run that died on it
        start = 0
        zdump = {}
        oc.evals = 0
        for rnd in range(4):
            sub = dict(case)
            sub["pairs"] = pairs[start:]
            r, zd, rr, done, build_err = route.run_platform(sub, cpu=10, wall=180)
            oc.evals += 1
            if r.wall_exceeded:
                raise core.Inconclusive()
            if build_err is not None:
                oc.bad("platform-rejected", "route_driver could not build the platform: %s" % build_err)
                return oc
            if not zd:
                oc.bad("platform-abort", "the platform could not be sealed (rc=%s): %s ... %s" % (r.rc, r.err[:900], r.err[-300:]))
                return oc
            zdump = zd
            for k, x in enumerate(rr):
                res[start + k] = x
            if done or start + len(rr) >= len(pairs):
                break
            fatal[start + len(rr)] = r          # the child died while answering this pair: go on behind it
            start = start + len(rr) + 1
            if start >= len(pairs):
                break
        owner = dict(plat.link_owner)
        lat = dict(plat.link_lat)
        for zn, zd in zdump.items():
            for l, la in zd["links"].items():
                owner.setdefault(l, zn)
                lat.setdefault(l, la)
        lat[route.LOOPBACK] = 0.0
        nontrivial = False
        allflags = set()
        nsig = {}

        def bad(sig, msg):
            nsig[sig] = nsig.get(sig, 0) + 1
            if nsig[sig] <= 3:
                oc.bad(sig, msg)
        for j, (s, d) in enumerate(pairs):
            ctx = {"flags": set()}
            try:
                exp = plat.resolve(s, d, ctx)
                segs, extra = route.flatten(exp)
            except route.NoRoute as e:
                oc.invalid = True
                oc.info = {"generator-bug": str(e), "pair": [s, d]}
                return oc
            flags = ctx["flags"]
            allflags |= flags
            ps, pd = plat.path(s), plat.path(d)
            common = 0
            while common < len(ps) and common < len(pd) and ps[common] is pd[common]:
                common += 1
            if (len(ps) > common and len(pd) > common) or "bypass-route" in flags or "bypass-zone-route" in flags:
                nontrivial = True
            if res[j] is None:
                if j in fatal:
                    r = fatal[j]
                    sig = self.classify("nontermination" if r.cpu_exceeded else "crash", flags)
                    bad(sig, "route %s -> %s %s; expected %s; stderr: %s" % (s, d, "never returned" if r.cpu_exceeded else "killed the process (rc=%s)" % r.rc,
                                                                          route.describe_segs(segs), r.err[-700:]))
                continue
            x = res[j]
            where = "route %s -> %s (zones %s -> %s)" % (s, d, "/".join(z.name for z in ps), "/".join(z.name for z in pd))
            try:
                if "err" in x:
                    raise route.Bad("exception", "raised '%s', expected %s" % (x["err"], route.describe_segs(segs)))
                try:
                    route.match_route(plat, owner, x["links"], segs, zdump)
                except route.Bad as b:
                    if "up-intermediate-segment-with-several-links" in flags:
                        try:
                            route.match_route(plat, owner, x["links"], segs, zdump, reverse_up_mid=True)
                            b = route.Bad(SIG_UPREV, "the links of the local route of an intermediate zone on the way up to the source gateway are in reverse order")
                        except route.Bad:
                            pass
                    raise route.Bad(b.sig, "%s; got %s, expected %s" % (b, x["links"], route.describe_segs(segs)))
                unknown = [l for l in x["links"] if l not in lat]
                if unknown:
                    raise route.Bad("unknown-link", "links %s are not part of the platform" % unknown)
                explat = sum(lat[l] for l in x["links"]) + extra
                if abs(x["lat"] - explat) > 1e-12 * max(1.0, abs(explat)):
                    raise route.Bad("latency", "latency %r, the links %s sum to %r (+ Vivaldi term %r)" % (x["lat"], x["links"], explat - extra, extra))
            except route.Bad as b:
                sig = self.classify(b.sig, flags)
                bad(sig, "%s: %s [%s]" % (where, b, ",".join(sorted(flags))))
        kinds = sorted({z.kind for z in plat.zones.values() if z.name != "_world_"})
        for k in kinds:
            oc.labels.append("kind:" + k)
        for z in plat.zones.values():
            if z.name != "_world_" and any(m[0] == "z" for m in z.members):
                oc.labels.append("interior:" + z.kind)
        oc.labels.append("depth:%d" % max(z.depth() for z in plat.zones.values()))
        for f in sorted(allflags):
            oc.labels.append("flag:" + f)
        if any(f.startswith("sp-interior-gateway-mismatch:") for f in allflags):
            # some queried pair crosses a sub-zone of a shortest-path zone that is entered and left by different gateways
            oc.labels.append("transit-two-gateways")
        nh = len(plat.hosts())
        oc.labels.append("hosts:" + ("1-4" if nh <= 4 else "5-12" if nh <= 12 else "13-40"))
        oc.nontrivial = nontrivial
        oc.info = {"hosts": nh, "zones": len(plat.zones), "pairs": len(pairs)}
        return oc


    @staticmethod
    def classify(sig, flags):
        """Root-cause class of a failing pair, from what its resolution went through (most specific first)."""
        if os.environ.get("VF_C24_NOCLASSIFY"):
            return sig + "[" + ",".join(sorted(flags)) + "]"
        if sig == SIG_UPREV:
            return sig
        if "sp-interior-gateway-mismatch:dijkstra" in flags or "sp-interior-gateway-mismatch:dijkstracache" in flags:
            return SIG_DIJ_GW
        if "gateway-nested-in-other-sub-zone" in flags:
            return SIG_NESTED
        if "bypass-endpoint-is-its-gateway" in flags:
            return SIG_BYPASS_LOOP
        if "bypass-inside-recursion" in flags:
            return SIG_BYPASS_REC
        if "dijkstra-local-route-appended-to-gathered-links" in flags and sig not in ("latency", "crash", "nontermination", "exception", "unknown-link"):
            # the Dijkstra segment sits in front of the links gathered before it: whatever predicate meets it first fails
            return SIG_DIJ_PREPEND
        return sig


PROP = C24()
