"""C43 Checker and application agree on every transition."""
import os

from hypothesis import strategies as st

from .. import core, mcprog, mcrun, peek

# fields compared one to one between what the application designates and what the checker decoded, per transition type
SAME = {
    "MUTEX_ASYNC_LOCK": ["mutex", "owner"], "MUTEX_TEST": ["mutex", "owner"], "MUTEX_TRYLOCK": ["mutex", "owner"],
    "MUTEX_UNLOCK": ["mutex", "owner"], "MUTEX_WAIT": ["mutex", "owner"],
    "SEM_ASYNC_LOCK": ["sem"], "SEM_UNLOCK": ["sem"], "SEM_WAIT": ["sem", "granted"],
    "BARRIER_ASYNC_LOCK": ["barrier"], "BARRIER_WAIT": ["barrier"],
    "CONDVAR_ASYNC_LOCK": ["cond", "mutex"], "CONDVAR_WAIT": ["cond", "mutex", "granted", "timeout"],
    "CONDVAR_SIGNAL": ["cond"], "CONDVAR_BROADCAST": ["cond"],
    "COMM_ASYNC_SEND": ["comm", "mbox", "tag"], "COMM_ASYNC_RECV": ["comm", "mbox", "tag"],
    "COMM_IPROBE": ["mbox", "is_sender", "tag"], "COMM_TEST": ["comm", "sender", "receiver", "mbox"],
    "COMM_WAIT": ["timeout", "comm", "sender", "receiver", "mbox"],
    "ACTOR_JOIN": ["target", "timeout"], "ACTOR_EXIT": [], "ACTOR_SLEEP": [], "ACTOR_CREATE": ["child"], "RANDOM": ["min", "max"],
    "TESTANY": [], "WAITANY": [],
}


class C43(core.Prop):
    id = "C43"
    drivers = ["mc_peek", "s4u_interp"]
    ready = True
    max_workers = 6
    sizes = {"quick": 120, "thorough": 4000}
    technique = ("property-based testing (Hypothesis): round trip of every observable simcall through the application's serializer and "
                 "the checker's deserializer (mc_peek loop-back), compared field by field with the kernel objects the simcall designates; "
                 "plus bounded simgrid-mc runs of the same programs that must end or fail clearly")
    rule = ("One generated program per family of observable simcalls (mutex, semaphore, condition variable, barrier, blocking mailbox, "
            "asynchronous comms with wait/test, wait_any/test_any, message queues, actor create/join/sleep/exit, iprobe, MC_random, and a "
            "mix), with generated parameters (object counts, tags, ranges, timeouts of condition variables, recursion), run by mc_peek "
            "under a generated schedule as an application of the model checker.  In every state every PENDING simcall (each alternative "
            "of multi-valued ones) and every EXECUTED one is serialized by its observer and rebuilt by deserialize_transition(), as "
            "AppSide and the checker do.  Oracle: the decoder consumes exactly the bytes that were encoded (none left, none missing); "
            "type, actor, and every object id / parameter of the decoded transition equal those of the kernel objects the observer "
            "designates (read from the live objects, not from the encoded bytes); semaphore capacity as documented by the encoder "
            "(value - waiting for LOCK/UNLOCK, value for WAIT).  One case in four (of those drawn for it: 1/4) also runs simgrid-mc (reduction none with max-depth 30, or dpor / odpor unbounded, 8 s of CPU) "
            "on the program: it must end (exploration ended / deadlock / property violation) or print a clear error; a run that "
            "dies of an uncaught exception or a signal, or in which checker and application all sleep in a read "
            "on their socket without consuming CPU (they wait for each other: a hang, detected from /proc, not from the wall clock) "
            "is a violation.  Non-trivial: a transition with >= 2 "
            "parameters was compared.  Distinct = distinct canonical JSON.")
    assumptions = ["the programs only use operations that the model checker documents as supported (no timeout on communications)",
                   "wall-clock is never a verdict: a simgrid-mc run that exceeds the wall guard is inconclusive"]

    def strategy(self, tier):
        @st.composite
        def cases(draw):
            kind, sc = draw(mcprog.programs())
            n = draw(st.sampled_from([3, 6, 10, 16, 24, 40]))
            picks = draw(st.lists(st.tuples(st.integers(0, 5), st.integers(0, 3)), min_size=n, max_size=n))
            mc = draw(st.sampled_from([None, None, None, None, None, None, None, None, None, "dpor", "none", "odpor"]))
            return {"kind": kind, "scenario": sc, "picks": [list(p) for p in picks], "mc": mc}
        return cases()

    def fixed_cases(self, tier):
        if os.environ.get("VF_NO_FIXED"):
            return []
        return []

    def check(self, case):
        oc = core.Outcome()
        oc.labels.append("kind-" + case["kind"])
        req = {"scenario": case["scenario"], "schedule": [{"pick": k, "tc": j} for k, j in case["picks"]], "dump": "all", "fields": True}
        p = peek.run(req)
        if p.r.wall_exceeded:
            raise core.Inconclusive()
        if not p.done:
            if "not supported by the model checker" in p.r.err:
                oc.labels.append("clear-error")        # what the statement allows: a clear error instead of a hang
                return oc
            oc.bad("app-crash:" + case["kind"], "mc_peek (the application under a schedule) did not finish: " + p.crash_text())
            return oc
        seen = set()
        rich = False
        for l in p.main:
            if l.get("k") == "state":
                for a in l["actors"]:
                    if not a.get("obs"):
                        oc.bad("no-observer", "step %d: actor %s is blocked in simcall %s without an observer" % (l["step"], a["aid"], a["call"]))
                    for pj in a.get("pending", []):
                        rich = self.compare(oc, "step %d, pending simcall of actor %d (alternative %d)" % (l["step"], a["aid"], pj["tc"]), pj, seen) or rich
            elif l.get("k") == "exec":
                rich = self.compare(oc, "step %d, simcall executed by actor %d" % (l["step"], l["aid"]), l, seen) or rich
            if len(oc.violations) > 6:
                break
        for l in p.of("final"):
            for e in l.get("depends_errors", []):
                oc.bad("depends-throws:%s" % ("TESTANY" if "TESTANY" in (e["a"], e["b"]) else "+".join(sorted([e["a"], e["b"]]))),
                       "dispatch_depends(%s[alternative %s], %s[alternative %s]) throws %s" % (e["a"], e["a_tc"], e["b"], e["b_tc"], e["what"]))
        for t in sorted(seen):
            oc.labels.append("t-" + t)
        oc.nontrivial = rich
        if case.get("mc"):
            self.run_checker(case, oc)
        return oc

    def compare(self, oc, where, rec, seen):
        """rec: a pending entry or an exec line.  Returns True when a transition with >= 2 parameters was compared."""
        af = rec.get("appf") or {}
        cf = rec.get("chkf")
        at = af.get("type", "?")
        app = rec.get("app") or rec.get("app_after")
        if "err" in rec or cf is None:
            oc.bad("decode-failure:" + at, "%s: the application encodes %s (%s) in %d bytes and the checker cannot decode it: %s"
                   % (where, app, af, rec.get("packed", -1), rec.get("err")))
            return False
        if rec.get("left"):
            oc.bad("decode-leftover:" + at, "%s: %s: the checker leaves %d of the %d encoded bytes unread (decoded as %s)"
                   % (where, app, rec["left"], rec["packed"], rec.get("chk")))
        seen.add(cf["type"])
        if at != cf["type"]:
            oc.bad("decode-type:" + at, "%s: the application issues %s (%s), the checker decodes a %s: %s" % (where, app, at, cf["type"], rec.get("chk")))
            return False
        if af.get("aid") != cf.get("aid"):
            oc.bad("decode-actor:" + at, "%s: issued by actor %s, decoded as of actor %s" % (where, af.get("aid"), cf.get("aid")))
        self.compare_fields(oc, where, at, af, cf, app, rec.get("chk"))
        if at in ("SEM_ASYNC_LOCK", "SEM_UNLOCK", "SEM_WAIT"):
            exp = af["value"] - af["waiting"] if at != "SEM_WAIT" else af["value"]
            if cf["capacity"] != exp:
                oc.bad("decode-field:%s:capacity" % at, "%s: %s: semaphore value %d with %d pending acquisitions, the checker decodes capacity %d, expected %d"
                       % (where, app, af["value"], af["waiting"], cf["capacity"], exp))
        if at in ("TESTANY", "WAITANY"):
            subs_a, subs_c = af["subs"], cf["subs"]
            if len(subs_a) != len(subs_c):
                oc.bad("decode-field:%s:count" % at, "%s: %d activities encoded, %d decoded" % (where, len(subs_a), len(subs_c)))
            else:
                for k, (sa, sc) in enumerate(zip(subs_a, subs_c)):
                    if sa["type"] != sc["type"]:
                        oc.bad("decode-type:%s:sub" % at, "%s: activity #%d is a %s (%s), decoded as %s" % (where, k, sa["type"], sa, sc["type"]))
                    else:
                        self.compare_fields(oc, where + ", activity #%d" % k, sa["type"], sa, sc, app, rec.get("chk"))
            return True
        return len(SAME.get(at, [])) >= 2

    @staticmethod
    def compare_fields(oc, where, at, af, cf, app, chk):
        for f in SAME.get(at, []):
            if f not in af or f not in cf:
                oc.bad("driver-fields", "%s: field %s missing (%s / %s)" % (where, f, af, cf))
            elif af[f] != cf[f]:
                oc.bad("decode-field:%s:%s" % (at, f), "%s: %s = %s in the application (%s), %s once decoded (%s)" % (where, f, af[f], app, cf[f], chk))

    def run_checker(self, case, oc):
        import re
        red = case["mc"] if isinstance(case["mc"], str) else "dpor"
        # a depth bound only without reduction: simgrid-mc itself warns that stopping at a fixed depth breaks dpor/odpor
        bound = ["model-check/max-depth:30"] if red == "none" else []
        r0, hang = peek.run_checker(case["scenario"], ["model-check/reduction:" + red] + bound + mcrun.BASE_CFG, cpu=8, wall=600)
        if r0.wall_exceeded:
            raise core.Inconclusive()
        r = mcrun.McResult(case["scenario"], r0)
        oc.evals += 1
        oc.labels.append("simgrid-mc")
        exc = re.search(r"Uncaught exception ([\w:]+?):? (\S+)", r0.err)
        frames = re.findall(r"#\d+ (simgrid::[\w:]+)\(", r0.err)
        frames = [f for f in frames if "xbt::handler" not in f and "Channel::" not in f]
        # signature: exception type + first word of its message (the backtrace is not always printed: not part of the signature)
        where = (exc.group(1).rstrip(":") + ":" + exc.group(2).rstrip(":") if exc else "signal")
        first_frame = frames[0] if frames else "?"
        clear_error = any(s in r0.err for s in ("is not supported", "not implemented", "Unsupported", "unsupported"))
        if hang:
            oc.bad("checker-hangs:" + case["kind"], "simgrid-mc (max-depth 40) on a program of kind %s: the checker and the application all sleep "
                   "in a read on their socket, without any CPU consumption over %d polls: they wait for each other for ever; log tail: %s"
                   % (case["kind"], 4, r.tail()))
        elif r0.cpu_exceeded:
            oc.labels.append("simgrid-mc-budget")      # a large state space, not a hang
        elif r0.rc != 0 and exc is not None and not (r.deadlock or r.assertion):
            oc.bad("checker-crash:" + where, "simgrid-mc died of an uncaught exception (status %s) in %s; log: %s"
                   % (r0.rc, first_frame, "\n".join(l for l in r0.err.splitlines() if "Uncaught" in l)[:600]))
        elif r0.rc < 0:
            oc.bad("checker-crash:" + where, "simgrid-mc died on signal %d; log tail: %s" % (-r0.rc, r.tail()))
        elif not (r.ended or r.deadlock or r.assertion or clear_error or "depth" in r0.err):
            oc.bad("checker-unclear:" + case["kind"], "simgrid-mc ended with status %d without a verdict nor a clear error; log tail: %s" % (r0.rc, r.tail()))
        else:
            oc.labels.append("simgrid-mc-ended")


PROP = C43()
