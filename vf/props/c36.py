"""C36 Each rank has its own copy of global variables."""
import os

from hypothesis import strategies as st

from .. import build, core

# variables of drivers/c36_prog.cpp + c36_vars_a.cpp + c36_vars_b.cpp: (name, initial value, C type)
VARS = [("a_init", 11, "int"), ("a_bss", 0, "int"), ("a_static_init", 13, "int"), ("a_static_bss", 0, "long"), ("a_dbl*2", 3, "double"),
        ("a_arr[0]", 21, "int"), ("a_arr[1023]", 0, "int"), ("a_big_bss[0]", 0, "int"), ("a_big_bss[299999]", 0, "int"),
        ("a_big_bss[150000]", 0, "int"),
        ("b_init", 17, "long"), ("b_bss", 0, "char"), ("b_static", 19, "short"), ("b_local()::v", 7, "int"), ("b_obj.x", 31, "int"),
        ("b_big_data[69999]", 0, "int"), ("Counter::count", 41, "int"), ("(anonymous)::b_anon", 43, "int"), ("*b_ptr", 47, "int"),
        ("c36_bcast_var", 0, "long"),
        ("main_global", 53, "int"), ("main_local()::counter", 0, "int"), ("main_array[2]", 63, "long"), ("main_pair.d", 4, "double")]
BCAST_VAR = 19
NBUF = 64


def conv(v, ctype):
    if ctype == "char":
        return (v + 128) % 256 - 128
    if ctype == "short":
        return (v + 32768) % 65536 - 32768
    return v


BLOCKING = ["B", "A", "R", "G", "X", "P", "T"]

step = st.one_of(
    st.tuples(st.just("W"), st.integers(0, len(VARS) - 1), st.integers(1, 255), st.integers(0, 2000)),
    st.tuples(st.just("W"), st.sampled_from([1, 3, 7, 8, 9, 11, 13, 15, 18, 21]), st.integers(1, 255), st.integers(0, 2000)),
    st.tuples(st.just("C")),
    st.tuples(st.sampled_from(BLOCKING)),
    st.tuples(st.sampled_from(BLOCKING)),
    st.tuples(st.just("O"), st.integers(0, 7)),
    st.tuples(st.just("E"), st.sampled_from([1000, 100000, 3000000])),
    st.tuples(st.just("S"), st.sampled_from([1, 50, 2000])),
).map(list)


@st.composite
def cases(draw, maxsteps):
    return {"np": draw(st.sampled_from([2, 2, 3, 4, 4, 5, 6, 8])),
            "priv": draw(st.sampled_from(["mmap", "mmap", "dlopen"])),
            "simcomp": draw(st.booleans()),
            "steps": draw(st.lists(step, min_size=1, max_size=maxsteps))}


class C36(core.Prop):
    id = "C36"
    ready = True
    drivers = ["c36_prog", "c36_driver"]
    sizes = {"quick": 300, "thorough": 8000}
    max_workers = 6
    technique = ("property-based testing (Hypothesis): generated scripts for a multi-object MPI program run through the real smpi_main() path "
                 "with privatization; per-rank model of every global")
    rule = ("A case = 2..8 ranks, smpi/privatization in {mmap, dlopen}, smpi/simulate-computation on/off and a script of <= 40 steps "
            "executed by every rank of drivers/c36_prog (three translation units, 24 observed globals: initialised and zero-initialised, "
            "file statics, function-local statics, class statics, anonymous-namespace variables, a global object with a constructor, a "
            "pointer to another global, doubles, chars, shorts, first/middle/last elements of a 1.2 MB .bss array and of 4 kB and 280 kB .data arrays): "
            "W var mask val (the ranks of the mask write val*64+rank), C (every rank prints all its variables), and calls that switch "
            "ranks: Barrier, Allreduce, ring Sendrecv, ring Sendrecv / Isend+Irecv+Waitall whose buffers ARE global arrays, Bcast INTO a "
            "global, smpi_execute_flops and usleep with rank-dependent amounts, a blocking token chain, MPI_Test loops.  A final C is "
            "appended.  Oracle: per-rank model: every value read is the last value that very rank wrote (initial value otherwise); "
            "data received in a global buffer is the left neighbour's, the send buffer is intact.  Non-trivial: >= 2 ranks write the same "
            "variable between two reads, with a rank-switching call between the writes and the read.  Distinct = distinct canonical JSON.")
    assumptions = ["globals holding heap pointers (std::string, std::vector...) are out of the domain: the heap is not privatized by mmap",
                   "thread_local variables and read-only data are not observed"]

    def strategy(self, tier):
        return cases(40 if tier == "quick" else 80)

    def fixed_cases(self, tier):
        res = []
        for priv in ("mmap", "dlopen"):
            steps = []
            for v in range(len(VARS)):
                steps.append(["W", v, 255, 100 + v])
            steps += [["B"], ["C"], ["G"], ["X"], ["O", 1], ["P"], ["C"]]
            res.append({"np": 4, "priv": priv, "simcomp": False, "steps": steps})
        return res

    def check(self, case):
        oc = core.Outcome()
        np_ = case["np"]
        steps = [list(s) for s in case["steps"]] + [["C"]]
        script = "\n".join(" ".join(str(x) for x in s) for s in steps) + "\n"
        tmpdir = os.environ.get("VF_TMP") or core.tmpdir()
        req = {"prog": build.drv("c36_prog"), "platform": "/verif/drivers/c36_platform.xml", "np": np_, "priv": case["priv"],
               "script": script, "tmpdir": tmpdir, "cfg": ["smpi/simulate-computation:%s" % ("yes" if case.get("simcomp") else "no")]}
        r = core.serve("c36_driver", req, cpu=60, wall=600)
        if r.wall_exceeded:
            raise core.Inconclusive()
        # ---- model
        val = [[init for _, init, _ in VARS] for _ in range(np_)]
        expectV = {}
        expectG = {}
        written = {}            # var -> set of ranks that wrote it since the last read
        switched = {}           # var -> a rank-switching call happened after a write
        nontrivial = False
        labels = {"priv:" + case["priv"], "np=%d" % np_, "simcomp" if case.get("simcomp") else "no-simcomp"}
        for i, s in enumerate(steps):
            op = s[0]
            if op == "W":
                _, var, mask, v = s
                for rk in range(np_):
                    if (mask >> rk) & 1:
                        val[rk][var] = conv(v * 64 + rk, VARS[var][2])
                        written.setdefault(var, set()).add(rk)
                        switched[var] = False
            elif op == "C":
                for rk in range(np_):
                    expectV[(rk, i)] = list(val[rk])
                if any(len(w) >= 2 and switched.get(var) for var, w in written.items()):
                    nontrivial = True
                written = {}
            else:
                for var in written:
                    switched[var] = True
                labels.add("op:" + op)
                if op in ("G", "X"):
                    for rk in range(np_):
                        left = (rk + np_ - 1) % np_
                        expectG[(rk, i)] = [i * 1000 + left * 64, i * 1000 + left * 64 + NBUF - 1, left, i * 1000 + rk * 64 + 1]
                elif op == "O":
                    root = s[1] % np_
                    for rk in range(np_):
                        val[rk][BCAST_VAR] = 1000 * i + root
        oc.labels = sorted(labels)
        oc.nontrivial = nontrivial
        # ---- observations
        gotV, gotG, done, errs, end = {}, {}, set(), [], None
        for line in r.out.splitlines():
            f = line.split()
            if not f:
                continue
            try:
                if f[0] == "V":
                    gotV[(int(f[1]), int(f[2]))] = [int(x) for x in f[3:]]
                elif f[0] == "G":
                    gotG[(int(f[1]), int(f[2]))] = [int(x) for x in f[3:]]
                elif f[0] == "D":
                    done.add(int(f[1]))
                elif f[0] == "E":
                    errs.append(line)
                elif line.startswith('{"k":"end"'):
                    end = line
            except ValueError:
                pass
        if r.rc != 0 or end is None or len(done) != np_:
            if r.rc == 64:
                raise RuntimeError("c36_driver rejected the case: " + r.err[-800:])
            sig = "cpu-exceeded" if r.cpu_exceeded else ("crash:signal-%d" % -r.rc if r.rc < 0 else "run-failed")
            if "eadlock" in r.err:
                sig = "deadlock"
            oc.bad("%s:%s" % (sig, case["priv"]), "smpi_main ended with rc=%s, %d/%d ranks done; stderr tail: %s" % (r.rc, len(done), np_, r.err[-1500:]))
            return oc
        for e in errs:
            oc.bad("payload:" + e.split()[3], "wrong data in a heap/stack-buffer communication: %s" % e)
        for (rk, i), want in sorted(expectV.items()):
            got = gotV.get((rk, i))
            if got is None:
                oc.bad("not-executed", "rank %d did not print its variables at step %d" % (rk, i))
                return oc
            for var, (g, w) in enumerate(zip(got, want)):
                if g != w:
                    others = [r2 for r2 in range(np_) if r2 != rk and expectV[(r2, i)][var] == g]
                    oc.bad("global-not-private:%s:%s" % (case["priv"], VARS[var][0]),
                           "privatization %s, %d ranks: at step %d rank %d reads %s = %d, the last value it wrote is %d%s"
                           % (case["priv"], np_, i, rk, VARS[var][0], g, w,
                              " (that is what rank %s wrote)" % others if others else ""))
                    break
            if oc.violations:
                break
        for (rk, i), want in sorted(expectG.items()):
            got = gotG.get((rk, i))
            if got is None:
                oc.bad("not-executed", "rank %d did not print the result of step %d" % (rk, i))
                return oc
            if got != want:
                oc.bad("global-buffer:%s:%s" % (case["priv"], steps[i][0]),
                       "privatization %s, %d ranks, step %d (%s): rank %d received [first, last, status source] = %s and its send buffer "
                       "holds %d; expected %s from its left neighbour and %d" % (case["priv"], np_, i, "Sendrecv" if steps[i][0] == "G" else
                                                                                 "Isend/Irecv/Waitall", rk, got[:3], got[3], want[:3], want[3]))
                break
        return oc


PROP = C36()
