"""C36 Each rank has its own copy of global variables."""
import json
import os

from hypothesis import strategies as st

from .. import build, core

# variables of drivers/c36_prog.cpp + c36_vars_a.cpp + c36_vars_b.cpp: (name, initial value, C type)
VARS = [("a_init", 11, "int"), ("a_bss", 0, "int"), ("a_static_init", 13, "int"), ("a_static_bss", 0, "long"), ("a_dbl*2", 3, "double"),
        ("a_arr[0]", 21, "int"), ("a_arr[last]", 0, "int"), ("a_big_bss[0]", 0, "int"), ("a_big_bss[last]", 0, "int"),
        ("a_big_bss[middle]", 0, "int"),
        ("b_init", 17, "long"), ("b_bss", 0, "char"), ("b_static", 19, "short"), ("b_local()::v", 7, "int"), ("b_obj.x", 31, "int"),
        ("b_big_data[last]", 0, "int"), ("Counter::count", 41, "int"), ("(anonymous)::b_anon", 43, "int"), ("*b_ptr", 47, "int"),
        ("c36_bcast_var", 0, "long"),
        ("main_global", 53, "int"), ("main_local()::counter", 0, "int"), ("main_array[2]", 63, "long"), ("main_pair.d", 4, "double")]
BCAST_VAR = 19
NBUF = 64


def conv(v, ctype):
    if ctype == "char":
        return (v + 128) % 256 - 128
    if ctype == "short":
        return (v + 32768) % 65536 - 32768
    return v


# arrays of the programs: (name, element C type, element bytes, section); lengths depend on the size variant (C36_SCALE in c36_vars.hpp)
ARRS = [("a_arr", "int", 4, "data"), ("a_big_bss", "int", 4, "bss"), ("b_mid_bss", "int", 4, "bss"), ("b_fs()::fs_arr", "long", 8, "bss"),
        ("b_big_data", "int", 4, "data"), ("main_bss", "short", 2, "bss")]
SIZES = {"s": ("c36_prog_s", [1024, 1000, 300, 100, 1500, 700]), "m": ("c36_prog_m", [1024, 3000, 1500, 200, 1500, 700]),
         "l": ("c36_prog_l", [1024, 6000, 2500, 256, 3000, 700]), "xl": ("c36_prog", [1024, 300000, 5000, 2048, 70000, 700])}
ARR_INIT = {0: {0: 21, 1: 22, 2: 23}, 4: {0: 1, 1: 2, 2: 3}}


def alias(lens):
    """scalar ids that are elements of the arrays"""
    return {5: (0, 0), 6: (0, lens[0] - 1), 7: (1, 0), 8: (1, lens[1] - 1), 9: (1, lens[1] // 2), 15: (4, lens[4] - 1)}


def index(p, n, esize):
    """an element index of an array of n elements from an arbitrary integer: anywhere, the last ones, around a 4 kB boundary, the first ones"""
    k, x = p % 4, p // 4
    if k == 0:
        return x % n
    if k == 1:
        return n - 1 - x % 4
    if k == 2:
        per_page = 4096 // esize
        pages = max(1, (n - 1) // per_page)
        return max(0, min(n - 1, (x % pages + 1) * per_page + (x // pages) % 3 - 1))
    return x % min(n, 8)


BLOCKING = ["B", "A", "R", "G", "X", "P", "T"]

step = st.one_of(
    st.tuples(st.just("W"), st.integers(0, len(VARS) - 1), st.integers(1, 255), st.integers(0, 2000)),
    st.tuples(st.just("W"), st.sampled_from([1, 3, 7, 8, 9, 11, 13, 15, 18, 21]), st.integers(1, 255), st.integers(0, 2000)),
    st.tuples(st.just("a"), st.sampled_from([0, 1, 1, 1, 2, 2, 3, 4, 5]), st.integers(0, 4000000), st.integers(1, 255), st.integers(0, 2000)),
    st.tuples(st.just("a"), st.sampled_from([1, 1, 2, 3, 5]), st.integers(0, 4000000), st.integers(1, 255), st.integers(0, 2000)),
    # (the end of the big .bss arrays and their 4 kB boundaries)
    st.tuples(st.just("a"), st.sampled_from([1, 1, 2]), st.integers(0, 100000).map(lambda x: 4 * x + 1 + x % 2), st.integers(1, 255), st.integers(0, 2000)),
    st.tuples(st.just("C")),
    st.tuples(st.sampled_from(BLOCKING)),
    st.tuples(st.sampled_from(BLOCKING)),
    st.tuples(st.just("O"), st.integers(0, 7)),
    st.tuples(st.just("E"), st.sampled_from([1000, 100000, 3000000])),
    st.tuples(st.just("S"), st.sampled_from([1, 50, 2000])),
).map(list)


@st.composite
def cases(draw, maxsteps):
    return {"np": draw(st.sampled_from([2, 2, 3, 4, 4, 5, 6, 8])),
            "priv": draw(st.sampled_from(["mmap", "mmap", "mmap", "dlopen"])),
            "size": draw(st.sampled_from(["s", "m", "l", "xl"])),
            "launch": draw(st.sampled_from(["fresh", "fresh", "fresh-noaslr", "server", "server", "server-noaslr"])),
            "simcomp": draw(st.booleans()),
            "steps": draw(st.lists(step, min_size=1, max_size=maxsteps))}


class C36(core.Prop):
    id = "C36"
    ready = True
    drivers = ["c36_prog", "c36_prog_s", "c36_prog_m", "c36_prog_l", "c36_driver"]
    sizes = {"quick": 400, "thorough": 8000}
    max_workers = 6
    technique = ("property-based testing (Hypothesis): generated scripts for multi-object MPI programs run through the real smpi_main() path "
                 "with privatization; per-rank model of every global and of every touched array element")
    rule = ("A case = 2..8 ranks, smpi/privatization in {mmap, dlopen}, one of four builds of drivers/c36_prog (three translation units; "
            ".bss of ~7 kB, ~21 kB, ~37 kB or 1.2 MB, i.e. spilling more or less far past the file-backed pages of the data segment), a launch mode (fresh process as smpirun does, or forked child of the fork "
            "server, each with ASLR on or off through `setarch -R`: it decides where the loader maps the program), smpi/simulate-computation on/off and a script of <= 40 steps executed "
            "by every rank.  Observed: 24 scalars (initialised and zero-initialised, file statics, function-local statics, class statics, "
            "anonymous-namespace variables, a global object with a constructor, a pointer to another global, doubles, chars, shorts) and "
            "ANY element of 6 arrays (.data int arrays of 4 kB and 6..280 kB, .bss int arrays, a static .bss array of the second object, a "
            "function-static long array, a short array of the main object): `a arr index mask val` writes val*64+rank on the ranks of the "
            "mask at an index drawn anywhere / at the end / around a 4 kB boundary / at the start; W var mask val for the scalars; C = every "
            "rank prints all scalars and every array element touched so far; and calls that switch ranks: Barrier, Allreduce, ring "
            "Sendrecv, ring Sendrecv / Isend+Irecv+Waitall whose buffers ARE global arrays, Bcast INTO a global, smpi_execute_flops and "
            "usleep with rank-dependent amounts, a blocking token chain, MPI_Test loops.  A final C is appended.  Oracle: per-rank model "
            "(independent of where the loader puts the program): every value read is the last value that very rank wrote (initial value "
            "otherwise); data received in a global buffer is the left neighbour's, the send buffer is intact.  Non-trivial: >= 2 ranks "
            "write the same variable or element between two reads, with a rank-switching call between the writes and the read.  "
            "Distinct = distinct canonical JSON.")
    assumptions = ["globals holding heap pointers (std::string, std::vector...) are out of the domain: the heap is not privatized by mmap",
                   "thread_local variables and read-only data are not observed"]

    def strategy(self, tier):
        return cases(40 if tier == "quick" else 80)

    def fixed_cases(self, tier):
        if os.environ.get("VF_C36_NOFIXED"):       # sensitivity measurements of the generated part alone
            return []
        res = []
        for priv in ("mmap", "dlopen"):
            for size in ("s", "m", "l", "xl"):
                for launch in ("fresh", "fresh-noaslr", "server"):
                    if priv == "dlopen" and launch != "fresh":
                        continue
                    steps = []
                    for v in range(len(VARS)):
                        steps.append(["W", v, 255, 100 + v])
                    for arr in range(len(ARRS)):
                        for p_ in (1, 5, 2, 6, 14, 0, 400):        # last, last-1, page boundaries, first, somewhere
                            steps.append(["a", arr, p_, 255, 300 + arr])
                    steps += [["B"], ["C"], ["G"], ["X"], ["O", 1], ["P"], ["C"]]
                    res.append({"np": 4, "priv": priv, "size": size, "launch": launch, "simcomp": False, "steps": steps})
        return res

    def check(self, case):
        oc = core.Outcome()
        np_ = case["np"]
        size = case.get("size", "xl")
        prog, lens = SIZES[size]
        al = alias(lens)
        # ---- the script: array indices resolved, every check followed by the read of every array element touched so far
        steps = []
        touched = []
        for s_ in [list(s) for s in case["steps"]] + [["C"]]:
            if s_[0] == "a":
                arr = s_[1] % len(ARRS)
                idx = index(s_[2], lens[arr], ARRS[arr][2])
                steps.append(["a", arr, idx, s_[3], s_[4]])
                if (arr, idx) not in touched:
                    touched.append((arr, idx))
            elif s_[0] == "C":
                steps.append(["C"])
                for arr, idx in touched[-24:]:
                    steps.append(["q", arr, idx])
            else:
                steps.append(s_)
        script = "\n".join(" ".join(str(x) for x in s_) for s_ in steps) + "\n"
        tmpdir = os.environ.get("VF_TMP") or core.tmpdir()
        req = {"prog": build.drv(prog), "platform": "/verif/drivers/c36_platform.xml", "np": np_, "priv": case["priv"],
               "script": script, "tmpdir": tmpdir, "cfg": ["smpi/simulate-computation:%s" % ("yes" if case.get("simcomp") else "no")]}
        # how the simulation process is created matters for WHERE the loader puts the program (mmap privatization has to find its
        # data segment in the memory map): a forked child of the fork server, or a fresh process (what smpirun does), ASLR on or off
        launch = case.get("launch", "server")
        noaslr = ["setarch", os.uname().machine, "-R"] if launch.endswith("noaslr") else []
        text = json.dumps(req, separators=(",", ":"))
        if launch.startswith("fresh"):
            r = core.run(noaslr + [build.drv("c36_driver"), "-"], stdin=text, cpu=60, wall=600, env=build.runtime_env())
        elif noaslr:
            srv = core.server("c36_driver:noaslr", cmd=noaslr + [build.drv("c36_driver")], env=build.runtime_env())
            r = srv.request(text, cpu=60, wall=600)
        else:
            r = core.serve("c36_driver", req, cpu=60, wall=600)
        if r.wall_exceeded:
            raise core.Inconclusive()
        # ---- model: scalars + array elements (some scalars ARE array elements)
        val = [[init for _, init, _ in VARS] for _ in range(np_)]
        arrv = [dict() for _ in range(np_)]

        def aget(rk, arr, idx):
            return arrv[rk].get((arr, idx), ARR_INIT.get(arr, {}).get(idx, 0))

        expectV, expectQ, expectG = {}, {}, {}
        written = {}            # variable or element -> set of ranks that wrote it since the last read
        switched = {}
        nontrivial = False
        labels = {case["priv"], "size:" + size, "np=%d" % np_, "simcomp" if case.get("simcomp") else "no-simcomp",
                  "launch:" + case.get("launch", "server")}
        if size != "s":
            labels.add("bss-large")
        for i, s_ in enumerate(steps):
            op = s_[0]
            if op == "W":
                _, var, mask, v = s_
                for rk in range(np_):
                    if (mask >> rk) & 1:
                        x = conv(v * 64 + rk, VARS[var][2])
                        if var in al:
                            arrv[rk][al[var]] = x
                        else:
                            val[rk][var] = x
                        written.setdefault(("v", var), set()).add(rk)
                        switched[("v", var)] = False
            elif op == "a":
                _, arr, idx, mask, v = s_
                name, ctype, esize, section = ARRS[arr]
                for rk in range(np_):
                    if (mask >> rk) & 1:
                        arrv[rk][(arr, idx)] = conv(v * 64 + rk, ctype)
                        written.setdefault((arr, idx), set()).add(rk)
                        switched[(arr, idx)] = False
                labels.add("array:" + section)
                if section == "bss" and idx * esize >= 4096:
                    labels.add("bss-beyond-first-page")
                if idx == lens[arr] - 1:
                    labels.add("array-last-element")
            elif op == "C":
                for rk in range(np_):
                    expectV[(rk, i)] = [aget(rk, *al[v_]) if v_ in al else val[rk][v_] for v_ in range(len(VARS))]
                if any(len(w) >= 2 and switched.get(key) for key, w in written.items()):
                    nontrivial = True
                    if any(len(w) >= 2 and switched.get(key) and key[0] != "v" and ARRS[key[0]][3] == "bss" and key[1] * ARRS[key[0]][2] >= 4096
                           for key, w in written.items()):
                        labels.add("bss-beyond-first-page:contended")
                written = {}
            elif op == "q":
                for rk in range(np_):
                    expectQ[(rk, i)] = (s_[1], s_[2], aget(rk, s_[1], s_[2]))
            else:
                for key in written:
                    switched[key] = True
                labels.add("op:" + op)
                if op in ("G", "X"):
                    for rk in range(np_):
                        left = (rk + np_ - 1) % np_
                        expectG[(rk, i)] = [i * 1000 + left * 64, i * 1000 + left * 64 + NBUF - 1, left, i * 1000 + rk * 64 + 1]
                elif op == "O":
                    root = s_[1] % np_
                    for rk in range(np_):
                        val[rk][BCAST_VAR] = 1000 * i + root
        oc.labels = sorted(labels)
        oc.nontrivial = nontrivial
        # ---- observations
        gotV, gotG, gotQ, done, errs, end = {}, {}, {}, set(), [], None
        for line in r.out.splitlines():
            f = line.split()
            if not f:
                continue
            try:
                if f[0] == "V":
                    gotV[(int(f[1]), int(f[2]))] = [int(x) for x in f[3:]]
                elif f[0] == "G":
                    gotG[(int(f[1]), int(f[2]))] = [int(x) for x in f[3:]]
                elif f[0] == "Q":
                    gotQ[(int(f[1]), int(f[2]))] = (int(f[3]), int(f[4]), int(f[5]))
                elif f[0] == "D":
                    done.add(int(f[1]))
                elif f[0] == "E":
                    errs.append(line)
                elif line.startswith('{"k":"end"'):
                    end = line
            except ValueError:
                pass
        where = "privatization %s, %d ranks, program %s (%s), ASLR %s" % (case["priv"], np_, prog, size, "off" if case.get("launch", "").endswith("noaslr") else "on") + ", " + (
            "fresh process" if case.get("launch", "").startswith("fresh") else "fork-server child")
        if r.rc != 0 or end is None or len(done) != np_:
            if r.rc == 64:
                raise RuntimeError("c36_driver rejected the case: " + r.err[-800:])
            sig = "cpu-exceeded" if r.cpu_exceeded else ("crash:signal-%d" % -r.rc if r.rc < 0 else "run-failed")
            if "eadlock" in r.err:
                sig = "deadlock"
            oc.bad("%s:%s" % (sig, case["priv"]), "%s: smpi_main ended with rc=%s, %d/%d ranks done; stderr tail: %s" % (where, r.rc, len(done), np_, r.err[-1500:]))
            return oc
        for e in errs:
            oc.bad("payload:" + e.split()[3], "wrong data in a heap/stack-buffer communication: %s" % e)
        for (rk, i), want in sorted(expectV.items()):
            got = gotV.get((rk, i))
            if got is None:
                oc.bad("not-executed", "rank %d did not print its variables at step %d" % (rk, i))
                return oc
            for var, (g, w) in enumerate(zip(got, want)):
                if g != w:
                    others = [r2 for r2 in range(np_) if r2 != rk and expectV[(r2, i)][var] == g]
                    oc.bad("global-not-private:%s:%s" % (case["priv"], VARS[var][0]),
                           "%s: at step %d rank %d reads %s = %d, the last value it wrote is %d%s"
                           % (where, i, rk, VARS[var][0], g, w, " (that is what rank %s wrote)" % others if others else ""))
                    break
            if oc.violations:
                return oc
        for (rk, i), (arr, idx, w) in sorted(expectQ.items()):
            got = gotQ.get((rk, i))
            if got is None or got[:2] != (arr, idx):
                oc.bad("not-executed", "rank %d did not print element %d of array %d at step %d (%s)" % (rk, idx, arr, i, got))
                return oc
            if got[2] != w:
                name, ctype, esize, section = ARRS[arr]
                others = [r2 for r2 in range(np_) if r2 != rk and expectQ[(r2, i)][2] == got[2]]
                oc.bad("global-not-private:%s:%s%s" % (case["priv"], name, ":beyond-4k" if idx * esize >= 4096 else ""),
                       "%s: at step %d rank %d reads %s[%d] = %d (%s array of %d %ss, byte offset %d), the last value it wrote is %d%s"
                       % (where, i, rk, name, idx, got[2], section, lens[arr], ctype, idx * esize, w,
                          " (that is what rank %s wrote)" % others if others else ""))
                return oc
        for (rk, i), want in sorted(expectG.items()):
            got = gotG.get((rk, i))
            if got is None:
                oc.bad("not-executed", "rank %d did not print the result of step %d" % (rk, i))
                return oc
            if got != want:
                oc.bad("global-buffer:%s:%s" % (case["priv"], steps[i][0]),
                       "%s, step %d (%s): rank %d received [first, last, status source] = %s and its send buffer "
                       "holds %d; expected %s from its left neighbour and %d" % (where, i, "Sendrecv" if steps[i][0] == "G" else
                                                                                 "Isend/Irecv/Waitall", rk, got[:3], got[3], want[:3], want[3]))
                break
        return oc


PROP = C36()
