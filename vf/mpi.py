"""Shared helpers for the SMPI properties (C28-C37): running a case on the `mpi_interp` driver and reading its output.

See /verif/notes/MPI_INFRA.md for the case format and the list of operations.

    res = mpi.run({"np": 4, "prog": [{"op": "barrier"}, ...]})
    res.ok            every rank printed its "done" line and the simulation ended
    res.crash         None or {"sig":..,"r":..,"i":..,"op":..}  (a fatal signal inside the MPI program)
    res.get(r, i)     the record printed by rank r for prog[i] (None when it did not execute it)
    res.rank(r)       the records of rank r, in program order
    mpi.K             constants of the MPI implementation (MPI_PROC_NULL, MPI_UNDEFINED, ...), mpi.E error codes
"""
import json

from . import core

DRIVER = "mpi_interp"

_CONST = None


class Consts(dict):
    def __getattr__(self, k):
        try:
            return self[k]
        except KeyError:
            raise AttributeError(k)


def consts():
    """(K, E): constants and error codes, asked once per process to the driver (`hello`)."""
    global _CONST
    if _CONST is None:
        r = core.serve(DRIVER, {"np": 1, "hello": True, "prog": []}, cpu=20, wall=300)
        for rec in r.json_lines():
            if rec.get("k") == "hello":
                _CONST = (Consts({k[4:]: v for k, v in rec["const"].items()}),
                          Consts({k[4:] if k.startswith("MPI_") else k: v for k, v in rec["err"].items()}))
                break
        else:
            raise core.Inconclusive("mpi_interp did not answer hello: rc=%s err=%s" % (r.rc, r.err[-500:]))
    return _CONST


class Result:
    def __init__(self, rr, case):
        self.rr = rr
        self.case = case
        self.recs = {}
        self.done = set()
        self.crash = None
        self.end = None
        self.order = []
        for rec in rr.json_lines():
            k = rec.get("k")
            if k == "done":
                self.done.add(rec["r"])
            elif k == "crash":
                self.crash = rec
            elif k == "end":
                self.end = rec
            elif k == "hello":
                pass
            elif "i" in rec:
                self.recs[(rec["r"], rec["i"])] = rec
                self.order.append((rec["r"], rec["i"]))
        self.np = case["np"]
        self.ok = (rr.rc == 0 and self.end is not None and len(self.done) == self.np)

    def get(self, r, i):
        return self.recs.get((r, i))

    def rank(self, r):
        return [self.recs[k] for k in sorted(k for k in self.recs if k[0] == r)]

    def failure(self):
        """(signature, message) describing why the run did not complete, or None."""
        rr = self.rr
        if self.ok:
            return None
        if rr.rc == 64:
            return ("bad-case", "mpi_interp rejected the case (generator bug): " + rr.err[-800:])
        if self.crash is not None:
            c = self.crash
            return ("crash:%s" % c["op"], "the MPI program died of signal %d while rank %d executed op #%d (%s); stderr tail: %s"
                    % (c["sig"], c["r"], c["i"], c["op"], rr.err[-600:]))
        if rr.cpu_exceeded:
            return ("cpu-exceeded", "CPU budget exceeded; stderr tail: " + rr.err[-600:])
        if "eadlock" in rr.err:
            return ("deadlock", "the simulation ended in a deadlock; stderr tail: " + rr.err[-1200:])
        return ("driver-failed", "mpi_interp ended with rc=%s, %d/%d ranks done; stderr tail: %s"
                % (rr.rc, len(self.done), self.np, rr.err[-1200:]))


def needs_fresh(case):
    """Cases with their own platform or a non-smpi configuration item cannot run on the engine that the default server builds
    before forking (see drivers/mpi_interp.cpp): they go to a second server that builds everything per case (slower)."""
    return bool(case.get("platform")) or case.get("nhosts", 1) > 128 or bool(case.get("fresh")) or \
        any(not c.startswith("smpi/") for c in case.get("cfg", []))


def run(case, cpu=20, wall=300):
    text = json.dumps(case, separators=(",", ":"))
    if needs_fresh(case):
        from . import build
        srv = core.server(DRIVER + ":fresh", cmd=[build.drv(DRIVER)], env=build.runtime_env({"MPI_INTERP_FRESH": "1"}))
    else:
        srv = core.server(DRIVER)
    rr = srv.request(text, cpu=cpu, wall=wall)
    if rr.wall_exceeded:
        raise core.Inconclusive()
    return Result(rr, case)


def hexs(b):
    return bytes(b).hex()
