"""Type-map calculator for MPI derived datatypes (MPI-3.1 section 4.1): reference model of C30, reusable by the other MPI checks.

A datatype *tree* (JSON):
    ["b", NAME]                                           predefined type (see BASIC)
    ["contiguous", count, T]
    ["vector", count, blocklen, stride, T]                stride in elements of T
    ["hvector", count, blocklen, stride_bytes, T]
    ["indexed", [blocklens], [disps], T]                  disps in elements of T
    ["hindexed", [blocklens], [disps_bytes], T]
    ["indexed_block", blocklen, [disps], T]
    ["hindexed_block", blocklen, [disps_bytes], T]
    ["struct", [blocklens], [disps_bytes], [T...]]
    ["resized", lb, extent, T]
    ["subarray", [sizes], [subsizes], [starts], "C"|"F", T]
    ["dup", T]

TypeMap: the ordered list of (displacement, size, alignment) of the basic elements, plus the positions of the sticky lower/upper
bound markers that MPI_Type_create_resized (and subarray) leave.  size / lb / ub / extent follow equations 4.1-4.3 of the standard,
including the alignment padding epsilon (only relevant for struct here: generators keep byte displacements multiples of the alignment).
"""

BASIC = {"CHAR": 1, "SIGNED_CHAR": 1, "UNSIGNED_CHAR": 1, "BYTE": 1, "SHORT": 2, "UNSIGNED_SHORT": 2, "INT": 4, "UNSIGNED": 4, "FLOAT": 4,
         "LONG": 8, "LONG_LONG": 8, "UNSIGNED_LONG": 8, "DOUBLE": 8, "LONG_DOUBLE": 16, "INT8_T": 1, "INT16_T": 2, "INT32_T": 4,
         "INT64_T": 8, "UINT8_T": 1, "UINT16_T": 2, "UINT32_T": 4, "UINT64_T": 8}


class TypeMap:
    def __init__(self, entries=(), lbm=(), ubm=()):
        self.entries = list(entries)      # (disp, size, align) in type-map order
        self.lbm = list(lbm)
        self.ubm = list(ubm)

    @property
    def size(self):
        return sum(e[1] for e in self.entries)

    @property
    def align(self):
        return max([e[2] for e in self.entries] + [1])

    @property
    def defined(self):
        """lb/ub are defined (a type with neither data nor markers has no meaningful bounds)"""
        return bool(self.entries or (self.lbm and self.ubm))

    @property
    def lb(self):
        if self.lbm:
            return min(self.lbm)
        return min(e[0] for e in self.entries) if self.entries else 0

    @property
    def data_ub(self):
        return max(e[0] + e[1] for e in self.entries) if self.entries else 0

    @property
    def epsilon(self):
        if self.ubm or not self.entries:
            return 0
        ext = self.data_ub - self.lb
        a = self.align
        return (-ext) % a

    @property
    def ub(self):
        if self.ubm:
            return max(self.ubm)
        return self.data_ub + self.epsilon

    @property
    def extent(self):
        return self.ub - self.lb

    @property
    def true_lb(self):
        return min(e[0] for e in self.entries) if self.entries else 0

    @property
    def true_extent(self):
        return self.data_ub - self.true_lb if self.entries else 0

    def shifted(self, d):
        return TypeMap([(x + d, s, a) for x, s, a in self.entries], [x + d for x in self.lbm], [x + d for x in self.ubm])

    def __add__(self, o):
        return TypeMap(self.entries + o.entries, self.lbm + o.lbm, self.ubm + o.ubm)

    def repeat(self, n, base=0):
        """n consecutive copies (as in a block of n elements), the first at displacement base"""
        res = TypeMap()
        ext = self.extent
        for j in range(n):
            res = res + self.shifted(base + j * ext)
        return res

    # ---- data selection
    def byte_offsets(self, count=1):
        """offsets of the bytes selected by `count` consecutive elements, in type-map (= wire) order"""
        res = []
        ext = self.extent
        for i in range(count):
            for d, s, _ in self.entries:
                res.extend(range(d + i * ext, d + i * ext + s))
        return res

    def span(self, count=1):
        """number of bytes of a buffer that holds count elements (lowest offset assumed >= 0)"""
        if not self.entries or count == 0:
            return 0
        return max(self.data_ub + (count - 1) * self.extent, self.data_ub)

    def overlapping(self, count=1):
        offs = self.byte_offsets(count)
        return len(set(offs)) != len(offs)

    def min_offset(self, count=1):
        offs = self.byte_offsets(count)
        return min(offs) if offs else 0


def typemap(tree):
    k = tree[0]
    if k == "b":
        return TypeMap([(0, BASIC[tree[1]], BASIC[tree[1]])])
    if k == "contiguous":
        return typemap(tree[2]).repeat(tree[1])
    if k in ("vector", "hvector"):
        count, bl, stride, old = tree[1:5]
        o = typemap(old)
        step = stride * o.extent if k == "vector" else stride
        res = TypeMap()
        for i in range(count):
            res = res + o.repeat(bl, i * step)
        return res
    if k in ("indexed", "hindexed", "indexed_block", "hindexed_block"):
        if k.endswith("_block"):
            bls = [tree[1]] * len(tree[2])
            disps, old = tree[2], tree[3]
        else:
            bls, disps, old = tree[1:4]
        o = typemap(old)
        res = TypeMap()
        for bl, d in zip(bls, disps):
            res = res + o.repeat(bl, d * o.extent if k.startswith("indexed") else d)
        return res
    if k == "struct":
        res = TypeMap()
        for bl, d, old in zip(tree[1], tree[2], tree[3]):
            res = res + typemap(old).repeat(bl, d)
        return res
    if k == "resized":
        lb, ext, old = tree[1:4]
        o = typemap(old)
        return TypeMap(o.entries, [lb], [lb + ext])
    if k == "dup":
        return typemap(tree[1])
    if k == "subarray":
        sizes, subsizes, starts, order, old = tree[1:6]
        o = typemap(old)
        nd = len(sizes)
        ex = o.extent
        # linear strides of every dimension in the full array
        strides = [0] * nd
        acc = 1
        dims = range(nd - 1, -1, -1) if order == "C" else range(nd)
        for d in dims:
            strides[d] = acc
            acc *= sizes[d]
        total = acc
        res = TypeMap()
        # elements are listed with the fastest-varying dimension of the chosen order innermost
        idx = [0] * nd
        n_el = 1
        for s in subsizes:
            n_el *= s
        fast = list(dims)          # fastest first
        for _ in range(n_el):
            lin = sum((starts[d] + idx[d]) * strides[d] for d in range(nd))
            res = res + TypeMap(o.entries).shifted(lin * ex)
            for d in fast:
                idx[d] += 1
                if idx[d] < subsizes[d]:
                    break
                idx[d] = 0
        return TypeMap(res.entries, [0], [total * ex])
    raise ValueError(k)


def depth(tree):
    k = tree[0]
    if k == "b":
        return 0
    if k == "struct":
        return 1 + max([depth(t) for t in tree[3]] + [0])
    return 1 + depth(tree[-1])


def kinds(tree):
    k = tree[0]
    if k == "b":
        return []
    if k == "struct":
        return [k] + [x for t in tree[3] for x in kinds(t)]
    return [k] + kinds(tree[-1])


def has_markers_inside(tree):
    return "resized" in kinds(tree) or "subarray" in kinds(tree)


def build_ops(tree, name, counter=None):
    """-> list of (mpi_interp operation, sub-tree) creating `tree` under the name `name`, innermost first (intermediate types get
    the names name+'.k')"""
    ops = []
    counter = counter or [0]

    def rec(t, out=None):
        if t[0] == "b":
            return t[1]
        if out is None:
            counter[0] += 1
            out = "%s.%d" % (name, counter[0])
        k = t[0]
        op = {"op": "type_create", "kind": k, "out": out}
        if k == "contiguous":
            op.update(count=t[1], old=rec(t[2]))
        elif k in ("vector", "hvector"):
            op.update(count=t[1], blocklen=t[2], stride=t[3], old=rec(t[4]))
        elif k in ("indexed", "hindexed"):
            op.update(blocklens=t[1], disps=t[2], old=rec(t[3]))
        elif k in ("indexed_block", "hindexed_block"):
            op.update(blocklen=t[1], disps=t[2], old=rec(t[3]))
        elif k == "struct":
            op.update(blocklens=t[1], disps=t[2], olds=[rec(x) for x in t[3]])
        elif k == "resized":
            op.update(lb=t[1], extent=t[2], old=rec(t[3]))
        elif k == "dup":
            op.update(old=rec(t[1]))
        elif k == "subarray":
            op.update(sizes=t[1], subsizes=t[2], starts=t[3], order=t[4], old=rec(t[5]))
        else:
            raise ValueError(k)
        ops.append((op, t))
        return out
    rec(tree, name)
    return ops
