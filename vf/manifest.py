"""Generates /verif/MANIFEST.json from the property modules:  python3-vt -m vf.manifest"""
import json
import os

from . import main

PENDING = "check not completed yet (see DESIGN.md 9.3/9.4); not claimed rather than claimed with a weak check"
NOT_APPLICABLE = {
}


def build_manifest():
    props = {}
    for l in open("/verif/properties.jsonl"):
        l = l.strip()
        if l:
            d = json.loads(l)
            props[d["id"]] = d
    checks = []
    na = []
    avail = main.available_ids()
    for pid in sorted(props):
        p = None
        if pid in avail and pid not in NOT_APPLICABLE:
            try:
                p = main.load_prop(pid)
            except Exception as e:
                print("cannot load %s: %r" % (pid, e))
        if p is not None and p.ready:
            checks.append({
                "property_id": pid,
                "quick_cmd": "./check %s --tier quick" % pid,
                "thorough_cmd": "./check %s --tier thorough" % pid,
                "evidence_file": "/verif/evidence/%s.json" % pid,
                "replay_cmd_template": "./check %s --replay {path}" % pid,
                "engine": p.engine,
                "level_claimed": {"category": p.level, "text": p.level_text or p.rule, "design_ref": p.design_ref or ("DESIGN.md section 4, " + pid)},
                "level_note": p.level_note or "; ".join(p.assumptions) or "the driver reports faithfully what the real code did; reference model written from the property statement",
                "technique": p.technique,
            })
        else:
            na.append({"property_id": pid, "reason": NOT_APPLICABLE.get(pid, PENDING)})
    m = {
        "version": 1,
        "setup_cmd": "./check --setup",
        "hooks": {
            "guard": "SIMGRID_VERIF",
            "enable": "the verification build (/verif/build/sg, made by ./check --setup and refreshed by every check) passes -DSIMGRID_VERIF in CMAKE_C_FLAGS/CMAKE_CXX_FLAGS; no source hook is needed so far: drivers read internals with -fno-access-control",
            "baseline_off_cmd": "cmake --build /repo/_build -j16 && ctest --test-dir /repo/_build -j8 --timeout 900",
            "source_commits": [],
            "add_only": True,
        },
        "engines": [
            {"name": "hypothesis", "path": "/verif/vf", "serves_properties": [c["property_id"] for c in checks],
             "kind_free_text": "Hypothesis 6.168 (python3-vt) generates and shrinks cases; C++ drivers under /verif/drivers built against /repo's working tree execute them on the real code; oracles/reference models in Python"},
        ],
        "checks": checks,
        "not_applicable": na,
        "notes": "All checks: ./check <ID> --tier quick|thorough (VERIF_SEED, VERIF_TIER honoured). Exit 0 = held on everything explored; 1 = VIOLATION line; 2 = INCONCLUSIVE (build failure / harness error), never a verdict.",
    }
    return m


if __name__ == "__main__":
    m = build_manifest()
    with open("/verif/MANIFEST.json", "w") as f:
        json.dump(m, f, indent=1)
    print("%d checks, %d not claimed" % (len(m["checks"]), len(m["not_applicable"])))
