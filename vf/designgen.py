"""Regenerates the tables of DESIGN.md section 10 (10.3 fixed / known, 10.4 seeded, 10.5 index) from the committed data:
/repo's git log, known_findings.json (+ known/*.json), seeded/*/meta.json, seeded/pinned_results.json and the property modules.

    PYTHONPATH=/verif python3-vt -m vf.designgen        (rewrites the text between the `<!-- gen:NAME -->` markers)
"""
import glob
import importlib
import json
import os
import re
import subprocess

from . import known

ROOT = os.path.dirname(os.path.dirname(os.path.abspath(__file__)))


def cut(s, n):
    s = " ".join(str(s).split()).replace("|", "/")
    return s if len(s) <= n else s[:n - 1].rstrip() + " ..."


def fixed_table():
    log = subprocess.run(["git", "-C", "/repo", "log", "--reverse", "--format=%h %s", "--abbrev=10"], capture_output=True, text=True).stdout
    commits = [l.split(" ", 1) for l in log.splitlines() if l.split(" ", 1)[1].startswith("fix:")]
    by = {}
    for e in known.load_all():
        if e["kind"] == "fixed" and e.get("commit"):
            by.setdefault(e["commit"][:10], set()).add(e["property"])
    rows = ["| commit | found by | what |", "|---|---|---|"]
    for sha, subj in commits:
        props = sorted(by.get(sha, []))
        rows.append("| %s | %s | %s |" % (sha, ", ".join(props) if props else "(see git log)", subj[len("fix:"):].strip()))
    return len(commits), "\n".join(rows)


def known_table():
    ents = [e for e in known.load_all() if e["kind"] == "known"]
    per = {}
    for e in ents:
        per.setdefault(e["property"], []).append(e)
    rows = ["| property | signature | what |", "|---|---|---|"]
    for pid in sorted(per):
        es = per[pid]
        if len(es) > 4:
            rows.append("| %s | %d entries | e.g. %s |" % (pid, len(es), cut(es[0]["what"], 200)))
        else:
            for e in es:
                rows.append("| %s | `%s` | %s |" % (pid, e["signature"], cut(e["what"], 230)))
    return len(ents), "\n".join(rows)


def seeded_rows():
    pinned = {}
    p = os.path.join(ROOT, "seeded", "pinned_results.json")
    if os.path.exists(p):
        pinned = json.load(open(p))
    res = []
    for d in sorted(glob.glob(os.path.join(ROOT, "seeded", "C*-s*")), key=lambda x: int(x.rsplit("-s", 1)[1])):
        name = os.path.basename(d)
        m = json.load(open(os.path.join(d, "meta.json")))
        c = m.get("coordinator") or {}
        res.append((name, m.get("property", name[:3]), m.get("needs", ""), c.get("verdict", "?"), c.get("what_was_run", ""),
                    pinned.get(name, "not run")))
    return res


def seeded_table(full):
    rows = ["| change | needs | verdict |" + (" pinned 104 tests with the patch |" if full else ""), "|---|---|---|" + ("---|" if full else "")]
    for name, pid, needs, verdict, what, pin in seeded_rows():
        rows.append("| %s | %s | %s |" % (name, cut(needs, 220), cut(verdict + (": " + what if full else ""), 400)) + (" %s |" % pin if full else ""))
    return "\n".join(rows)


def seeded_summary():
    rs = seeded_rows()
    at_once = sum(1 for r in rs if r[3] == "caught")
    after = sum(1 for r in rs if "after strengthening" in r[3])
    other = len(rs) - at_once - after
    return "%d seeded changes: %d caught at once, %d after the check was strengthened, %d otherwise (see the verdict column)." % (
        len(rs), at_once, after, other)


def index_table():
    rows = ["| id | deciding method (MANIFEST `technique`) | quick / thorough cases | notes |", "|---|---|---|---|"]
    for i in range(1, 51):
        pid = "C%02d" % i
        try:
            mod = importlib.import_module("vf.props." + pid.lower())
        except ImportError:
            rows.append("| %s | (no check) | | |" % pid)
            continue
        P = mod.PROP
        notes = [n for n in ("notes/%s.md" % pid, "notes/C04-C07.md" if pid in ("C04", "C05", "C06", "C07") else None,
                             "notes/C01-C02-C14.md" if pid in ("C01", "C02", "C14") else None,
                             "notes/C38-C41.md" if pid in ("C38", "C41") else None) if n and os.path.exists(os.path.join(ROOT, n))]
        rows.append("| %s%s | %s | %s / %s | %s |" % (pid, "" if getattr(P, "ready", False) else " (not claimed)", cut(P.technique, 230),
                                                      P.sizes.get("quick"), P.sizes.get("thorough"), ", ".join(notes)))
    return "\n".join(rows)


def main():
    path = os.path.join(ROOT, "DESIGN.md")
    text = open(path).read()
    nfix, ftab = fixed_table()
    nknown, ktab = known_table()
    parts = {"fixed-count": str(nfix), "fixed": ftab, "known-count": str(nknown), "known": ktab, "seeded": seeded_table(False),
             "seeded-summary": seeded_summary(), "index": index_table()}
    for name, body in parts.items():
        pat = re.compile(r"(<!-- gen:%s -->)(.*?)(<!-- /gen:%s -->)" % (name, name), re.S)
        if not pat.search(text):
            print("marker missing:", name)
            continue
        sep = "" if name.endswith("count") else "\n"
        text = pat.sub(lambda m: m.group(1) + sep + body + sep + m.group(3), text)
    open(path, "w").write(text)
    readme = os.path.join(ROOT, "seeded", "README.md")
    t = open(readme).read()
    pat = re.compile(r"(<!-- gen:seeded-full -->)(.*?)(<!-- /gen:seeded-full -->)", re.S)
    if pat.search(t):
        t = pat.sub(lambda m: m.group(1) + "\n" + seeded_table(True) + "\n" + m.group(3), t)
        open(readme, "w").write(t)
    print("fixed", nfix, "known", nknown, "seeded", len(seeded_rows()))


if __name__ == "__main__":
    main()
