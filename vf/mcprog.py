"""Small programs for the S4U interpreter that issue, under the model checker, one family of observable simcalls each, with
generated parameters (C43).  Only operations that the model checker supports in principle: no timeout on communications."""
from hypothesis import strategies as st

from . import s4u, syncgen

KINDS = ["mutex", "sem", "cond", "barrier", "mailbox", "comm-async", "comm-any", "mqueue", "actors", "iprobe", "random", "sync-mix"]


def _scenario(objects, actors, templates=None):
    sc = {"platform": s4u.sync_platform(1, cores=8), "objects": objects,
          "actors": [{"name": "a%d" % i, "host": "h0", "ops": ops} for i, ops in enumerate(actors)], "quiet": ["adv", "act"]}
    if templates:
        sc["templates"] = templates
    return sc


@st.composite
def comm_programs(draw, use_any):
    """asynchronous puts/gets on 1-3 mailboxes, finalised by wait / test / wait_any / test_any (+ wait of what is left)"""
    nact = draw(st.integers(2, 4))
    nmb = draw(st.integers(1, 3))
    nmsg = draw(st.integers(1, 5))
    ops = [[] for _ in range(nact)]
    handles = [[] for _ in range(nact)]
    nh = [0] * nact

    def newh(a):
        h = 100 * a + nh[a]
        nh[a] += 1
        handles[a].append(h)
        return h
    for _ in range(nmsg):
        s = draw(st.integers(0, nact - 1))
        r = draw(st.integers(0, nact - 1))
        mb = draw(st.integers(0, nmb - 1))
        size = draw(st.sampled_from([0, 1, 1024]))
        if draw(st.integers(0, 3)) == 0:
            ops[s].append(["put", mb, size, {}])
            ops[r].append(["get", mb, {}]) if draw(st.booleans()) else ops[r].append(["get_async", mb, newh(r), {}])
        else:
            ops[s].append(["put_async", mb, size, {}, newh(s)])
            if draw(st.integers(0, 3)) == 0:
                ops[r].append(["get", mb, {}])
            else:
                ops[r].append(["get_async", mb, newh(r), {}])
        if draw(st.integers(0, 4)) == 0:
            ops[draw(st.integers(0, nact - 1))].append(["sleep", draw(st.sampled_from([0.25, 1.0]))])
    for a in range(nact):
        hs = list(handles[a])
        while hs:
            how = draw(st.sampled_from(["wait", "test", "any", "tany"] if use_any else ["wait", "wait", "test"]))
            if how == "wait":
                ops[a].append(["wait", hs.pop(draw(st.integers(0, len(hs) - 1))), {}])
            elif how == "test":
                ops[a].append(["test", draw(st.sampled_from(hs))])
                if draw(st.booleans()):
                    ops[a].append(["wait", hs.pop(0), {}])
            elif how == "any":
                sub = draw(st.lists(st.sampled_from(hs), min_size=1, max_size=3, unique=True))
                ops[a].append(["wait_any", sub, {}])
                ops[a].append(["wait_all", sub, {}])
                hs = [h for h in hs if h not in sub]
            else:
                sub = draw(st.lists(st.sampled_from(hs), min_size=1, max_size=3, unique=True))
                ops[a].append(["test_any", sub])
                ops[a].append(["wait", hs.pop(0), {}])
    return _scenario({"mailbox": nmb}, ops)


@st.composite
def mq_programs(draw):
    nact = draw(st.integers(2, 3))
    nq = draw(st.integers(1, 2))
    ops = [[] for _ in range(nact)]
    nh = [0] * nact
    for _ in range(draw(st.integers(1, 4))):
        s = draw(st.integers(0, nact - 1))
        r = draw(st.integers(0, nact - 1))
        q = draw(st.integers(0, nq - 1))
        if draw(st.booleans()):
            ops[s].append(["mq_put", q, {}])
        else:
            h = 100 * s + nh[s]
            nh[s] += 1
            ops[s] += [["mq_put_async", q, h], ["wait", h, {}]]
        if draw(st.booleans()):
            ops[r].append(["mq_get", q, {}])
        else:
            h = 100 * r + nh[r]
            nh[r] += 1
            ops[r] += [["mq_get_async", q, h], ["wait", h, {}]]
    return _scenario({"mqueue": nq}, ops)


@st.composite
def actor_programs(draw):
    """actor creation (spawn), join, sleep, exit"""
    nact = draw(st.integers(1, 3))
    templates = [{"ops": [["sleep", draw(st.sampled_from([0.25, 0.5, 1.0]))]] + ([["exit"]] if draw(st.booleans()) else [])}
                 for _ in range(draw(st.integers(1, 2)))]
    ops = []
    for a in range(nact):
        l = []
        nsp = 0
        for _ in range(draw(st.integers(1, 5))):
            k = draw(st.sampled_from(["spawn", "spawn", "join_child", "join_peer", "sleep", "exit"]))
            if k == "spawn":
                l.append(["spawn", draw(st.integers(0, len(templates) - 1)), "h0"])
                nsp += 1
            elif k == "join_child" and nsp:
                l.append(["join", "a%d.%d" % (a, draw(st.integers(0, nsp - 1)))])
            elif k == "join_peer" and nact > 1:
                peer = draw(st.integers(0, nact - 1))
                if peer > a:       # joins only go "upwards": no cycle of joins
                    l.append(["join", "a%d" % peer])
            elif k == "sleep":
                l.append(["sleep", draw(st.sampled_from([0.0, 0.25, 2.0]))])
            elif k == "exit":
                l.append(["exit"])
                break
        ops.append(l or [["sleep", 0.5]])
    return _scenario({}, ops, templates)


@st.composite
def iprobe_programs(draw):
    nmb = draw(st.integers(1, 2))
    nact = draw(st.integers(2, 3))
    ops = [[] for _ in range(nact)]
    for a in range(nact):
        for _ in range(draw(st.integers(1, 4))):
            k = draw(st.sampled_from(["iprobe", "iprobe", "put", "get"]))
            mb = draw(st.integers(0, nmb - 1))
            if k == "iprobe":
                ops[a].append(["mc_iprobe", mb, draw(st.integers(0, 1)), draw(st.sampled_from([0, 1, 7, -1, 123456]))])
            elif k == "put":
                ops[a].append(["put_async", mb, 1, {}, 100 * a + len(ops[a])])
            else:
                ops[a].append(["get_async", mb, 100 * a + len(ops[a]), {}])
    return _scenario({"mailbox": nmb}, ops)


@st.composite
def random_programs(draw):
    nact = draw(st.integers(1, 3))
    ops = []
    for _ in range(nact):
        l = []
        for _ in range(draw(st.integers(1, 3))):
            lo = draw(st.sampled_from([0, 0, -2, 5, 1000000]))
            l.append(["mc_random", lo, lo + draw(st.integers(0, 3))])
        ops.append(l)
    return _scenario({}, ops)


@st.composite
def programs(draw, kind=None):
    k = kind or draw(st.sampled_from(KINDS))
    if k in ("mutex", "sem", "cond", "barrier", "mailbox"):
        sc = draw(syncgen.programs(kinds=(k,), max_actors=4, max_ops=6, mc=True))
    elif k == "sync-mix":
        sc = draw(syncgen.programs(kinds=("mutex", "sem", "cond", "barrier", "mailbox", "random"), max_actors=4, max_ops=8, mc=True))
    elif k == "comm-async":
        sc = draw(comm_programs(False))
    elif k == "comm-any":
        sc = draw(comm_programs(True))
    elif k == "mqueue":
        sc = draw(mq_programs())
    elif k == "actors":
        sc = draw(actor_programs())
    elif k == "iprobe":
        sc = draw(iprobe_programs())
    else:
        sc = draw(random_programs())
    return k, sc


@st.composite
def deadlock_free_programs(draw, max_actors=3, max_blocks=3):
    """Programs that cannot deadlock by construction (C40 needs complete executions only): critical sections taken in increasing
    mutex order, try_lock + conditional unlock, semaphore acquire/release pairs on a semaphore of capacity >= 1, one
    producer / one consumer per mailbox with communications outside every critical section, one barrier crossed by everybody as
    last operation."""
    nact = draw(st.sampled_from([3, 2, 3, 2] if max_actors >= 3 else [2]))
    budget = draw(st.integers(nact, 4 if max_blocks <= 3 else 6))      # blocks in the whole program: the number of paths explodes
    nmut = draw(st.sampled_from([1, 1, 1, 2]))
    objects = {"mutex": [{"recursive": draw(st.integers(0, 3)) == 0} for _ in range(nmut)], "sem": [draw(st.integers(1, 2))]}
    use_mb = draw(st.booleans())
    use_bar = draw(st.integers(0, 3)) == 0
    if use_mb:
        objects["mailbox"] = 1
    if use_bar:
        objects["barrier"] = [nact]
    ops = [[] for _ in range(nact)]
    ntry = [0] * nact
    nmsg = draw(st.integers(1, 2)) if use_mb else 0
    prod, cons = (draw(st.integers(0, nact - 1)), None) if use_mb else (None, None)
    if use_mb:
        cons = draw(st.sampled_from([a for a in range(nact) if a != prod]))
    for a in range(nact):
        todo_msgs = nmsg if a in (prod, cons) else 0
        nb = max(1, min(max_blocks, budget // nact + (1 if a < budget % nact else 0)))
        for _ in range(nb):
            k = draw(st.sampled_from(["try", "cs", "try", "sem", "cs", "sem", "try", "nested", "msg"]))
            if k == "cs":
                m = draw(st.integers(0, nmut - 1))
                ops[a] += [["lock", m]] + ([["sleep", 0.25]] if draw(st.booleans()) else []) + [["unlock", m]]
            elif k == "nested" and nmut == 2:
                ops[a] += [["lock", 0], ["lock", 1], ["unlock", 1], ["unlock", 0]]
            elif k == "nested":
                ops[a] += [["lock", 0], ["acquire", 0], ["release", 0], ["unlock", 0]]
            elif k == "try":
                m = draw(st.integers(0, nmut - 1))
                ops[a] += [["try_lock", m], ["unlock_if", m, ntry[a]]]
                ntry[a] += 1
            elif k == "sem":
                ops[a] += [["acquire", 0], ["release", 0]]
            elif k == "msg" and todo_msgs:
                ops[a].append(["put", 0, 0, {}] if a == prod else ["get", 0, {}])
                todo_msgs -= 1
            else:
                ops[a].append(["sleep", draw(st.sampled_from([0.25, 0.5]))])
        for _ in range(todo_msgs):
            ops[a].append(["put", 0, 0, {}] if a == prod else ["get", 0, {}])
        if use_bar:
            ops[a].append(["barrier", 0])
    return _scenario(objects, ops)


@st.composite
def condvar_programs(draw):
    """Several condition variables on few mutexes (the not_full / not_empty pattern: two condvars protected by ONE mutex), waiters
    on different condvars (plain and timed waits: a timed CONDVAR_WAIT is enabled without any notification), notifiers (signal /
    broadcast, with or without the mutex), and actors that only lock / try_lock the shared mutex.  The dependency rules between
    condvar and mutex transitions key on exactly one of the two ids: this family reaches same-mutex/different-condvar,
    same-condvar, different-mutex/different-condvar pairs often.  Programs may deadlock: C39 only looks at reached states."""
    nmut = draw(st.sampled_from([1, 1, 1, 2]))
    ncv = draw(st.sampled_from([2, 2, 3]))
    cond = [0 if nmut == 1 else draw(st.sampled_from([0, 0, 1])) for _ in range(ncv)]
    nact = draw(st.integers(2, 4))
    ops = []
    roles = draw(st.lists(st.sampled_from(["waiter", "waiter", "waiter", "notifier", "locker"]), min_size=nact, max_size=nact))
    if roles.count("waiter") < 2:
        roles[0] = roles[1] = "waiter"
    nwait = 0
    for a, role in enumerate(roles):
        l = []
        ntry = 0
        for _ in range(draw(st.integers(1, 2))):
            if role == "waiter":
                c = nwait % ncv if draw(st.integers(0, 3)) else draw(st.integers(0, ncv - 1))     # mostly different condvars
                nwait += 1
                m = cond[c]
                w = ["cv_wait_for", c, draw(st.sampled_from([0.25, 1.0, 2.0]))] if draw(st.integers(0, 2)) else ["cv_wait", c]
                l += [["lock", m], w, ["unlock", m]]
            elif role == "notifier":
                c = draw(st.integers(0, ncv - 1))
                n = [draw(st.sampled_from(["notify_one", "notify_all"])), c]
                if draw(st.booleans()):
                    l += [["lock", cond[c]], n] + ([[draw(st.sampled_from(["notify_one", "notify_all"])), draw(st.integers(0, ncv - 1))]]
                                                   if draw(st.booleans()) else []) + [["unlock", cond[c]]]
                else:
                    l.append(n)
            else:
                m = draw(st.integers(0, nmut - 1))
                if draw(st.booleans()):
                    l += [["lock", m], ["unlock", m]]
                else:
                    l += [["try_lock", m], ["unlock_if", m, ntry]]
                    ntry += 1
        ops.append(l)
    return _scenario({"mutex": [{"recursive": False} for _ in range(nmut)], "cond": cond}, ops)


@st.composite
def shared_object_programs(draw):
    """Every actor works on the SAME few objects (one mutex, one semaphore, one barrier, one mailbox), with all the operation kinds
    of each: pairs of co-enabled transitions nearly always share an object."""
    nact = draw(st.integers(2, 4))
    fam = draw(st.sampled_from(["mutex", "sem", "barrier", "mailbox", "mutex+sem", "mailbox+mutex"]))
    objects = {}
    if "mutex" in fam:
        objects["mutex"] = [{"recursive": draw(st.integers(0, 3)) == 0}]
    if "sem" in fam:
        objects["sem"] = [draw(st.integers(0, 2))]
    if "barrier" in fam:
        objects["barrier"] = [draw(st.integers(2, nact)), draw(st.integers(1, 2))]
    if "mailbox" in fam:
        objects["mailbox"] = 1
    ops = []
    for a in range(nact):
        l = []
        ntry = 0
        nh = 0
        for _ in range(draw(st.integers(1, 3))):
            choices = []
            if "mutex" in fam:
                choices += ["cs", "try"]
            if "sem" in fam:
                choices += ["acq", "rel", "acqrel"]
            if "barrier" in fam:
                choices += ["bar", "bar1"]
            if "mailbox" in fam:
                choices += ["put", "get", "aput", "aget"]
            k = draw(st.sampled_from(choices))
            if k == "cs":
                l += [["lock", 0], ["unlock", 0]]
            elif k == "try":
                l += [["try_lock", 0], ["unlock_if", 0, ntry]]
                ntry += 1
            elif k == "acq":
                l.append(["acquire", 0])
            elif k == "rel":
                l.append(["release", 0])
            elif k == "acqrel":
                l += [["acquire", 0], ["release", 0]]
            elif k == "bar":
                l.append(["barrier", 0])
            elif k == "bar1":
                l.append(["barrier", 1])
            elif k == "put":
                l.append(["put", 0, 0, {}])
            elif k == "get":
                l.append(["get", 0, {}])
            elif k == "aput":
                h = 100 * a + nh
                nh += 1
                l += [["put_async", 0, 1, {}, h], [draw(st.sampled_from(["wait", "test"])), h] + ([{}] if False else [])]
            else:
                h = 100 * a + nh
                nh += 1
                l += [["get_async", 0, h, {}], ["test", h]]
        # fix the shape of wait ops (["wait", h, {}]) produced above
        l = [o + [{}] if o[0] == "wait" and len(o) == 2 else o for o in l]
        ops.append(l)
    return _scenario(objects, ops)


@st.composite
def many_actor_programs(draw):
    """4 (sometimes 5) actors with 1-2 operations each, in a generated creation order: semaphores of capacity 0/1 with release /
    acquire chains across actors (acquire t then release s), mutex lock / try_lock / unlock mixes.  ODPOR's race detection only
    has more than two candidates per event with >= 4 actors.  May deadlock: the caller filters with the reference semantics."""
    nact = draw(st.sampled_from([4, 4, 4, 5]))
    nsem = draw(st.sampled_from([1, 2, 2]))
    nmut = draw(st.sampled_from([0, 0, 1, 1, 2]))
    objects = {"sem": [draw(st.sampled_from([0, 0, 1])) for _ in range(nsem)]}
    if nmut:
        objects["mutex"] = [{"recursive": False} for _ in range(nmut)]
    kinds = ["rel", "rel", "rel", "rel", "acq", "acq", "acq", "acq_rel", "acq_rel", "rel_rel"] + (["try", "try", "cs", "cs_rel"] if nmut else [])
    ops = []
    for a in range(nact):
        k = draw(st.sampled_from(kinds))
        s, t = draw(st.integers(0, nsem - 1)), draw(st.integers(0, nsem - 1))
        m, m2 = (draw(st.integers(0, nmut - 1)), draw(st.integers(0, nmut - 1))) if nmut else (0, 0)
        if k == "rel":
            l = [["release", s]]
        elif k == "acq":
            l = [["acquire", s]]
        elif k == "acq_rel":
            l = [["acquire", t], ["release", s]]
        elif k == "rel_rel":
            l = [["release", s], ["release", t]]
        elif k == "cs":
            l = [["lock", m], ["unlock", m]]
        elif k == "try":
            l = [["try_lock", m], ["unlock_if", m, 0]]
        elif k == "cs_rel":
            l = [["lock", m], ["unlock", m], ["release", s]]
        else:
            l = [["lock", m], ["unlock", m], ["lock", m2], ["unlock", m2]]
        ops.append(l)
    # enough tokens for every acquire (most of these programs would otherwise deadlock and be filtered out)
    for x in range(nsem):
        acq = sum(1 for l in ops for o in l if o == ["acquire", x])
        rel = sum(1 for l in ops for o in l if o == ["release", x])
        if acq > objects["sem"][x] + rel:
            objects["sem"][x] = acq - rel
    return _scenario(objects, ops)
