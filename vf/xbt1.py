"""Shared reference models of the xbt1 group: C27 (values with units), C45 (random), C48 (configuration).

Everything here is independent of the SimGrid sources: tables are copied from the documentation
(docs/source/XML_reference.rst, Configuring_SimGrid.rst) and from the C/C++ standard where the docs defer to it.
"""
import math
import re
from fractions import Fraction

# =====================================================================================================
# C27: reference reading of "<number><unit>"

SI = ["k", "M", "G", "T", "P", "E", "Z", "Y"]
IEC = ["Ki", "Mi", "Gi", "Ti", "Pi", "Ei", "Zi", "Yi"]
SI_FULL = ["kilo", "mega", "giga", "tera", "peta", "exa", None, "yotta"]   # 10^21: the code spells it 'zeta', SI 'zetta'

KINDS = ("time", "size", "bandwidth", "speed")
BASE_UNITS = ("s", "B", "b", "Bps", "bps", "f", "flops")
DEFAULT_UNIT = {"time": "s", "size": "B", "bandwidth": "Bps", "speed": "f"}


def _tables():
    t = {}
    # XML_reference.rst, <link latency>: table of time units
    t["time"] = {"w": Fraction(7 * 24 * 3600), "d": Fraction(24 * 3600), "h": Fraction(3600), "m": Fraction(60), "s": Fraction(1),
                 "ms": Fraction(1, 10**3), "us": Fraction(1, 10**6), "ns": Fraction(1, 10**9), "ps": Fraction(1, 10**12)}
    # XML_reference.rst, <link bandwidth>, <disk read_bw>: bytes/bits x powers of 2/10 ("1 KiBps = 1,024 Bps",
    # "1 KBps = 1,000 Bps", "1 Bps = 8 bps").  Z and Y are used by upstream's own unit test (xbt_str_test.cpp).
    for kind, suffix in (("size", ""), ("bandwidth", "ps")):
        d = {}
        for base, val in (("B", Fraction(1)), ("b", Fraction(1, 8))):
            d[base + suffix] = val
            for i, p in enumerate(SI):
                d[p + base + suffix] = val * 1000 ** (i + 1)
            for i, p in enumerate(IEC):
                d[p + base + suffix] = val * 1024 ** (i + 1)
        t[kind] = d
    d = {"f": Fraction(1), "flops": Fraction(1)}
    for i, p in enumerate(SI):
        d[p + "f"] = Fraction(1000 ** (i + 1))
    for i, p in enumerate(SI_FULL):
        if p:
            d[p + "flops"] = Fraction(1000 ** (i + 1))
    t["speed"] = d
    return t


TABLE = _tables()

# spellings on which documentation and code disagree or that are undocumented extensions: either rejected or read with
# this multiplier, never with another one
LENIENT = {
    "time": {},
    "size": {"KB": Fraction(1000), "Kb": Fraction(125)},
    "bandwidth": {},
    "speed": {"zetaflops": Fraction(10**21), "zettaflops": Fraction(10**21)},
}
# XML_reference.rst lists the decimal kilo prefix of bandwidths as a capital K ("1 KBps = 1,000 Bps"; "Kbps")
DOC_K = {"bandwidth": {"KBps": Fraction(1000), "Kbps": Fraction(125)}}

NUM_RE = re.compile(r"[+-]?(?:[0-9]+\.?[0-9]*|\.[0-9]+)(?:[eE][+-]?[0-9]+)?")
NUM_PARTS = re.compile(r"([+-]?)([0-9]*)\.?([0-9]*)(?:[eE]([+-]?[0-9]+))?$")
C_SPACE = " \t\n\v\f\r"

OVERFLOW = Fraction(2) ** 1024 - Fraction(2) ** 970      # smallest magnitude that rounds to infinity (ties to even)
DBL_MIN = Fraction(1, 2 ** 1022)
DBL_MAX = Fraction(2) ** 1024 - Fraction(2) ** 971


class Verdict:
    """what the documentation requires for one string.
    kind: 'accept' (value must be returned), 'lenient' (rejected, or `value` if not None, or anything finite/inf/nan
    if value is None), 'reject' (must be rejected)."""
    __slots__ = ("kind", "value", "why", "unit", "tags")

    def __init__(self, kind, value=None, why="", unit="", tags=()):
        self.kind, self.value, self.why, self.unit, self.tags = kind, value, why, unit, tuple(tags)


def number_value(num):
    """exact value of a canonical number literal, or 'over'/'under' when the exponent is absurd."""
    m = NUM_PARTS.match(num)
    sign, ip, fp, ex = m.group(1), m.group(2), m.group(3), m.group(4)
    mant = int((ip + fp) or "0")
    e = int(ex) if ex else 0
    if mant == 0:
        return Fraction(0)
    e10 = e - len(fp)
    if abs(e10) > 6000:
        return "over" if e10 > 0 else "under"
    x = Fraction(mant) * (Fraction(10) ** e10)
    return -x if sign == "-" else x


def classify(kind, s):
    """Reference verdict for xbt_parse_get_<kind>(s)."""
    v = _classify(kind, s)
    if v.value is not None and abs(v.value) > DBL_MAX * (1 - Fraction(1, 10**15)):
        # number in range but number x multiplier beyond DBL_MAX: inf, or a rejection, are both defensible
        return Verdict("lenient", None, "product-overflow", v.unit, v.tags)
    return v


def _classify(kind, s):
    if "\0" in s:
        return Verdict("lenient", None, "nul")
    body = s[1:] if s[:1] in ("+", "-") else s
    low = body.lower()
    if s[:1] in tuple(C_SPACE):
        return Verdict("lenient", None, "leading-space")      # strtod skips white space: undocumented
    if low.startswith("0x") or low.startswith("inf") or low.startswith("nan"):
        return Verdict("lenient", None, "c99-special")        # hex floats, inf, nan: strtod extensions, undocumented
    m = NUM_RE.match(s)
    if not m:
        return Verdict("reject", why="no-number")
    num, unit = m.group(0), s[m.end():]
    if len(num) > 3000:
        return Verdict("lenient", None, "huge-literal")
    x = number_value(num)
    tags = []
    if "." in num:
        tags.append("frac")
    if "e" in num.lower():
        tags.append("exp")
    if x not in ("over", "under") and x != 0:
        if abs(x) > 10**307:
            tags.append("near-max")       # within a factor 18 of the overflow threshold, either side
        elif abs(x) < Fraction(1, 10**306):
            tags.append("near-min")
    if x == "over" or (x != "under" and abs(x) >= OVERFLOW):
        return Verdict("reject", why="number-overflow", unit=unit, tags=[t for t in tags if t.startswith("near")])
    if x == "under" or (x != 0 and abs(x) < DBL_MIN):
        # glibc reports ERANGE for (inexact) subnormal results; the docs say nothing: rejected or right value
        tab = TABLE[kind]
        if unit in tab or unit == "":
            return Verdict("lenient", None if x == "under" else x * tab[unit or DEFAULT_UNIT[kind]], "number-underflow", unit)
        return Verdict("lenient", None, "number-underflow", unit)
    tab = TABLE[kind]
    if unit == "":
        if x == 0:
            return Verdict("accept", Fraction(0), "unitless-zero", unit, tags)
        return Verdict("lenient", x * tab[DEFAULT_UNIT[kind]], "unitless-nonzero", unit, tags)   # deprecated form
    if unit in tab:
        v = x * tab[unit]
        if unit not in BASE_UNITS:
            tags.append("prefix")
        return Verdict("accept", v, "table", unit, tags)
    if unit in DOC_K.get(kind, {}):
        return Verdict("accept", x * DOC_K[kind][unit], "doc-K", unit, tags + ["prefix"])
    if unit in LENIENT[kind]:
        return Verdict("lenient", x * LENIENT[kind][unit], "lenient-unit", unit, tags)
    for k2 in KINDS:
        if k2 != kind and unit in TABLE[k2]:
            return Verdict("reject", why="other-kind-unit", unit=unit)
    return Verdict("reject", why="unknown-unit", unit=unit)


def classify_list(kind, s):
    """xbt_parse_get_bandwidths (split on ';' or ',') / xbt_parse_get_all_speeds (split on ',', tokens trimmed)."""
    if kind == "bandwidths":
        toks = re.split("[;,]", s)
        return [classify("bandwidth", t) for t in toks]
    toks = s.split(",")
    return [classify("speed", t.strip(C_SPACE)) for t in toks]


def within(got, want, ulps=2):
    """|got - want| <= ulps * ulp(nearest double of want); got: float, want: Fraction."""
    if math.isnan(got) or math.isinf(got):
        return False
    w = float(want)
    return abs(Fraction(got) - want) <= ulps * Fraction(math.ulp(w))


def model_double(num, mult):
    """what strtod + one IEEE multiplication by the nearest double of the multiplier gives (information only)."""
    try:
        return float(num) * float(mult)
    except (ValueError, OverflowError):
        return None


# =====================================================================================================
# C45: reference Mersenne Twister (Matsumoto & Nishimura 1998, the algorithm std::mt19937 is specified to be by
# ISO C++ [rand.predef]) and the distributions documented in include/xbt/random.hpp / src/xbt/random.cpp comments.

M32 = 0xFFFFFFFF


class MT19937:
    N, M = 624, 397

    def __init__(self, seed=5489):
        self.seed(seed)

    def seed(self, s):
        x = [0] * self.N
        x[0] = s & M32
        for i in range(1, self.N):
            x[i] = (1812433253 * (x[i - 1] ^ (x[i - 1] >> 30)) + i) & M32
        self.x, self.p = x, self.N

    def set_state(self, words, p):
        self.x, self.p = [w & M32 for w in words], p

    def _twist(self):
        x, N, M = self.x, self.N, self.M
        for k in range(N):
            y = (x[k] & 0x80000000) | (x[(k + 1) % N] & 0x7FFFFFFF)
            x[k] = x[(k + M) % N] ^ (y >> 1) ^ (0x9908B0DF if y & 1 else 0)
        self.p = 0

    def next(self):
        if self.p >= self.N:
            self._twist()
        y = self.x[self.p]
        self.p += 1
        return temper(y)

    def clone(self):
        c = MT19937.__new__(MT19937)
        c.x, c.p = list(self.x), self.p
        return c


def temper(y):
    y ^= y >> 11
    y ^= (y << 7) & 0x9D2C5680
    y ^= (y << 15) & 0xEFC60000
    y ^= y >> 18
    return y & M32


def untemper(z):
    """inverse of temper: the state word that makes the engine output z."""
    y = z & M32
    y ^= y >> 18
    y ^= (y << 15) & 0xEFC60000
    t = y
    for _ in range(5):
        t = y ^ ((t << 7) & 0x9D2C5680)
    y = t & M32
    t = y
    for _ in range(3):
        t = y ^ (t >> 11)
    return t & M32


def to_int32(v):
    v &= M32
    return v - (1 << 32) if v & 0x80000000 else v


class XbtRandomModel:
    """The documented algorithms: uniform_int = rejection sampling on the 32-bit engine output so that every value of
    [min, max] has the same number of pre-images; uniform_real = min + (max-min) * k / (2^32-1) with k != 2^32-1."""

    def __init__(self, mt):
        self.mt = mt
        self.rejected = 0          # engine outputs thrown away by a rejection loop
        self.raw = 0               # engine outputs consumed

    def _raw(self):
        self.raw += 1
        return self.mt.next()

    @staticmethod
    def int_limit(rng):
        """acceptance bound for a range of `rng` values (1 <= rng < 2^32): accepted outputs are [0, limit)."""
        return M32 - M32 % rng

    def uniform_int(self, mn, mx):
        rng = ((mx & M32) - (mn & M32)) & M32
        if rng == M32:
            return to_int32(self._raw() + mn)
        rng += 1
        limit = self.int_limit(rng)
        while True:
            v = self._raw()
            if v < limit:
                break
            self.rejected += 1
        return to_int32(v % rng + mn)

    def uniform_real(self, mn, mx):
        while True:
            k = self._raw()
            if k != M32:
                break
            self.rejected += 1
        return mn + (mx - mn) * float(k) / 4294967295.0

    def exponential(self, lam):
        u = self.uniform_real(0.0, 1.0)
        return -1.0 / lam * (math.log(u) if u > 0 else -math.inf)

    def normal(self, mean, sd):
        while True:
            u1 = self.uniform_real(0.0, 1.0)
            if u1 >= 2.2250738585072014e-308:
                break
        u2 = self.uniform_real(0.0, 1.0)
        z0 = math.sqrt(-2.0 * math.log(u1)) * math.cos(2.0 * math.pi * u2)
        return z0 * sd + mean
