"""Shared reference models of the xbt1 group: C27 (values with units), C45 (random), C48 (configuration).

Everything here is independent of the SimGrid sources: tables are copied from the documentation
(docs/source/XML_reference.rst, Configuring_SimGrid.rst) and from the C/C++ standard where the docs defer to it.
"""
import math
import re
from fractions import Fraction

# =====================================================================================================
# C27: reference reading of "<number><unit>"

SI = ["k", "M", "G", "T", "P", "E", "Z", "Y"]
IEC = ["Ki", "Mi", "Gi", "Ti", "Pi", "Ei", "Zi", "Yi"]
SI_FULL = ["kilo", "mega", "giga", "tera", "peta", "exa", None, "yotta"]   # 10^21: the code spells it 'zeta', SI 'zetta'

KINDS = ("time", "size", "bandwidth", "speed")
BASE_UNITS = ("s", "B", "b", "Bps", "bps", "f", "flops")
DEFAULT_UNIT = {"time": "s", "size": "B", "bandwidth": "Bps", "speed": "f"}


def _tables():
    t = {}
    # XML_reference.rst, <link latency>: table of time units
    t["time"] = {"w": Fraction(7 * 24 * 3600), "d": Fraction(24 * 3600), "h": Fraction(3600), "m": Fraction(60), "s": Fraction(1),
                 "ms": Fraction(1, 10**3), "us": Fraction(1, 10**6), "ns": Fraction(1, 10**9), "ps": Fraction(1, 10**12)}
    # XML_reference.rst, <link bandwidth>, <disk read_bw>: bytes/bits x powers of 2/10 ("1 KiBps = 1,024 Bps",
    # "1 KBps = 1,000 Bps", "1 Bps = 8 bps").  Z and Y are used by upstream's own unit test (xbt_str_test.cpp).
    for kind, suffix in (("size", ""), ("bandwidth", "ps")):
        d = {}
        for base, val in (("B", Fraction(1)), ("b", Fraction(1, 8))):
            d[base + suffix] = val
            for i, p in enumerate(SI):
                d[p + base + suffix] = val * 1000 ** (i + 1)
            for i, p in enumerate(IEC):
                d[p + base + suffix] = val * 1024 ** (i + 1)
        t[kind] = d
    d = {"f": Fraction(1), "flops": Fraction(1)}
    for i, p in enumerate(SI):
        d[p + "f"] = Fraction(1000 ** (i + 1))
    for i, p in enumerate(SI_FULL):
        if p:
            d[p + "flops"] = Fraction(1000 ** (i + 1))
    t["speed"] = d
    return t


TABLE = _tables()

# spellings on which documentation and code disagree or that are undocumented extensions: either rejected or read with
# this multiplier, never with another one
LENIENT = {
    "time": {},
    "size": {"KB": Fraction(1000), "Kb": Fraction(125)},
    "bandwidth": {},
    "speed": {"zetaflops": Fraction(10**21), "zettaflops": Fraction(10**21)},
}
# XML_reference.rst lists the decimal kilo prefix of bandwidths as a capital K ("1 KBps = 1,000 Bps"; "Kbps")
DOC_K = {"bandwidth": {"KBps": Fraction(1000), "Kbps": Fraction(125)}}

NUM_RE = re.compile(r"[+-]?(?:[0-9]+\.?[0-9]*|\.[0-9]+)(?:[eE][+-]?[0-9]+)?")
NUM_PARTS = re.compile(r"([+-]?)([0-9]*)\.?([0-9]*)(?:[eE]([+-]?[0-9]+))?$")
C_SPACE = " \t\n\v\f\r"

OVERFLOW = Fraction(2) ** 1024 - Fraction(2) ** 970      # smallest magnitude that rounds to infinity (ties to even)
DBL_MIN = Fraction(1, 2 ** 1022)
DBL_MAX = Fraction(2) ** 1024 - Fraction(2) ** 971


class Verdict:
    """what the documentation requires for one string.
    kind: 'accept' (value must be returned), 'lenient' (rejected, or `value` if not None, or anything finite/inf/nan
    if value is None), 'reject' (must be rejected)."""
    __slots__ = ("kind", "value", "why", "unit", "tags")

    def __init__(self, kind, value=None, why="", unit="", tags=()):
        self.kind, self.value, self.why, self.unit, self.tags = kind, value, why, unit, tuple(tags)


def number_value(num):
    """exact value of a canonical number literal, or 'over'/'under' when the exponent is absurd."""
    m = NUM_PARTS.match(num)
    sign, ip, fp, ex = m.group(1), m.group(2), m.group(3), m.group(4)
    mant = int((ip + fp) or "0")
    e = int(ex) if ex else 0
    if mant == 0:
        return Fraction(0)
    e10 = e - len(fp)
    if abs(e10) > 6000:
        return "over" if e10 > 0 else "under"
    x = Fraction(mant) * (Fraction(10) ** e10)
    return -x if sign == "-" else x


def classify(kind, s):
    """Reference verdict for xbt_parse_get_<kind>(s)."""
    v = _classify(kind, s)
    if v.value is not None and abs(v.value) > DBL_MAX * (1 - Fraction(1, 10**15)):
        # number in range but number x multiplier beyond DBL_MAX: inf, or a rejection, are both defensible
        return Verdict("lenient", None, "product-overflow", v.unit, v.tags)
    return v


def _classify(kind, s):
    if "\0" in s:
        return Verdict("lenient", None, "nul")
    body = s[1:] if s[:1] in ("+", "-") else s
    low = body.lower()
    if s[:1] in tuple(C_SPACE):
        return Verdict("lenient", None, "leading-space")      # strtod skips white space: undocumented
    if low.startswith("0x") or low.startswith("inf") or low.startswith("nan"):
        return Verdict("lenient", None, "c99-special")        # hex floats, inf, nan: strtod extensions, undocumented
    m = NUM_RE.match(s)
    if not m:
        return Verdict("reject", why="no-number")
    num, unit = m.group(0), s[m.end():]
    if len(num) > 3000:
        return Verdict("lenient", None, "huge-literal")
    x = number_value(num)
    tags = []
    if "." in num:
        tags.append("frac")
    if "e" in num.lower():
        tags.append("exp")
    if x not in ("over", "under") and x != 0:
        if abs(x) > 10**307:
            tags.append("near-max")       # within a factor 18 of the overflow threshold, either side
        elif abs(x) < Fraction(1, 10**306):
            tags.append("near-min")
    if x == "over" or (x != "under" and abs(x) >= OVERFLOW):
        return Verdict("reject", why="number-overflow", unit=unit, tags=[t for t in tags if t.startswith("near")])
    if x == "under" or (x != 0 and abs(x) < DBL_MIN):
        # glibc reports ERANGE for (inexact) subnormal results; the docs say nothing, and a subnormal literal is only known to
        # +-2^-1075 (huge relative error once multiplied): rejected, or any value
        return Verdict("lenient", None, "number-underflow", unit)
    tab = TABLE[kind]
    if unit == "":
        if x == 0:
            return Verdict("accept", Fraction(0), "unitless-zero", unit, tags)
        return Verdict("lenient", x * tab[DEFAULT_UNIT[kind]], "unitless-nonzero", unit, tags)   # deprecated form
    if unit in tab:
        v = x * tab[unit]
        if unit not in BASE_UNITS:
            tags.append("prefix")
        return Verdict("accept", v, "table", unit, tags)
    if unit in DOC_K.get(kind, {}):
        return Verdict("accept", x * DOC_K[kind][unit], "doc-K", unit, tags + ["prefix"])
    if unit in LENIENT[kind]:
        return Verdict("lenient", x * LENIENT[kind][unit], "lenient-unit", unit, tags)
    for k2 in KINDS:
        if k2 != kind and unit in TABLE[k2]:
            return Verdict("reject", why="other-kind-unit", unit=unit)
    return Verdict("reject", why="unknown-unit", unit=unit)


def classify_list(kind, s):
    """xbt_parse_get_bandwidths (split on ';' or ',') / xbt_parse_get_all_speeds (split on ',', tokens trimmed)."""
    if kind == "bandwidths":
        toks = re.split("[;,]", s)
        return [classify("bandwidth", t) for t in toks]
    toks = s.split(",")
    return [classify("speed", t.strip(C_SPACE)) for t in toks]


def within(got, want, ulps=2):
    """|got - want| <= ulps * ulp(nearest double of want); got: float, want: Fraction."""
    if math.isnan(got) or math.isinf(got):
        return False
    w = float(want)
    return abs(Fraction(got) - want) <= ulps * Fraction(math.ulp(w))


def model_double(num, mult):
    """what strtod + one IEEE multiplication by the nearest double of the multiplier gives (information only)."""
    try:
        return float(num) * float(mult)
    except (ValueError, OverflowError):
        return None


# =====================================================================================================
# C45: reference Mersenne Twister (Matsumoto & Nishimura 1998, the algorithm std::mt19937 is specified to be by
# ISO C++ [rand.predef]) and the distributions documented in include/xbt/random.hpp / src/xbt/random.cpp comments.

M32 = 0xFFFFFFFF


class MT19937:
    N, M = 624, 397

    def __init__(self, seed=5489):
        self.seed(seed)

    def seed(self, s):
        x = [0] * self.N
        x[0] = s & M32
        for i in range(1, self.N):
            x[i] = (1812433253 * (x[i - 1] ^ (x[i - 1] >> 30)) + i) & M32
        self.x, self.p = x, self.N

    def set_state(self, words, p):
        self.x, self.p = [w & M32 for w in words], p

    def _twist(self):
        x, N, M = self.x, self.N, self.M
        for k in range(N):
            y = (x[k] & 0x80000000) | (x[(k + 1) % N] & 0x7FFFFFFF)
            x[k] = x[(k + M) % N] ^ (y >> 1) ^ (0x9908B0DF if y & 1 else 0)
        self.p = 0

    def next(self):
        if self.p >= self.N:
            self._twist()
        y = self.x[self.p]
        self.p += 1
        return temper(y)

    def clone(self):
        c = MT19937.__new__(MT19937)
        c.x, c.p = list(self.x), self.p
        return c


def temper(y):
    y ^= y >> 11
    y ^= (y << 7) & 0x9D2C5680
    y ^= (y << 15) & 0xEFC60000
    y ^= y >> 18
    return y & M32


def untemper(z):
    """inverse of temper: the state word that makes the engine output z."""
    y = z & M32
    y ^= y >> 18
    y ^= (y << 15) & 0xEFC60000
    t = y
    for _ in range(5):
        t = y ^ ((t << 7) & 0x9D2C5680)
    y = t & M32
    t = y
    for _ in range(3):
        t = y ^ (t >> 11)
    return t & M32


def to_int32(v):
    v &= M32
    return v - (1 << 32) if v & 0x80000000 else v


class XbtRandomModel:
    """The documented algorithms: uniform_int = rejection sampling on the 32-bit engine output so that every value of
    [min, max] has the same number of pre-images; uniform_real = min + (max-min) * k / (2^32-1) with k != 2^32-1."""

    def __init__(self, mt):
        self.mt = mt
        self.rejected = 0          # engine outputs thrown away by a rejection loop
        self.raw = 0               # engine outputs consumed

    def _raw(self):
        self.raw += 1
        return self.mt.next()

    @staticmethod
    def int_limit(rng):
        """acceptance bound for a range of `rng` values (1 <= rng < 2^32): accepted outputs are [0, limit)."""
        return M32 - M32 % rng

    def uniform_int(self, mn, mx):
        rng = ((mx & M32) - (mn & M32)) & M32
        if rng == M32:
            return to_int32(self._raw() + mn)
        rng += 1
        limit = self.int_limit(rng)
        while True:
            v = self._raw()
            if v < limit:
                break
            self.rejected += 1
        return to_int32(v % rng + mn)

    def uniform_real(self, mn, mx):
        while True:
            k = self._raw()
            if k != M32:
                break
            self.rejected += 1
        return mn + (mx - mn) * float(k) / 4294967295.0

    def exponential(self, lam):
        u = self.uniform_real(0.0, 1.0)
        return -1.0 / lam * (math.log(u) if u > 0 else -math.inf)

    def normal(self, mean, sd):
        while True:
            u1 = self.uniform_real(0.0, 1.0)
            if u1 >= 2.2250738585072014e-308:
                break
        u2 = self.uniform_real(0.0, 1.0)
        z0 = math.sqrt(-2.0 * math.log(u1)) * math.cos(2.0 * math.pi * u2)
        return z0 * sd + mean


# =====================================================================================================
# C48: configuration items.  The registry (names, types, aliases) is read from the tree's own help output; the value
# grammars come from the C standard (strtol base 0 / strtod, as DESIGN.md fixes) and docs/source/Configuring_SimGrid.rst.

INT_MIN, INT_MAX = -2 ** 31, 2 ** 31 - 1
LONG_MIN, LONG_MAX = -2 ** 63, 2 ** 63 - 1
TRUE_SPELLINGS = ("yes", "on", "true", "1")
FALSE_SPELLINGS = ("no", "off", "false", "0")


def parse_help(out):
    """-> (items {name: {"type":..., "shown":..., "desc":...}}, aliases {alias: realname}) from config::help() / show_aliases()."""
    items, aliases = {}, {}
    lines = out.splitlines()
    try:
        a, b, c = lines.index("@@HELP"), lines.index("@@ALIASES"), lines.index("@@END-LIST")
    except ValueError:
        return {}, {}
    cur = None
    for l in lines[a + 1:b]:
        m = re.match(r"^       Type: (int|double|boolean|string); Current value: (.*)$", l)
        if m and cur:
            items[cur]["type"] = m.group(1)
            items[cur]["shown"] = m.group(2)
            cur = None
            continue
        m = re.match(r"^   (\S+): (.*)$", l)
        if m and not l.startswith("       "):
            cur = m.group(1)
            items[cur] = {"desc": m.group(2), "type": None, "shown": None}
        elif cur:
            items[cur]["desc"] += "\n" + l
    items = {k: v for k, v in items.items() if v["type"]}
    for l in lines[b + 1:c]:
        p = l.split()
        if len(p) == 2:
            aliases[p[0]] = p[1]
    return items, aliases


def strtol0(s):
    """C strtol(s, &end, 0): -> (value, end_index) or (None, 0) when no conversion is performed."""
    i = 0
    while i < len(s) and s[i] in C_SPACE:
        i += 1
    neg = False
    if i < len(s) and s[i] in "+-":
        neg = s[i] == "-"
        i += 1
    base = 10
    if s[i:i + 2].lower() == "0x" and i + 2 < len(s) and s[i + 2] in "0123456789abcdefABCDEF":
        base, i = 16, i + 2
    elif s[i:i + 1] == "0":
        base = 8
    digs = {8: "01234567", 10: "0123456789", 16: "0123456789abcdefABCDEF"}[base]
    j = i
    while j < len(s) and s[j] in digs:
        j += 1
    if j == i:
        return None, 0
    v = int(s[i:j], base)
    return (-v if neg else v), j


def ref_int(s):
    """verdict for a string given to an int item: ('accept', v) | ('reject', why) | ('lenient', v or None)
    lenient = C spellings the docs do not mention: if accepted the value must be v (None: anything is tolerated)."""
    if "\0" in s:
        return ("lenient", None)
    if re.fullmatch(r"-?(0|[1-9][0-9]*)", s):
        v = int(s)
        if v < INT_MIN or v > INT_MAX:
            return ("reject", "int-overflow")
        return ("accept", v)
    if re.match(r"[ \t\n\v\f\r]*[+-]?0[bB]", s):
        return ("lenient", None)                     # C23 binary literals: depends on the libc
    v, end = strtol0(s)
    if v is None or end != len(s):
        return ("reject", "not-an-int")
    if v < INT_MIN or v > INT_MAX:
        return ("reject", "int-overflow")
    return ("lenient", v)                            # +5, 0x1f, 017, leading blanks


def ref_double(s):
    """verdict for a string given to a double item (value as float)."""
    v = classify_number(s)
    return v


def classify_number(s):
    if "\0" in s:
        return ("lenient", None)
    body = s[1:] if s[:1] in ("+", "-") else s
    low = body.lower()
    if s[:1] in tuple(C_SPACE) and s.strip(C_SPACE):
        return ("lenient", None)
    if low.startswith("0x") or low.startswith("inf") or low.startswith("nan"):
        return ("lenient", None)
    if not NUM_RE.fullmatch(s):
        return ("reject", "not-a-double")
    if len(s) > 3000:
        return ("lenient", None)
    x = number_value(s)
    if x == "over" or (x != "under" and abs(x) >= OVERFLOW):
        return ("reject", "double-overflow")
    if x == "under" or (x != 0 and abs(x) < DBL_MIN):
        return ("lenient", None)
    return ("accept", float(s))


def ref_bool(s):
    if "\0" in s:
        return ("lenient", None)
    # strcasecmp: ASCII case folding only
    low = "".join(chr(ord(c) + 32) if "A" <= c <= "Z" else c for c in s)
    if low in TRUE_SPELLINGS:
        return ("accept", True)
    if low in FALSE_SPELLINGS:
        return ("accept", False)
    return ("reject", "not-a-boolean")


def ref_parse(typ, s):
    if typ == "int":
        return ref_int(s)
    if typ == "double":
        return ref_double(s)
    if typ == "boolean":
        return ref_bool(s)
    return ("accept", s) if "\0" not in s else ("lenient", None)


# --- validation rules of the items that have a validating callback (from Configuring_SimGrid.rst and the help texts) ---
# items that may only be set inside the model checker or after a replay path was given
MC_GATED = {"model-check/timeout", "model-check/rand-seed", "model-check/k-alternatives", "model-check/communications-determinism",
            "model-check/send-determinism", "model-check/debug", "model-check/debug-optimality", "model-check/output-lts",
            "smpi/buffering", "model-check/max-depth"}
# enumerations: (values that must be accepted, values that depend on the build: open)
ENUMS = {
    "model-check/reduction": (["none", "dpor", "sdpor", "odpor", "udpor"], []),
    "model-check/exploration-algo": (["DFS", "BeFS", "parallel"], []),
    "model-check/strategy": (["none", "uniform"], []),
    "smpi/buffering": (["zero", "infty"], []),
    "cpu/optim": (["Lazy", "TI", "Full"], []),
    "network/optim": (["Lazy", "Full"], ["TI"]),         # the docs list TI for both items "only for the Cas01 CPU model"
    "cpu/solver": (["maxmin", "fairbottleneck"], ["bmf"]),
    "network/solver": (["maxmin", "fairbottleneck"], ["bmf"]),
    "disk/solver": (["maxmin", "fairbottleneck"], ["bmf"]),
    "host/solver": (["maxmin", "fairbottleneck"], ["bmf"]),
    "contexts/synchro": (["posix", "futex", "busy_wait"], []),
    "plugin/dvfs/governor": (["conservative", "ondemand", "performance", "powersave"], ["adagio"]),
    "smpi/shared-malloc": (["global", "local"], ["yes", "1", "on", "no", "0", "off"]),      # docs: global, local; message: on, off
    "smpi/privatization": (["no", "yes", "mmap", "dlopen"], ["0", "OFF", "1", "ON"]),
    "debug/stacktrace": (["none"], ["c++23", "dwelf", "boost", "gcc", "addr2line"]),
}
INT_RANGES = {"model-check/cached-states-interval": (0, INT_MAX), "model-check/parallel-thread": (1, INT_MAX),
              "model-check/befs-threshold": (0, 100)}
MODULE_FLAGS = ("plugin", "cpu/model", "network/model", "host/model", "disk/model")
# items read on 2026-09 whose callback validates nothing (or that have no callback): every parsed value must be stored.
# Items that are not listed anywhere here (new ones) get an 'open' validation verdict: stored-or-cleanly-rejected.
PLAIN = """bmf/max-iterations bmf/precision cmonkey/host cmonkey/link cmonkey/pid cmonkey/tell cmonkey/time contexts/factory
contexts/guard-size contexts/nthreads contexts/stack-size cpu/maxmin-selective-update debug/breakpoint debug/clean-atexit
debug/fullstack debug/lmm-leaks debug/stacktrace/ignore debug/verbose-exit exception/cutpath help-nostop maxmin/concurrency-limit
model-check/autoreplay model-check/dot-output model-check/eta-steps model-check/max-errors model-check/no-fork model-check/replay
model-check/search-critical model-check/timeout-soft network/TCP-gamma network/bandwidth-factor network/crosstraffic
network/latency-factor network/loopback-bw network/loopback-lat network/maxmin-selective-update network/weight-S path
plugin/dvfs/max-pstate plugin/dvfs/min-pstate plugin/dvfs/sampling-rate precision/timing precision/work-amount
smpi/IB-penalty-factors smpi/allgather smpi/allgatherv smpi/allreduce smpi/alltoall smpi/alltoallv smpi/async-small-thresh
smpi/auto-shared-malloc-thresh smpi/barrier smpi/barrier-collectives smpi/barrier-finalization smpi/bcast smpi/coll-selector
smpi/cpu-threshold smpi/display-allocs smpi/display-timing smpi/errors-are-fatal smpi/gather smpi/grow-injected-times smpi/hostfile
smpi/init smpi/iprobe smpi/iprobe-cpu-usage smpi/keep-temps smpi/list-leaks smpi/map smpi/np smpi/ois smpi/or smpi/os smpi/pedantic
smpi/privatize-libs smpi/reduce smpi/reduce_scatter smpi/replay smpi/scatter smpi/send-is-detached-thresh
smpi/shared-malloc-blocksize smpi/shared-malloc-hugepage smpi/simulate-computation smpi/test smpi/tmpdir smpi/trace-call-location
smpi/trace-call-use-absolute-path smpi/wtime tracing tracing/actor tracing/basic tracing/categorized tracing/comment
tracing/comment-file tracing/disable-destroy tracing/disable_link tracing/disable_power tracing/filename tracing/platform
tracing/platform/topology tracing/precision tracing/smpi tracing/smpi/computing tracing/smpi/display-sizes tracing/smpi/format
tracing/smpi/format/ti-one-file tracing/smpi/group tracing/smpi/internals tracing/smpi/sleeping tracing/uncategorized tracing/vm""".split()


# store-only items: their callback (if any) only copies the value into a variable, so a process can set them any number of
# times and put them back (used to run cases without a fork).  The others of PLAIN have side effects that cannot be undone.
IMPURE = {"path", "model-check/replay", "plugin/dvfs/sampling-rate", "model-check/no-fork", "debug/stacktrace/ignore",
          "contexts/nthreads", "smpi/cpu-threshold"}
PURE = set(PLAIN) - IMPURE


# the driver's own test flags (drivers/config_driver.cpp): callbacks that count, refuse by THROWING, and a bound variable
VF_FLAGS = {
    "vf/int-even": lambda v: v % 2 == 0,
    "vf/int-range": lambda v: -100 <= v <= 100,
    "vf/double-pos": lambda v: v >= 0,
    "vf/bool": lambda v: True,
    "vf/string-abc": lambda v: v in ("a", "b", "c"),
}
PURE |= set(VF_FLAGS)          # a refused value is an exception, never an abort: such cases can run without a fork


def module_values(desc):
    """'... Possible values (other compilation flags may activate more plugins): a, b, c.\\n (use 'help' ...' -> [a, b, c]"""
    m = re.search(r"Possible values \([^)]*\): (.*?)\.\n", desc + "\n", re.S)
    if not m:
        return None
    return [v.strip() for v in m.group(1).split(",") if v.strip()]


def validate(name, value, replay_active, item, default=None):
    """What the item's validation must do with a value that was parsed fine (value: python int/float/bool/str).
    -> 'ok' (stored) | 'reject' (exception or abort with a message) | 'reject-exc' (refused by an exception: the process goes on)
    | 'open' | 'exit0' (prints help and exits)."""
    if name in VF_FLAGS:
        return "ok" if VF_FLAGS[name](value) else "reject-exc"
    if name in MC_GATED and not replay_active:
        return "reject"
    if name in INT_RANGES:
        lo, hi = INT_RANGES[name]
        return "ok" if lo <= value <= hi else "reject"
    if name in ENUMS:
        must, may = ENUMS[name]
        if value in must:
            return "ok"
        return "open" if value in may else "reject"
    if name in MODULE_FLAGS:
        vals = module_values(item["desc"])
        if vals is None:
            return "open"
        if value == default:
            return "ok"
        if value == "help":
            return "exit0"
        if value in vals:
            return "ok" if name != "plugin" else "open"     # a plugin's init function runs at once: it may have needs of its own
        return "reject"
    if name == "model-check/setenv":
        return "ok" if (value == "" or "=" in value) else "reject"
    if name == "model-check/watch":
        if value == "":
            return "ok"
        toks = value.split(",")
        if all(re.fullmatch(r"[0-9a-fA-F]{1,8}", t) for t in toks):
            return "ok"
        if any(re.match(r"[g-zG-Z_]", t) or t == "" for t in toks):
            return "reject-exc"      # std::stoul throws, rethrown as a std::string
        return "open"
    if name == "smpi/host-speed":
        if value == "auto":
            return "open"
        v = classify("speed", value)
        if v.kind == "accept":
            return "ok" if v.value > 0 else "reject"          # xbt_assert(speed > 0): abort
        return "reject-exc" if v.kind == "reject" else "open"   # ParseError thrown by xbt_parse_get_speed
    if name == "smpi/comp-adjustment-file":
        if value == "":
            return "ok"
        return "reject" if value.startswith("/nonexistent/") else "open"
    if name in PLAIN:
        return "ok"
    return "open"
