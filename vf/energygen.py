"""C23 (builder "fault"): workloads on hosts / links with a power model, and the reference integral of the power.  See notes/C23.md.

Host power (docs/source/Plugins.rst, src/plugins/host_energy.cpp header): wattage_off while the host is off; while it is on, Idle when
nothing runs, else Epsilon + load * (AllCores - Epsilon) of the pstate in force, load = used fraction of the cores; "Idle:AllCores" means
Epsilon = Idle.  Link power (src/plugins/link_energy.cpp header): idle + (busy - idle) * usage / bandwidth.
The reference integrates that power over the intervals between the events of the LOG (executions = the [request, return] spans of the
blocking exec operations on the host, pstate changes, on/off switches, transfer phases of the communications).
"""
import math

from hypothesis import strategies as st

from . import core, s4u

T = s4u.T
REL = 1e-9


def fmt(x):
    return repr(float(x))


# ------------------------------------------------------------------------------------------------ generator
WATTS = st.sampled_from([100.0, 93.0, 90.0, 50.0, 120.0, 0.0, 1.5])
DELTA = st.sampled_from([0.0, 10.0, 25.0, 30.0, 80.0, 0.5])
QUART = st.integers(1, 12).map(lambda k: k / 4)
FLOPS = st.sampled_from([512.0, 1024.0, 2048.0, 4096.0, 256.0])


@st.composite
def power_states(draw, npstates):
    """wattage_per_state value + the parsed [(idle, epsilon, max)]"""
    txt, vals = [], []
    for _ in range(npstates):
        idle = draw(WATTS)
        eps = idle + draw(DELTA)
        mx = eps + draw(DELTA)
        if draw(st.booleans()):
            txt.append("%s:%s:%s" % (fmt(idle), fmt(eps), fmt(mx)))
            vals.append((idle, eps, mx))
        else:
            txt.append("%s:%s" % (fmt(idle), fmt(mx)))
            vals.append((idle, idle, mx))
    return ",".join(txt), vals


@st.composite
def host_scenarios(draw):
    cores = draw(st.sampled_from([1, 2, 4, 3]))
    nps = draw(st.integers(1, 3))
    speeds = [1024.0, 512.0, 2048.0][:nps]
    wps, _ = draw(power_states(nps))
    off = draw(st.sampled_from([None, 10.0, 0.0, 5.5]))
    props = {"wattage_per_state": wps}
    if off is not None:
        props["wattage_off"] = fmt(off)
    h0 = {"name": "h0", "speed": speeds if nps > 1 else speeds[0], "cores": cores, "props": props}
    hc = {"name": "hc", "speed": 1024.0, "cores": 8, "props": {"wattage_per_state": "1.0:2.0"}}
    actors = []
    nw = draw(st.integers(1, 5))
    switches = draw(st.booleans())
    fractional = nw <= cores and draw(st.booleans())      # bounded executions (fractional load): only when nothing has to be shared
    for k in range(nw):
        local = draw(st.booleans())
        ops = []
        for _ in range(draw(st.integers(1, 4))):
            if draw(st.integers(0, 3)) == 0:
                ops.append(["sleep", draw(QUART)])
            else:
                opts = {} if local else {"host": "h0"}
                if fractional and draw(st.booleans()):
                    opts["bound"] = draw(st.sampled_from([256.0, 128.0, 384.0]))
                elif cores >= 2 and draw(st.integers(0, 4)) == 0:
                    opts["threads"] = 2
                ops.append(["exec", draw(FLOPS), opts])
            if draw(st.integers(0, 4)) == 0:
                ops.append(["energy", "h0"])
        actors.append({"name": "w%d" % k, "host": "h0" if local else "hc", "ops": ops})
    cops = []
    on = True
    for _ in range(draw(st.integers(1, 6))):
        cops.append(["sleep", draw(QUART)])
        kind = draw(st.sampled_from(["pstate", "pstate", "energy", "onoff"] if switches else ["pstate", "energy", "energy"]))
        if kind == "pstate" and nps > 1:
            cops.append(["set_pstate", "h0", draw(st.integers(0, nps - 1))])
        elif kind == "onoff":
            cops.append(["turn_off" if on else "turn_on", "host", "h0"])
            on = not on
        cops.append(["energy", "h0"])
    cops += [["sleep", draw(QUART)], ["energy", "h0"]]
    actors.append({"name": "ctl", "host": "hc", "ops": cops})
    sc = {"cfg": ["cpu/optim:" + draw(st.sampled_from(["Lazy", "Full"]))], "plugins": ["host_energy"],
          "platform": {"hosts": [h0, hc]}, "actors": actors, "kind": "host"}
    if draw(st.booleans()):
        sc["sample"] = {"energy": ["h0"]}
    return sc


@st.composite
def link_scenarios(draw):
    idle = draw(WATTS)
    busy = idle + draw(DELTA)
    bw = 1024.0
    lat = draw(st.sampled_from([0.5, 0.0, 0.25, 1.0]))
    props = {"wattage_range": "%s:%s" % (fmt(idle), fmt(busy))}
    off = draw(st.sampled_from([None, None, 10.0]))
    if off is not None:
        props["wattage_off"] = fmt(off)
    l0 = {"name": "l0", "bw": bw, "lat": lat, "policy": draw(st.sampled_from(["SHARED", "SHARED", "FATPIPE"])), "props": props}
    hosts = [{"name": "h0", "speed": 1024.0, "cores": 8}, {"name": "h1", "speed": 1024.0, "cores": 8}, {"name": "hc", "speed": 1024.0}]
    routes = [{"src": "h0", "dst": "h1", "links": ["l0"], "sym": True}]
    nf = draw(st.integers(1, 3))
    actors = []
    for k in range(nf):
        sops, gops = [], []
        for _ in range(draw(st.integers(1, 3))):
            if draw(st.integers(0, 2)) == 0:
                sops.append(["sleep", draw(QUART)])
            opts = {}
            if draw(st.integers(0, 2)) == 0:
                opts["rate"] = draw(st.sampled_from([256.0, 512.0, 128.0, 768.0]))
            sops.append(["put", k, draw(st.sampled_from([512.0, 1024.0, 2048.0, 4096.0])), opts])
            gops.append(["get", k, {}])
            if draw(st.integers(0, 3)) == 0:
                gops.append(["link_energy", "l0"])
        actors.append({"name": "s%d" % k, "host": "h0", "ops": sops})
        actors.append({"name": "g%d" % k, "host": "h1", "ops": gops})
    cops = []
    on = True
    switches = draw(st.integers(0, 2)) == 0
    for _ in range(draw(st.integers(1, 5))):
        cops.append(["sleep", draw(QUART)])
        if switches and draw(st.booleans()):
            cops.append(["turn_off" if on else "turn_on", "link", "l0"])
            on = not on
        cops.append(["link_energy", "l0"])
    cops += [["sleep", draw(QUART)], ["link_energy", "l0"]]
    actors.append({"name": "ctl", "host": "hc", "ops": cops})
    sampled = draw(st.booleans())
    if not sampled and draw(st.booleans()):
        l0["lat"] = 0.0             # without latency the event-driven updates of the plugin see every change of the usage
    sc = {"cfg": ["network/model:CM02", "network/crosstraffic:0", "network/TCP-gamma:0", "network/optim:" + draw(st.sampled_from(["Lazy", "Full"]))],
          "plugins": ["link_energy"], "platform": {"hosts": hosts, "links": [l0], "routes": routes}, "objects": {"mailbox": nf},
          "actors": actors, "kind": "link"}
    if sampled:
        sc["sample"] = {"link_energy": ["l0"]}
    return sc


def scenarios(tier="quick"):
    return st.one_of(host_scenarios(), host_scenarios(), link_scenarios())


# ------------------------------------------------------------------------------------------------ reference
def parse_wps(txt):
    out = []
    for part in txt.split(","):
        v = [float(x) for x in part.split(":")]
        out.append((v[0], v[0], v[1]) if len(v) == 2 else (v[0], v[1], v[2]))
    return out


class Timeline:
    """piecewise-constant power: breakpoints + a function giving the power over (a, b)"""

    def __init__(self, breaks, power):
        self.breaks = sorted(set(breaks))
        self.power = power

    def energy(self, t):
        e, prev = 0.0, 0.0
        for b in self.breaks + [math.inf]:
            if b <= prev:
                continue
            hi = min(b, t)
            if hi > prev:
                e += self.power(prev, hi) * (hi - prev)
            prev = b
            if b >= t:
                break
        return e


def host_timeline(case, log):
    h0 = case["platform"]["hosts"][0]
    wps = parse_wps(h0["props"]["wattage_per_state"])
    off_w = float(h0["props"].get("wattage_off", 0.0))
    cores = h0["cores"]
    ops = log.ops()
    execs = []          # (start, end) of the executions on h0
    t_end = max([T(l["t"]) for l in log.lines if "t" in l] or [0.0])
    died = {l["a"]: T(l["t"]) for l in log.of("actor_end")}
    speeds = h0["speed"] if isinstance(h0["speed"], list) else [h0["speed"]]
    for o in ops:
        if o["op"][0] == "exec":
            opts = o["op"][2] if len(o["op"]) > 2 else {}
            execs.append((o["t_req"], o["t_ret"] if o["t_ret"] is not None else died.get(o["a"], t_end), opts.get("threads", 1), opts.get("bound")))
    pst = [(0.0, 0)] + [(o["t_req"], o["op"][2]) for o in ops if o["op"][0] == "set_pstate" and "exc" not in o]
    onoff = [(0.0, True)] + [(T(l["t"]), l["on"]) for l in log.of("onoff") if l["res"] == "host" and l["name"] == "h0"]
    breaks = [x[0] for x in execs] + [x[1] for x in execs] + [d for d, _ in pst] + [d for d, _ in onoff]

    def power(a, b):
        m = (a + b) / 2
        on = [v for d, v in onoff if d <= a][-1]
        if not on:
            return off_w
        p = [v for d, v in pst if d <= a][-1]
        idle, eps, mx = wps[p]
        run = [x for x in execs if x[0] <= a and x[1] >= b and x[1] > x[0]]
        if not run:
            return idle
        # used cores: a bounded execution uses bound / speed of a core, a multi-threaded one its number of threads
        used = sum((min(x[3], speeds[p]) / speeds[p]) if x[3] is not None else x[2] for x in run)
        return eps + min(1.0, used / cores) * (mx - eps)
    return Timeline(breaks, power), dict(execs=[(x[0], x[1]) for x in execs], pst=pst, onoff=onoff, cores=cores,
                                         fractional=any(x[3] is not None for x in execs), threads=any(x[2] > 1 for x in execs))


def link_timeline(case, log):
    l0 = case["platform"]["links"][0]
    idle, busy = [float(x) for x in l0["props"]["wattage_range"].split(":")]
    off_w = l0["props"].get("wattage_off")
    bw, lat = l0["bw"], l0.get("lat", 0.0)
    fat = l0.get("policy") == "FATPIPE"
    ops = log.ops()
    t_end = max([T(l["t"]) for l in log.lines if "t" in l] or [0.0])
    flows = []          # (transfer start, end, cap)
    by_mb = {}
    for o in ops:
        if o["op"][0] in ("put", "get"):
            by_mb.setdefault(o["op"][1], {"put": [], "get": []})[o["op"][0]].append(o)
    for mb, d in by_mb.items():
        for p, g in zip(d["put"], d["get"]):
            t0 = max(p["t_req"], g["t_req"])
            end = p["t_ret"] if p["t_ret"] is not None else t_end
            cap = p["op"][3].get("rate", math.inf) if len(p["op"]) > 3 else math.inf
            if "exc" in p and end <= t0 + lat:
                continue
            flows.append((t0 + lat, end, cap))
    onoff = [(0.0, True)] + [(T(l["t"]), l["on"]) for l in log.of("onoff") if l["res"] == "link" and l["name"] == "l0"]
    breaks = [a for a, _, _ in flows] + [b for _, b, _ in flows] + [d for d, _ in onoff]

    def power(a, b):
        on = [v for d, v in onoff if d <= a][-1]
        if not on and off_w is not None:
            return float(off_w)
        act = [c for s, e, c in flows if s <= a and e >= b and e > s]
        if not act:
            return idle
        if fat:
            usage = min(bw, max(act))       # a fat pipe is not shared: its usage is the largest flow
        else:
            usage = min(bw, sum(act))
        return idle + (busy - idle) * usage / bw
    return Timeline(breaks, power), dict(flows=flows, onoff=onoff)


def check_c23(case, log, oc, labels):
    kind = case["kind"]
    tl, info = host_timeline(case, log) if kind == "host" else link_timeline(case, log)
    opname = "energy" if kind == "host" else "link_energy"
    obs = []            # (date, value, who)
    for o in log.ops():
        if o["op"][0] == opname and "r" in o:
            obs.append((o["t_ret"], T(o["r"]), "%s#%d" % (o["a"], o["i"]), o["n_ret"]))
    for l in log.of("s"):
        key = "energy" if kind == "host" else "link_energy"
        if key in l:
            obs.append((T(l["t"]), T(list(l[key].values())[0]), "sample", l["n"]))
    obs.sort(key=lambda x: x[3])
    prev = None
    sampled = "sample" in case
    for t, v, who, n in obs:
        want = tl.energy(t)
        if prev is not None and v < prev[1] - 1e-12 * max(1.0, abs(prev[1])):
            oc.bad("energy-decreases", "%s energy read by %s at %r is %r, it was %r at %r" % (kind, who, t, v, prev[1], prev[0]))
            break
        prev = (t, v)
        if abs(v - want) > REL * max(1.0, abs(want)) + 1e-9:
            detail = ""
            if kind == "link":
                flows = info["flows"]
                lat = case["platform"]["links"][0].get("lat", 0.0)
                if lat > 0 and flows and not sampled:
                    detail = ":latency>0"       # the plugin only updates at the start and at the end of a communication
                if any(not on for _, on in info["onoff"]) and "wattage_off" in case["platform"]["links"][0]["props"]:
                    detail = ":wattage_off"
            else:
                if any(not on for _, on in info["onoff"]):
                    detail = ":host-switched-off"
            oc.bad("%s-energy-differs%s%s" % (kind, detail, "" if sampled else ":unsampled"),
                   "%s energy read by %s at date %r is %r, the integral of the power model over the log gives %r (difference %r)" % (kind, who, t, v, want, v - want))
            break
    # classification
    labels.add("kind:" + kind)
    labels.add("sampled-at-every-step" if sampled else "queried-by-actors-only")
    if kind == "host":
        if len(info["pst"]) > 1:
            labels.add("pstate-change")
            if any(any(s < d < e for s, e in info["execs"]) for d, _ in info["pst"][1:]):
                labels.add("pstate-change-while-running")
        if len(info["onoff"]) > 1:
            labels.add("on/off-switch")
            if any(any(s < d <= e for s, e in info["execs"]) for d, _ in info["onoff"][1:]):
                labels.add("switch-off-while-running")
        ks = set()
        for a, b in zip(tl.breaks, tl.breaks[1:]):
            k = sum(1 for s, e in info["execs"] if s <= a and e >= b and e > s)
            ks.add(min(k, info["cores"] + 1))
        if any(0 < k < info["cores"] for k in ks):
            labels.add("partial-load")
        if any(k > info["cores"] for k in ks):
            labels.add("more-execs-than-cores")
        if info["fractional"]:
            labels.add("bounded-exec")
        if info["threads"]:
            labels.add("multi-threaded-exec")
        oc.nontrivial = bool({"pstate-change-while-running", "switch-off-while-running"} & labels)
    else:
        if len(info["onoff"]) > 1:
            labels.add("on/off-switch")
        if any(c < math.inf for _, _, c in info["flows"]):
            labels.add("rate-limited-flow")
        n2 = 0
        for a, b in zip(tl.breaks, tl.breaks[1:]):
            n2 = max(n2, sum(1 for s, e, c in info["flows"] if s <= a and e >= b and e > s))
        if n2 >= 2:
            labels.add("concurrent-flows")
        oc.nontrivial = bool(info["flows"]) and (n2 >= 2 or "rate-limited-flow" in labels or len(info["onoff"]) > 1)
    labels.add("observations:%s" % ("0" if not obs else "1-3" if len(obs) <= 3 else ">3"))
