"""Python side of drivers/mc_peek.cpp: running a scenario of the S4U interpreter under a given schedule, as the model checker
would, and reading what the checker sees (pending / executed transitions, depends()) and the kernel state (fingerprints).
Used by C39 and C43."""
import re

from . import core


class Peek:
    """Parsed output of one mc_peek request."""

    def __init__(self, r):
        self.r = r
        self.lines = r.json_lines()
        self.done = bool(self.lines) and self.lines[-1].get("k") == "done"
        self.main = [l for l in self.lines if "br" not in l]
        # groups of branches: (step at which they start, index of the first one, [[step..]..])
        self.branch_groups = [(l.get("at"), l.get("first", 0), l["list"]) for l in self.main if l.get("k") == "branches"]
        self.branches = {}
        for l in self.lines:
            if "br" in l:
                self.branches.setdefault(l["br"], []).append(l)

    def of(self, kind, lines=None):
        return [l for l in (self.main if lines is None else lines) if l.get("k") == kind]

    def crash_text(self):
        return "rc=%s cpu_exceeded=%s; stderr tail: %s" % (self.r.rc, self.r.cpu_exceeded, self.r.err[-1500:])


def run(request, cpu=30, wall=240):
    # LD_BIND_NOW: mc_peek forks a copy of itself per branch; with lazy binding every copy resolves again the symbols of the code
    # paths that the parent has not executed yet (several ms of dl_lookup per fork)
    from . import build
    core.server("mc_peek", env=build.runtime_env({"LD_BIND_NOW": "1"}))
    return Peek(core.serve("mc_peek", request, cpu=cpu, wall=wall))


# what a checker-side description touches: (family, object id)
_OBJ = [("mutex", re.compile(r"^(?:MUTEX_\w+)\(mutex: (\w+)")), ("sem", re.compile(r"^SEM_\w+\(semaphore: (\d+)")),
        ("barrier", re.compile(r"^BARRIER_\w+\(barrier: (\d+)")), ("cond", re.compile(r"^CONDVAR_\w+\(cond: (\d+)")),
        ("mbox", re.compile(r"mbox=(\d+)"))]


def objects_of(chk):
    res = set()
    for fam, rx in _OBJ:
        m = rx.search(chk)
        if m:
            res.add((fam, m.group(1)))
    m = re.search(r"^CONDVAR_\w+\(cond: \d+, mutex: (\d+)", chk)
    if m:
        res.add(("mutex", m.group(1)))
    return res


# ---------------------------------------------------------------------------------------------------------------------
# simgrid-mc runs with a sound hang detector: the checker and the application talk over a socket pair; when every process of
# the run sleeps in a read on a socket and none has consumed CPU for several polls, nobody will ever write: a deadlock between
# checker and application (e.g. the checker waits for bytes that the application never encoded), not slowness.

def _group_status(pgid):
    import os
    res = []
    for d in os.listdir("/proc"):
        if not d.isdigit():
            continue
        try:
            with open("/proc/%s/stat" % d) as f:
                st = f.read()
            rp = st.rfind(")")
            fields = st[rp + 2:].split()
            if int(fields[2]) != pgid:          # pgrp
                continue
            state = fields[0]
            cpu = int(fields[11]) + int(fields[12])
            try:
                with open("/proc/%s/syscall" % d) as f:
                    sc = f.read().split()[0]
            except OSError:
                sc = "?"
            res.append((int(d), state, sc, cpu))
        except (OSError, ValueError, IndexError):
            continue
    return res


def run_checker(scenario, cfg, cpu=120, wall=900, poll=1.0, still_polls=4, logs=()):
    """-> (core.RunResult, hang: bool).  cfg: list of 'name:value'; logs: list of '--log=' settings."""
    import json
    import os
    import signal
    import subprocess
    import tempfile
    import time
    from . import build
    path = core.write_tmp(json.dumps(scenario))
    out = tempfile.TemporaryFile()
    err = tempfile.TemporaryFile()
    cmd = [build.sg_bin("simgrid-mc"), build.drv("s4u_interp"), "--mc", path, "--log=no_loc"] + ["--log=" + l for l in logs] + \
        ["--cfg=" + c for c in cfg]
    p = subprocess.Popen(cmd, stdin=subprocess.DEVNULL, stdout=out, stderr=err, env=build.runtime_env(), start_new_session=True)
    t0 = time.time()
    still = 0
    last_cpu = None
    hang = cpu_exceeded = wall_exceeded = False
    try:
        while True:
            try:
                p.wait(timeout=poll)
                break
            except subprocess.TimeoutExpired:
                pass
            stt = _group_status(p.pid)
            total = sum(s[3] for s in stt)
            blocked = len(stt) >= 2 and all(s[1] == "S" and s[2] in ("45", "0", "47") for s in stt)
            if blocked and total == last_cpu:
                still += 1
            else:
                still = 0
            last_cpu = total
            if still >= still_polls:
                hang = True
                break
            if total / os.sysconf("SC_CLK_TCK") > cpu:
                cpu_exceeded = True
                break
            if time.time() - t0 > wall:
                wall_exceeded = True
                break
    finally:
        try:
            os.killpg(p.pid, signal.SIGKILL)
        except (ProcessLookupError, PermissionError):
            pass
        p.wait()
        os.unlink(path)
    out.seek(0)
    err.seek(0)
    r = core.RunResult(p.returncode if not (hang or cpu_exceeded or wall_exceeded) else -9, out.read().decode("utf-8", "replace"),
                       err.read().decode("utf-8", "replace"), cpu_exceeded, wall_exceeded)
    return r, hang


def explored_traces(err):
    """Complete executions explored by the DFS explorer, as tuples of actor ids, rebuilt from its verbose log
    (--log=mc_dfs.thres:verbose): 'Executed <aid>: ... (stack depth: d, ...' lines give the current path, 'Execution came to an
    end at <trace>' closes a complete execution (the printed trace is cut at 100 characters: only used as a cross-check)."""
    path = []
    traces = []
    mismatch = None
    for line in err.splitlines():
        m = re.search(r"Executed (\d+): .* \(stack depth: (\d+),", line)
        if m:
            d = int(m.group(2))
            path = path[:d - 1] + [int(m.group(1))]
            continue
        m = re.search(r"Execution came to an end at (\S*)", line)
        if m:
            traces.append(tuple(path))
            printed = m.group(1)
            mine = ";".join(str(a) for a in path)
            if len(printed) < 100 and printed != mine and mismatch is None:
                mismatch = (printed, mine)
    return traces, mismatch
