"""Generators of communication programs for the S4U interpreter: mailboxes (C08) and message queues (C09).

A program is built from a traffic plan (messages sender -> receiver over a mailbox, so that a good share of the operations find
a partner) plus unplanned sends/receives, sleeps on a 1/4 s grid (so that requests of different actors coincide in date, and
arrive before / after their partners), operations on the handles of asynchronous comms, and an epilogue that finalises every
handle through explicit simcalls (wait and/or cancel), because what an actor leaves pending when it ends is cancelled outside
the request order (see commspec.py).
"""
from hypothesis import strategies as st

from . import s4u

QUARTERS = st.integers(0, 8).map(lambda k: k / 4)
TIMEOUTS = st.one_of(st.integers(1, 12).map(lambda k: k / 4), st.integers(1, 12).map(lambda k: k / 4),
                     st.integers(1, 3000).map(lambda k: k / 1024))


# ---------------------------------------------------------------------------------------------- platforms
@st.composite
def platforms(draw, nhosts):
    """-> (platform, cfg, scale): scale 'scaled' (transfers last about as long as the sleeps) or 'wild' (anything)"""
    if nhosts == 1:
        return {"hosts": [{"name": "h0", "speed": 1e9, "cores": 8}]}, draw(st.sampled_from([[], s4u.SHARING_FREE_CFG])), \
            draw(st.sampled_from(["scaled", "wild"]))
    kind = draw(st.sampled_from(["free", "scaled-shared", "scaled-shared", "wild", "wild"]))
    if kind == "free":
        lat = draw(st.sampled_from([0.0, 0.25, 0.5]))
        return s4u.sharing_free_platform(nhosts, bw=1024.0, lat=lat), list(s4u.SHARING_FREE_CFG), "scaled"
    hosts = [{"name": "h%d" % i, "speed": 1e9, "cores": 8} for i in range(nhosts)]
    nlinks = draw(st.integers(1, 4))
    links = []
    for i in range(nlinks):
        if kind == "scaled-shared":
            bw = draw(st.sampled_from([1024.0, 2048.0, 4096.0]))
            lat = draw(st.sampled_from([0.0, 0.125, 0.25]))
            pol = draw(st.sampled_from(["SHARED", "SHARED", "FATPIPE"]))
        else:
            bw = draw(st.sampled_from([1e3, 1e5, 1.25e8, 1e10])) * draw(st.sampled_from([1, 3, 7]))
            lat = draw(st.sampled_from([0.0, 1e-6, 1e-3, 0.1]))
            pol = draw(st.sampled_from(["SHARED", "SHARED", "FATPIPE", "SPLITDUPLEX"]))
        links.append({"name": "l%d" % i, "bw": bw, "lat": lat, "policy": pol})
    routes = []
    for i in range(nhosts):
        for j in range(i + 1, nhosts):
            k = draw(st.integers(1, min(3, nlinks)))
            idx = draw(st.lists(st.integers(0, nlinks - 1), min_size=k, max_size=k, unique=True))
            names = []
            for x in idx:
                names.append("l%d:UP" % x if links[x]["policy"] == "SPLITDUPLEX" else "l%d" % x)
            routes.append({"src": "h%d" % i, "dst": "h%d" % j, "links": names})
    cfg = draw(st.sampled_from([[], [], ["network/model:CM02"], ["network/model:CM02", "network/crosstraffic:0"]]))
    return {"hosts": hosts, "links": links, "routes": routes}, list(cfg), ("scaled" if kind == "scaled-shared" else "wild")


def sizes(scale):
    if scale == "scaled":
        return st.sampled_from([0, 1, 512, 1024, 1024, 2048, 4096])
    return st.one_of(st.sampled_from([0, 1, 1000, 65536, 10 ** 6, 10 ** 9]), st.integers(0, 10 ** 9))


def rates(scale):
    if scale == "scaled":
        return st.sampled_from([256.0, 1024.0, 8192.0])
    return st.sampled_from([1.0, 1e3, 1e6, 1e9])


# ---------------------------------------------------------------------------------------------- mailbox programs
class ActorGen:
    """builds the operation list of one actor; knows the state of its handles"""

    def __init__(self, draw, index, scale, feat):
        self.draw = draw
        self.i = index
        self.scale = scale
        self.feat = feat
        self.ops = []
        self.h = {}        # handle -> dict(kind 's'|'r', f(raw handle), started, cancelled, final)
        self.nh = 0

    def newh(self, kind, raw, started=True):
        h = 100 * self.i + self.nh
        self.nh += 1
        self.h[h] = dict(kind=kind, f=raw, started=started, cancelled=False, final=False)
        return h

    def opt_rate(self):
        d = {}
        if self.feat["rates"] and self.draw(st.integers(0, 5)) == 0:
            d["rate"] = self.draw(rates(self.scale))
        return d

    def send(self, mb, filtered, tag, dst, planned=True, buffer=False):
        draw = self.draw
        size = draw(sizes(self.scale))
        if filtered:
            o = {"id": self.i, "tag": tag, "dst": dst if draw(st.integers(0, 3)) == 0 else -1}
            o.update(self.opt_rate())
            if buffer:
                o["buf"] = draw(st.sampled_from([64, 100, 1000, 4096]))
            modes = ["async", "async", "async"]
            if planned:
                modes += ["block"]
            if self.feat["detach"]:
                modes += ["detach"]
            mode = draw(st.sampled_from(modes))
            if mode == "async":
                o["h"] = self.newh("s", True)
            elif mode == "detach":
                o["detach"] = True
            self.ops.append(["fsend", mb, size, o])
            return
        modes = ["put_async", "put_async", "put_async", "put_async", "put_init"]
        if planned:
            modes += ["put", "put"]
        if self.feat["detach"]:
            modes += ["put_detach", "put_detach"]
        if self.feat["timeouts"]:
            modes += ["put_t", "put_t"]
        if self.feat["unstarted"] and planned:
            modes += ["put_wait"]
        mode = draw(st.sampled_from(modes))
        if mode == "put":
            self.ops.append(["put", mb, size, self.opt_rate()])
        elif mode == "put_t":
            self.ops.append(["put_t", mb, size, draw(TIMEOUTS)])
        elif mode == "put_wait":
            o = self.opt_rate()
            if self.feat["unstarted-timeout"] and draw(st.booleans()):
                o["timeout"] = draw(TIMEOUTS)
            self.ops.append(["put_wait", mb, size, o])
        elif mode == "put_detach":
            self.ops.append(["put_detach", mb, size, self.opt_rate()])
        elif mode == "put_async":
            self.ops.append(["put_async", mb, size, self.opt_rate(), self.newh("s", False)])
        else:
            self.ops.append(["put_init", mb, size, self.opt_rate(), self.newh("s", False, started=False)])

    def recv(self, mb, filtered, tag, src, planned=True, buffer=False):
        draw = self.draw
        if filtered:
            o = {"id": self.i, "tag": tag if draw(st.integers(0, 2)) > 0 else -1, "src": src if draw(st.integers(0, 3)) == 0 else -1}
            o.update(self.opt_rate())
            if buffer:
                o["cap"] = draw(st.sampled_from([64, 100, 1000, 8192]))
            if not planned or draw(st.integers(0, 2)) > 0:
                o["h"] = self.newh("r", True)
            self.ops.append(["frecv", mb, o])
            return
        modes = ["get_async", "get_async", "get_async"]
        if planned:
            modes += ["get", "get"]
        if self.feat["timeouts"]:
            modes += ["get_t", "get_t"]
        if self.feat["unstarted"] and planned:
            modes += ["get_wait"]
        mode = draw(st.sampled_from(modes))
        if mode == "get":
            self.ops.append(["get", mb, {}])
        elif mode == "get_t":
            self.ops.append(["get", mb, {"timeout": draw(TIMEOUTS)}])
        elif mode == "get_wait":
            o = self.opt_rate()
            if self.feat["unstarted-timeout"] and draw(st.booleans()):
                o["timeout"] = draw(TIMEOUTS)
            self.ops.append(["get_wait", mb, o])
        else:
            self.ops.append(["get_async", mb, self.newh("r", False), self.opt_rate()])

    def live(self):
        return sorted(h for h, d in self.h.items() if not d["final"])

    def handle_op(self):
        """one operation on an outstanding handle (if any)"""
        draw = self.draw
        live = self.live()
        if not live:
            return
        h = draw(st.sampled_from(live))
        d = self.h[h]
        f = "f" if d["f"] else ""
        acts = ["wait", "wait", "test", "test"]
        if self.feat["timeouts"]:
            acts += ["wait_t", "wait_t"]
            if not d["f"]:
                acts += ["wait_tc"]
        if self.feat["cancel"] and d["started"]:
            acts += ["cancel"]
        if not d["started"]:
            acts += ["start", "start"]
        anyable = [x for x in live if self.h[x]["started"] and not self.h[x]["f"] and not self.h[x]["cancelled"]]
        if len(anyable) >= 2 and not d["f"]:
            acts += ["wait_any", "test_any"]
        if d["cancelled"]:
            acts = ["wait", "test"]
        act = draw(st.sampled_from(acts))
        if act == "wait":
            self.ops.append([f + "wait", h, {}])
            d["started"] = True
            if draw(st.integers(0, 3)) == 0 and not d["cancelled"]:
                self.ops.append([f + draw(st.sampled_from(["wait", "test"])), h, {}])   # a second look at a finished comm
            d["final"] = True
        elif act == "test":
            self.ops.append([f + "test", h])
            d["started"] = True
            if d["cancelled"]:
                d["final"] = True
        elif act == "wait_t":
            self.ops.append([f + "wait", h, {"timeout": draw(TIMEOUTS)}])
            d["started"] = True
            if d["cancelled"]:
                d["final"] = True
        elif act == "wait_tc":
            self.ops.append(["wait", h, {"timeout": draw(TIMEOUTS), "or_cancel": True}])
            d["started"] = True
            d["final"] = True          # finished, failed or cancelled
            d["cancelled"] = True
        elif act == "cancel":
            self.ops.append([f + "cancel", h])
            d["cancelled"] = True
            if draw(st.booleans()):
                d["final"] = True
        elif act == "start":
            self.ops.append(["start", h])
            d["started"] = True
        elif act in ("wait_any", "test_any"):
            k = draw(st.integers(2, len(anyable)))
            hs = draw(st.permutations(anyable))[:k]
            o = {}
            if act == "wait_any" and self.feat["timeouts"] and draw(st.booleans()):
                o["timeout"] = draw(TIMEOUTS)
            self.ops.append([act, list(hs), o])

    def epilogue(self):
        draw = self.draw
        for h in self.live():
            d = self.h[h]
            f = "f" if d["f"] else ""
            if d["cancelled"]:
                continue
            how = draw(st.sampled_from(["wait", "wait_cancel", "wait_cancel", "cancel"]))
            if how == "wait":
                self.ops.append([f + "wait", h, {}])
            elif how == "wait_cancel":
                self.ops.append([f + "wait", h, {"timeout": draw(st.sampled_from([4.0, 16.0, 1e6]))}])
                self.ops.append([f + "cancel", h])
            else:
                self.ops.append([f + "cancel", h])


@st.composite
def mailbox_programs(draw, max_actors=6, max_mb=3, max_msgs=10):
    nact = draw(st.integers(2, max_actors))
    nmb = draw(st.integers(1, max_mb))
    nhosts = draw(st.integers(1, 4))
    platform, cfg, scale = draw(platforms(nhosts))
    # features of this program (classes are mixed, but not everything in every program: the plain core must stay frequent)
    feat = {
        "filters": draw(st.integers(0, 2)) > 0,
        "perm": draw(st.integers(0, 2)) == 0,
        "timeouts": draw(st.integers(0, 2)) == 0,
        "cancel": draw(st.integers(0, 2)) == 0,
        "detach": draw(st.integers(0, 1)) == 0,
        "rates": draw(st.integers(0, 2)) == 0,
        "unstarted": draw(st.integers(0, 7)) == 0,
        "dumps": draw(st.integers(0, 1)) == 0,
    }
    feat["unstarted-timeout"] = feat["unstarted"] and draw(st.integers(0, 3)) == 0
    # per mailbox: filtered?  permanent receiver (who, and whether it is declared late)?
    mb_filtered = [feat["filters"] and draw(st.integers(0, 3)) > 0 for _ in range(nmb)]
    mb_mixed = [mb_filtered[m] and draw(st.integers(0, 5)) == 0 for m in range(nmb)]      # plain operations on a filtered mailbox too
    # buffer mode (real bytes moved by a copy function, like SMPI): the whole mailbox, never mixed with pointer payloads
    mb_buffer = [mb_filtered[m] and not mb_mixed[m] and draw(st.integers(0, 2)) == 0 for m in range(nmb)]
    mb_perm = [draw(st.integers(0, nact - 1)) if feat["perm"] and draw(st.booleans()) else None for _ in range(nmb)]
    mb_late = [mb_perm[m] is not None and draw(st.integers(0, 3)) == 0 for m in range(nmb)]
    actors = [ActorGen(draw, i, scale, feat) for i in range(nact)]
    # traffic plan: each message gives one send action and one receive action
    nmsg = draw(st.integers(1, max_msgs))
    todo = [[] for _ in range(nact)]
    ntags = draw(st.integers(1, 3))
    for _ in range(nmsg):
        m = draw(st.integers(0, nmb - 1))
        s = draw(st.integers(0, nact - 1))
        if mb_perm[m] is not None and draw(st.integers(0, 4)) > 0:
            r = mb_perm[m]
        else:
            r = draw(st.integers(0, nact - 1))
        if r == s and draw(st.integers(0, 7)) > 0:      # messages to oneself are legal but mostly end in a deadlock
            r = (s + 1 + draw(st.integers(0, nact - 2))) % nact
        tag = draw(st.integers(0, ntags - 1))
        todo[s].append(("s", m, tag, r, True))
        todo[r].append(("r", m, tag, s, True))
    # unplanned operations
    for _ in range(draw(st.integers(0, 3))):
        a = draw(st.integers(0, nact - 1))
        todo[a].append((draw(st.sampled_from("sr")), draw(st.integers(0, nmb - 1)), draw(st.integers(0, ntags - 1)), draw(st.integers(0, nact - 1)), False))
    for i, ag in enumerate(actors):
        acts = list(draw(st.permutations(todo[i]))) if todo[i] else []
        for m in range(nmb):
            if mb_perm[m] == i:
                if mb_late[m]:
                    ag.ops.append(["sleep", draw(QUARTERS)])
                ag.ops.append(["set_receiver", m])
        for (kind, m, tag, peer, planned) in acts:
            k = draw(st.integers(0, 9))
            if k <= 2:
                ag.ops.append(["sleep", draw(QUARTERS)])
            elif k == 3:
                ag.handle_op()
            elif k == 4 and feat["dumps"]:
                if draw(st.booleans()):
                    ag.ops.append(["mb_dump", draw(st.integers(0, nmb - 1))])
                else:
                    as_recv = draw(st.booleans())
                    o = {"id": i, "tag": draw(st.integers(-1, ntags - 1)) if as_recv else draw(st.integers(0, ntags - 1))}
                    o["src" if as_recv else "dst"] = draw(st.sampled_from([-1, -1, -1] + list(range(nact))))
                    ag.ops.append(["iprobe", draw(st.integers(0, nmb - 1)), "recv" if as_recv else "send", o])
            filtered = mb_filtered[m] and not (mb_mixed[m] and draw(st.booleans()))
            if kind == "r" and mb_perm[m] == i and draw(st.integers(0, 2)) == 0:
                ag.ops.append(["sleep", draw(st.sampled_from([1.0, 2.0, 4.0]))])     # let eager messages pile up first
            if kind == "s":
                ag.send(m, filtered, tag, peer, planned, mb_buffer[m])
            else:
                ag.recv(m, filtered, tag, peer, planned, mb_buffer[m])
            if draw(st.integers(0, 2)) == 0:
                ag.handle_op()
        for _ in range(draw(st.integers(0, 2))):
            ag.handle_op()
        if feat["dumps"] and draw(st.integers(0, 2)) == 0:
            ag.ops.append(["sleep", draw(QUARTERS)])
            m = draw(st.integers(0, nmb - 1))
            ag.ops.append(["iprobe", m, "recv", {"id": i, "tag": -1, "src": -1}])
            ag.ops.append(["iprobe", m, "send", {"id": i, "tag": draw(st.integers(0, ntags - 1)), "dst": -1}])
            ag.ops.append(["mb_dump", m])
        ag.epilogue()
        if feat["unstarted-timeout"]:
            # a put_init()->wait_for(t) whose timeout expired stays queued and has no handle: it is cleaned when the actor ends, outside the
            # request order -> let every actor end at a date of its own, after everything else
            ag.ops.append(["sleep_until", 4e9 + 16 * i])
    hosts = [draw(st.integers(0, nhosts - 1)) for _ in range(nact)]
    sc = {"platform": platform, "objects": {"mailbox": nmb}, "comm_dump": True, "quiet": ["act", "actor", "adv"],
          "actors": [{"name": "a%d" % i, "host": "h%d" % hosts[i], "ops": ag.ops} for i, ag in enumerate(actors)]}
    if cfg:
        sc["cfg"] = cfg
    return sc


# ---------------------------------------------------------------------------------------------- message queue programs
@st.composite
def mq_programs(draw, max_actors=6, max_q=3, max_msgs=12):
    nact = draw(st.integers(2, max_actors))
    nq = draw(st.integers(1, max_q))
    feat = {
        "timeouts": draw(st.integers(0, 5)) == 0,      # MessageQueue::put/get with a timeout (known defects live there)
        "wait_timeouts": draw(st.integers(0, 2)) == 0,  # wait_for on asynchronous handles
        "cancel": draw(st.integers(0, 2)) == 0,
        "lazy": draw(st.integers(0, 5)) == 0,          # put_init()->wait() / get_init()->wait() without start
        "detach": draw(st.integers(0, 3)) == 0,
        "dumps": draw(st.booleans()),
    }
    if feat["timeouts"]:
        feat["lazy"] = False
    nmsg = draw(st.integers(1, max_msgs))
    todo = [[] for _ in range(nact)]
    for _ in range(nmsg):
        q = draw(st.integers(0, nq - 1))
        todo[draw(st.integers(0, nact - 1))].append(("s", q))
        todo[draw(st.integers(0, nact - 1))].append(("r", q))
    for _ in range(draw(st.integers(0, 3))):
        todo[draw(st.integers(0, nact - 1))].append((draw(st.sampled_from("sr")), draw(st.integers(0, nq - 1))))
    actors = []
    for i in range(nact):
        ops = []
        hs = {}       # handle -> dict(kind, cancelled, final, lazy)
        nh = 0

        def handle_op():
            live = sorted(h for h, d in hs.items() if not d["final"])
            if not live:
                return
            h = draw(st.sampled_from(live))
            d = hs[h]
            if d["lazy"]:
                ops.append(["mq_peek", h] if d["kind"] == "r" else ["test", h])
                return
            acts = ["wait", "wait", "test", "test"]
            if feat["wait_timeouts"]:
                acts += ["wait_t", "wait_t"]
            if feat["cancel"]:
                acts += ["cancel"]
            anyable = [x for x in live if not hs[x]["cancelled"] and not hs[x]["lazy"]]
            if len(anyable) >= 2:
                acts += ["wait_any", "test_any"]
            if d["cancelled"]:
                acts = ["test"]
            act = draw(st.sampled_from(acts))
            if act == "wait":
                ops.append(["wait", h, {}])
                if draw(st.integers(0, 3)) == 0:
                    ops.append([draw(st.sampled_from(["wait", "test"])), h, {}])
                d["final"] = True
            elif act == "test":
                ops.append(["test", h])
                if d["cancelled"]:
                    d["final"] = True
            elif act == "wait_t":
                ops.append(["wait", h, {"timeout": draw(TIMEOUTS)}])
            elif act == "cancel":
                ops.append(["cancel", h])
                d["cancelled"] = True
                if draw(st.booleans()):
                    d["final"] = True
            else:
                k = draw(st.integers(2, len(anyable)))
                o = {}
                if act == "wait_any" and feat["wait_timeouts"] and draw(st.booleans()):
                    o["timeout"] = draw(TIMEOUTS)
                ops.append([act, list(draw(st.permutations(anyable))[:k]), o])

        for (kind, q) in (list(draw(st.permutations(todo[i]))) if todo[i] else []):
            k = draw(st.integers(0, 9))
            if k <= 2:
                ops.append(["sleep", draw(QUARTERS)])
            elif k == 3:
                handle_op()
            elif k == 4 and feat["dumps"]:
                ops.append(["mq_dump", draw(st.integers(0, nq - 1))])
            if kind == "s":
                modes = ["mq_put", "mq_put", "mq_put_async", "mq_put_async"]
                if feat["timeouts"]:
                    modes += ["mq_put_t", "mq_put_t"]
                if feat["lazy"]:
                    modes += ["mq_put_wait", "mq_put_wait"]
                if feat["detach"]:
                    modes += ["mq_put_detach"]
                mode = draw(st.sampled_from(modes))
                if mode == "mq_put":
                    ops.append(["mq_put", q, {}])
                elif mode == "mq_put_t":
                    ops.append(["mq_put", q, {"timeout": draw(TIMEOUTS)}])
                elif mode == "mq_put_async":
                    h = 100 * i + nh
                    nh += 1
                    hs[h] = dict(kind="s", cancelled=False, final=False, lazy=False)
                    ops.append(["mq_put_async", q, h])
                elif mode == "mq_put_wait":
                    h = 100 * i + nh
                    nh += 1
                    hs[h] = dict(kind="s", cancelled=False, final=False, lazy=True)
                    ops.append(["mq_put_wait", q, {"h": h}])
                else:
                    ops.append(["mq_put_detach", q])
            else:
                modes = ["mq_get", "mq_get", "mq_get_async", "mq_get_async"]
                if feat["timeouts"]:
                    modes += ["mq_get_t", "mq_get_t"]
                if feat["lazy"]:
                    modes += ["mq_get_wait"]
                mode = draw(st.sampled_from(modes))
                if mode == "mq_get":
                    ops.append(["mq_get", q, {}])
                elif mode == "mq_get_t":
                    ops.append(["mq_get", q, {"timeout": draw(TIMEOUTS)}])
                elif mode == "mq_get_async":
                    h = 100 * i + nh
                    nh += 1
                    hs[h] = dict(kind="r", cancelled=False, final=False, lazy=False)
                    ops.append(["mq_get_async", q, h])
                else:
                    h = 100 * i + nh
                    nh += 1
                    hs[h] = dict(kind="r", cancelled=False, final=False, lazy=True)
                    ops.append(["mq_get_wait", q, h, {}])
            if draw(st.integers(0, 2)) == 0:
                handle_op()
        for _ in range(draw(st.integers(0, 2))):
            handle_op()
        if feat["dumps"] and draw(st.integers(0, 2)) == 0:
            ops.append(["sleep", draw(QUARTERS)])
            ops.append(["mq_dump", draw(st.integers(0, nq - 1))])
        # epilogue: every handle is finalised by a simcall
        for h in sorted(hs):
            d = hs[h]
            if d["final"] or d["cancelled"]:
                continue
            if d["lazy"]:
                ops.append(["sleep", draw(QUARTERS)])
                if d["kind"] == "r":
                    ops.append(["mq_peek", h])
                ops.append(["cancel", h])
                continue
            how = draw(st.sampled_from(["wait", "wait", "wait_cancel", "cancel"]))
            if how == "wait":
                ops.append(["wait", h, {}])
            elif how == "wait_cancel":
                ops.append(["wait", h, {"timeout": draw(TIMEOUTS)}])
                ops.append(["cancel", h])
            else:
                ops.append(["cancel", h])
        if feat["timeouts"]:
            # a blocking put/get whose timeout expired stays queued (the library does not cancel it) and is only cleaned when
            # the actor ends, outside the request order: let every actor end at a date of its own
            ops.append(["sleep_until", 1000.0 + 16 * i])
        actors.append({"name": "a%d" % i, "host": "h0", "ops": ops})
    return {"platform": s4u.sync_platform(1, cores=8), "objects": {"mqueue": nq}, "comm_dump": True,
            "quiet": ["act", "actor", "adv"], "actors": actors}
