"""The synchronisation programs of vf/syncgen.py as pthread programs run through sthread (drivers/pthread_interp.c)."""
import json
import os

from . import build, core, mcrun, refsem


def supported(sc):
    ok = {"lock", "try_lock", "unlock", "unlock_if", "acquire", "release", "cv_wait", "cv_wait_for", "notify_one", "notify_all",
          "barrier", "tick", "sleep"}
    return all(op[0] in ok for a in sc["actors"] for op in a["ops"])


def to_text(sc):
    ob = sc.get("objects", {})
    out = []
    mx = ob.get("mutex", [])
    out.append("M %d %s" % (len(mx), " ".join("1" if m.get("recursive") else "0" for m in mx)))
    sm = ob.get("sem", [])
    out.append("S %d %s" % (len(sm), " ".join(str(int(c)) for c in sm)))
    cv = ob.get("cond", [])
    out.append("C %d %s" % (len(cv), " ".join(str(int(m)) for m in cv)))
    br = ob.get("barrier", [])
    out.append("B %d %s" % (len(br), " ".join(str(int(n)) for n in br)))
    out.append("T %d" % len(sc["actors"]))
    for a in sc["actors"]:
        ops = []
        for op in a["ops"]:
            k = op[0]
            if k == "lock":
                ops.append("L%d" % op[1])
            elif k == "try_lock":
                ops.append("Y%d" % op[1])
            elif k == "unlock":
                ops.append("U%d" % op[1])
            elif k == "unlock_if":
                ops.append("I%d,%d" % (op[1], op[2]))
            elif k == "acquire":
                ops.append("A%d" % op[1])
            elif k == "release":
                ops.append("R%d" % op[1])
            elif k == "cv_wait":
                ops.append("W%d,%d" % (op[1], op[2] if len(op) > 2 else cv[op[1]]))
            elif k == "cv_wait_for":
                ops.append("F%d,%d,%d" % (op[1], op[3] if len(op) > 3 else cv[op[1]], int(round(op[2] * 1000))))
            elif k == "notify_one":
                ops.append("N%d" % op[1])
            elif k == "notify_all":
                ops.append("X%d" % op[1])
            elif k == "barrier":
                ops.append("b%d" % op[1])
            elif k == "tick":
                ops.append("k%d" % op[1])
            elif k == "sleep":
                ops.append("z%d" % int(round(op[1] * 1000)))
            else:
                raise ValueError(k)
        out.append("%d %s" % (len(ops), " ".join(ops)))
    return "\n".join(out) + "\n"


def sthread_lib():
    return os.path.join(build.SG, "lib", "libsthread.so")


def run_real(sc, cpu=20, wall=200):
    """plain run through sthread.  Returns (RunResult, normalised outcome or None, deadlock reported?)"""
    path = core.write_tmp(to_text(sc), suffix=".txt")
    try:
        r = core.run([build.drv("pthread_interp"), path], cpu=cpu, wall=wall, env=build.runtime_env({"LD_PRELOAD": sthread_lib()}))
    finally:
        os.unlink(path)
    outcome = None
    for l in r.out.splitlines():
        if l.startswith("OUTCOME "):
            outcome = mcrun.normalise_outcome(sc, json.loads(l[8:]))
    return r, outcome, ("Deadlock detected" in r.err or "deadlock" in r.err.lower())


def run_mc(sc, reduction="none", cpu=60, wall=900):
    path = core.write_tmp(to_text(sc), suffix=".txt")
    try:
        cmd = [build.sg_bin("simgrid-mc"), "--cfg=model-check/setenv:LD_PRELOAD=" + sthread_lib(), "--cfg=model-check/reduction:" + reduction,
               "--log=no_loc"] + ["--cfg=" + c for c in mcrun.BASE_CFG] + [build.drv("pthread_interp"), path]
        r = core.run(cmd, cpu=cpu, wall=wall, env=build.runtime_env())
    finally:
        os.unlink(path)
    return mcrun.McResult(sc, r)
