"""C10 (builder "fault"): generated communicating / executing programs, enumeration of the fault schedules of one program, and the
invariants I1-I4 of DESIGN.md "### C10" checked over the log of every faulty run.  See notes/C10.md.

    programs(tier)                       Hypothesis strategy -> case (a scenario for drivers/s4u_fault WITHOUT injector)
    enumerate_faults(case, ref_log)      the fault schedules of one program: [[{"res","name","date","how","on"}, ...], ...]
    faulty(case, faults)                 the scenario that runs `case` under the schedule `faults`
    Replay(case, log, ref).run()         logical replay of a log (mailbox matching, which activity uses which resource, who is blocked
                                         on what) + the invariants; `ref` = Replay of the reference run (the same program without the
                                         last fault), used for the natural end dates of the activities (ties)
"""
import math

from hypothesis import strategies as st

from . import core, s4u
from .platgen import Plat

T = s4u.T
DRIVER = "s4u_fault"
EXT_VERSION = "fault-ext-v3"     # must match drivers/s4u_ext_fault.hpp: a stale binary is a harness error, not a verdict
EPS = 2.0 ** -20                 # "just before / just after" a date
TOL = 1e-9                       # dates closer than that are a tie (precision/timing)
INJ_HOST = "hi"                  # host of the injector: never fails, takes part in nothing else
FAIL_OF = {"comm": "NetworkFailure", "exec": "HostFailure", "io": "StorageFailure"}
FAILS = set(FAIL_OF.values())


def run(scenario, cpu=20, wall=240):
    log = s4u.Log(core.serve(DRIVER, scenario, cpu=cpu, wall=wall))
    done = [l for l in log.lines if l.get("k") == "done"]      # a detached comm may be cleaned (detach_clean record) after that line
    log.done = bool(done)
    if done and done[0].get("ext") != EXT_VERSION:
        raise core.Inconclusive("stale driver: built from extension header %r, expected %r" % (done[0].get("ext"), EXT_VERSION))
    return log


def crash_sig(log):
    from . import timing
    return timing.crash_sig(log)


# ------------------------------------------------------------------------------------------------ generator
SLEEPS = [0.25, 0.5, 1.0, 2.0]
SIZES = [1024.0, 2048.0, 512.0, 4096.0, 0.0]
FLOPS = [1024.0, 512.0, 2048.0]
LATS = [0.5, 0.25, 0.0, 1.0]
BWS = [1024.0, 2048.0]
POLICIES = ["SHARED", "SHARED", "SHARED", "FATPIPE", "SPLITDUPLEX"]


@st.composite
def platforms(draw, one_core=False, p_asym=1):
    nh = draw(st.integers(2, 3))
    hosts = []
    for i in range(nh):
        h = {"name": "h%d" % i, "speed": 1024.0, "cores": 1 if one_core else draw(st.sampled_from([4, 1, 2]))}
        if draw(st.integers(0, 2)) == 0:
            h["disks"] = [{"name": "d%d" % i, "read_bw": 1024.0, "write_bw": 1024.0}]
        hosts.append(h)
    hosts.append({"name": INJ_HOST, "speed": 1024.0})
    npool = draw(st.integers(1, 3))
    links = [{"name": "l%d" % k, "bw": draw(st.sampled_from(BWS)), "lat": draw(st.sampled_from(LATS)),
              "policy": draw(st.sampled_from(POLICIES))} for k in range(npool)]

    def one_route():
        n = draw(st.integers(1, min(2, npool)))
        idx = draw(st.lists(st.integers(0, npool - 1), min_size=n, max_size=n, unique=True))
        names = []
        for k in idx:
            if links[k]["policy"] == "SPLITDUPLEX":
                names.append("l%d:%s" % (k, draw(st.sampled_from(["UP", "DOWN"]))))
            else:
                names.append("l%d" % k)
        return names
    routes = []
    for i in range(nh):
        for j in range(i + 1, nh):
            if draw(st.integers(0, 2)) < p_asym:
                routes.append({"src": "h%d" % i, "dst": "h%d" % j, "links": one_route(), "sym": False})
                routes.append({"src": "h%d" % j, "dst": "h%d" % i, "links": one_route(), "sym": False})
            else:
                routes.append({"src": "h%d" % i, "dst": "h%d" % j, "links": one_route(), "sym": True})
    used = set()
    for r in routes:
        used.update(n.split(":")[0] for n in r["links"])
    links = [l for l in links if l["name"] in used]
    return {"hosts": hosts, "links": links, "routes": routes}


@st.composite
def programs(draw, tier="quick"):
    cpu = draw(st.sampled_from(["Lazy", "Lazy", "Full", "TI"]))
    xt = draw(st.integers(0, 1))
    plat = draw(platforms(one_core=(cpu == "TI"), p_asym=2 if xt else 1))   # cross-traffic: the reverse route matters, make it differ often
    cfg = ["network/model:CM02", "network/crosstraffic:%d" % xt, "network/TCP-gamma:0", "cpu/optim:" + cpu,
           "network/optim:" + draw(st.sampled_from(["Lazy", "Lazy", "Full"]))]
    workers = [h["name"] for h in plat["hosts"] if h["name"] != INJ_HOST]
    disks = [d["name"] for h in plat["hosts"] for d in h.get("disks", [])]
    na = draw(st.integers(2, 3))
    actors = [{"name": "a%d" % k, "host": draw(st.sampled_from(workers)), "on_exit": 1, "ops": []} for k in range(na)]
    nmb = draw(st.integers(1, 2))
    pending = [[] for _ in range(na)]
    next_h = [0]
    objects = {"mailbox": nmb}
    for a in actors:
        if draw(st.integers(0, 3)) == 0:
            a["ops"].append(["sleep", draw(st.sampled_from(SLEEPS))])
    kinds = ["comm"] * 7 + ["exec", "sleep", "wait", "wait", "remote_exec", "remote_exec", "sendto"] + (["io"] * 2 if disks else []) + ["join", "mutex"]

    def new_handle():
        next_h[0] += 1
        return next_h[0]
    for _ in range(draw(st.integers(2, 5))):
        kind = draw(st.sampled_from(kinds))
        k = draw(st.integers(0, na - 1))
        ops = actors[k]["ops"]
        if kind == "comm":
            r = draw(st.integers(0, na - 2))
            if r >= k:
                r += 1
            mb = draw(st.integers(0, nmb - 1))
            size = draw(st.sampled_from(SIZES))
            ss = draw(st.sampled_from(["put", "put", "iput", "put_async", "put_async", "put_detach"]))
            rs = draw(st.sampled_from(["get", "get", "iget", "get_async", "get_async"]))
            if ss == "put_async":
                h = new_handle()
                ops.append(["put_async", mb, size, {}, h])
                pending[k].append(h)
            elif ss == "put_detach":
                ops.append(["put_detach", mb, size, {}])
            else:
                ops.append(["xput", mb, size, {"init_wait": ss == "iput"}])
            if rs == "get_async":
                h = new_handle()
                actors[r]["ops"].append(["get_async", mb, h, {}])
                pending[r].append(h)
            else:
                actors[r]["ops"].append(["xget", mb, {"init_wait": rs == "iget"}])
        elif kind in ("exec", "remote_exec"):
            opts = {}
            if kind == "remote_exec":
                opts["host"] = draw(st.sampled_from(workers))
            if draw(st.integers(0, 2)) == 0:
                h = new_handle()
                ops.append(["exec_async", draw(st.sampled_from(FLOPS)), opts, h])
                pending[k].append(h)
            else:
                ops.append(["exec", draw(st.sampled_from(FLOPS)), opts])
        elif kind == "io":
            d = draw(st.sampled_from(disks))
            if draw(st.integers(0, 2)) == 0:
                h = new_handle()
                ops.append(["io_async", d, draw(st.sampled_from(SIZES[:3])), draw(st.sampled_from(["read", "write"])), h, {}])
                pending[k].append(h)
            else:
                ops.append(["io", d, draw(st.sampled_from(SIZES[:3])), draw(st.sampled_from(["read", "write"])), {}])
        elif kind == "sleep":
            ops.append(["sleep", draw(st.sampled_from(SLEEPS))])
        elif kind == "sendto":
            # a host-to-host communication (Comm::sendto): the actor may sit on a third host
            src = draw(st.sampled_from(workers))
            dst = draw(st.sampled_from([w for w in workers if w != src]))
            if draw(st.integers(0, 2)) == 0:
                h = new_handle()
                ops.append(["sendto_async", src, dst, draw(st.sampled_from(SIZES[:4])), h])
                pending[k].append(h)
            else:
                ops.append(["sendto", src, dst, draw(st.sampled_from(SIZES[:4]))])
        elif kind == "wait":
            if len(pending[k]) >= 2 and draw(st.integers(0, 3)) > 0:
                ops.append(["wait_any", list(pending[k]), {}])          # the handles stay pending: waited again at the end
            elif pending[k]:
                h = pending[k].pop(draw(st.integers(0, len(pending[k]) - 1)))
                ops.append(["wait", h, {}])
            else:
                ops.append(["sleep", draw(st.sampled_from(SLEEPS))])
        elif kind == "join":
            r = draw(st.integers(0, na - 2))
            if r >= k:
                r += 1
            ops.append(["join", "a%d" % r])
        elif kind == "mutex":
            objects["mutex"] = [{"recursive": False}]
            ops.extend([["lock", 0], ["sleep", draw(st.sampled_from(SLEEPS))], ["unlock", 0]])
    for k in range(na):
        for h in pending[k]:
            actors[k]["ops"].append(["wait", h, {}])
    return {"cfg": cfg, "platform": plat, "objects": objects, "actors": actors}


@st.composite
def programs_with_pairs(draw):
    """thorough tier: a program plus the specification of 2-6 pairs (resolved against the logs at check time)"""
    case = draw(programs("thorough"))
    n = draw(st.integers(2, 6))
    case["pairs"] = [{"first": draw(st.integers(0, 10000)), "on": draw(st.booleans()), "res": draw(st.integers(0, 50)),
                      "date": draw(st.integers(0, 50)), "shift": draw(st.sampled_from([0, 0, 1, -1]))} for _ in range(n)]
    return case


# ------------------------------------------------------------------------------------------------ fault schedules
def resources(case):
    """[(kind, name, profile_capable)]: every host but the injector's, every link (a split-duplex link as a whole and each direction)"""
    res = []
    for h in case["platform"]["hosts"]:
        if h["name"] != INJ_HOST:
            res.append(("host", h["name"], True))
    for l in case["platform"].get("links", []):
        if l.get("policy") == "SPLITDUPLEX":
            res.append(("link", l["name"], False))
            res.append(("link", l["name"] + "_UP", False))
            res.append(("link", l["name"] + "_DOWN", False))
        else:
            res.append(("link", l["name"], True))
    return res


def event_dates(log):
    return sorted({T(l["t"]) for l in log.lines if "t" in l and l.get("k") not in ("done", "end", "s")})


def candidate_dates(dates):
    """D, just before / after every d in D, the midpoints: [(date, class)] with class 0 = exact event date, 1 = just before,
    2 = just after, 3 = midpoint; nothing after the last event (nothing runs any more)"""
    c = {}
    for d in dates:
        c[d] = 0
    last = dates[-1] if dates else 0.0
    for d in dates:
        for x, cl in ((d - EPS, 1), (d + EPS, 2)):
            if 0 < x < last and x not in c:
                c[x] = cl
    for a, b in zip(dates, dates[1:]):
        m = (a + b) / 2
        if m not in c:
            c[m] = 3
    return sorted(c.items())


def enumerate_faults(case, ref_log, cap=64):
    """every resource x every candidate date: both injection methods at the exact event dates, alternately elsewhere.  When that makes
    more than `cap` runs the classes of dates are dropped in the order midpoints, just after, just before (deterministic)."""
    dates = event_dates(ref_log)
    cands = candidate_dates(dates)
    res = resources(case)
    nprof = sum(1 for r in res if r[2])
    for keep in (3, 2, 1, 0):
        sel = [c for c in cands if c[1] <= keep]
        if len(sel) * len(res) + sum(1 for c in sel if c[1] == 0) * nprof <= cap or keep == 0:
            break
    out = []
    k = 0
    for kind, name, prof in res:
        for d, cl in sel:
            hows = ["actor", "profile"] if (cl == 0 and prof) else [("profile" if (k % 2 and prof) else "actor")]
            k += 1
            for how in hows:
                out.append([{"res": kind, "name": name, "date": d, "how": how, "on": False}])
    return out


def make_pair(case, f1, log1, spec):
    """the single fault f1 followed by a second switch chosen by `spec` among the event dates of the run under f1 alone: the same
    resource comes back on, or another resource fails.  None when no such pair exists."""
    dates = [d for d in event_dates(log1) if d >= f1["date"]]
    if not dates:
        return None
    d2 = dates[spec["date"] % len(dates)] + spec["shift"] * EPS
    if d2 < f1["date"]:
        d2 = f1["date"]
    if spec["on"]:
        if d2 == f1["date"]:
            d2 += EPS
        f2 = dict(f1, date=d2, on=True)
    else:
        others = [r for r in resources(case) if r[1] != f1["name"] and not (f1["name"].startswith(r[1] + "_") or r[1].startswith(f1["name"] + "_"))]
        if not others:
            return None
        kind, name, prof = others[spec["res"] % len(others)]
        f2 = {"res": kind, "name": name, "date": d2, "how": "actor", "on": False}
        if f1["how"] == "profile" and prof and d2 > f1["date"]:
            f2["how"] = "profile"
    if f1["how"] == "actor":
        f2["how"] = "actor"         # one injector, operations in date order
    elif f2["how"] == "actor":
        return [dict(f1), f2] if True else None
    return [dict(f1), f2]


def faulty(case, faults, sample=True):
    """the scenario of `case` under the fault schedule `faults` (dates non-decreasing): "actor" faults are the operations of ONE
    injector actor on INJ_HOST, "profile" faults become state profiles of their resource"""
    import copy
    sc = copy.deepcopy(case)
    sd = {l["name"] for l in case["platform"].get("links", []) if l.get("policy") == "SPLITDUPLEX"}
    inj = []
    profs = {}
    for f in faults:
        if f["how"] == "actor":
            inj.append(["sleep_until", f["date"]])
            if f["res"] == "link" and f["name"] in sd:
                inj.append(["turn_sd", f["name"], bool(f["on"])])
            else:
                inj.append(["turn_on" if f["on"] else "turn_off", f["res"], f["name"]])
        else:
            profs.setdefault((f["res"], f["name"]), []).append([f["date"], 1 if f["on"] else 0])
    for (kind, name), pts in profs.items():
        for o in sc["platform"]["hosts" if kind == "host" else "links"]:
            if o["name"] == name:
                o["state_profile"] = {"points": pts, "period": -1}
    if inj:
        sc["actors"] = sc["actors"] + [{"name": "inj", "host": INJ_HOST, "ops": inj}]
    if sample:
        sc["sample"] = {"remaining": True}
    return sc


def describe(faults):
    return " + ".join("%s %s %s at %r by %s" % (f["res"], f["name"], "on" if f["on"] else "OFF", f["date"], f["how"]) for f in faults)


# ------------------------------------------------------------------------------------------------ logical replay + invariants
class Act:
    """one activity: an execution, an I/O, or a communication (one object for the two matched posts)"""

    def __init__(self, kind, key):
        self.kind = kind
        self.key = key               # (actor, op index) of the operation that created it (comm: the first post)
        self.keys = [key]            # comm: both posts
        self.state = "running"       # waiting (unmatched comm) | running | done | failed | dropped (its owner died)
        self.uses = set()            # ("host", name) / ("link", resolved name)
        self.failed_at = None
        self.failed_n = None
        self.ended_at = None
        self.t_start = None
        self.lat = 0.0
        self.send = None             # comm: (actor, idx, detached)
        self.recv = None
        self.mb = None
        self.why = ""

    def __repr__(self):
        return "%s%s[%s]" % (self.kind, list(self.keys), self.state)


BLOCKING_COMM = ("xput", "xget")
SYNC_OPS = ("lock", "acquire", "barrier", "cv_wait")


class Replay:
    def __init__(self, case, log, ref=None, faults=None):
        self.case = case
        self.log = log
        # ref: the Replay of the reference run of the (last) switch, or the list of the references of every switch of the schedule
        # (refs[k] = the run under the first k switches only)
        self.refs = ref if isinstance(ref, list) else [ref]
        self.ref = self.refs[0]
        self.nswitch = 0
        self.faults = faults or []
        self.plat = Plat(case["platform"])
        self.xt = "network/crosstraffic:1" in case.get("cfg", [])
        self.disk_host = {d: v["host"] for d, v in self.plat.disks.items()}
        self.sd = {l["name"] for l in case["platform"].get("links", []) if l.get("policy") == "SPLITDUPLEX"}
        self.actors = {}             # name -> dict(host, alive, cur, dead_at, dead_n, finished)
        self.off = set()             # resources currently off: ("host", name) / ("link", resolved name)
        self.queues = {}             # mailbox -> list of unmatched posts (Act in state waiting), FIFO
        self.acts = {}               # (actor, idx) -> Act
        self.handles = {}            # handle -> Act
        self.oblig = {}              # (actor, idx) -> dict(date, exc, why)
        self.viol = []               # (sig, msg)
        self.labels = set()
        self.hit_with_waiter = False
        self.deadlock = None
        self.ends = {}               # key -> date at which the activity created by that operation ended (whatever the way)
        self.on_exits = {}           # actor -> [(failed, t, n)]
        self.actor_end = {}          # actor -> (t, n)
        self.last_n = {}             # actor -> n of its last req/ret/body_end record
        self.desync = None
        self.switches = []           # (kind, name, on, date) observed
        self.expect_adv = None
        self.overshoot = None
        self.overshoot_reported = False
        self.deferred = None         # requests printed after the injector's, served after the switch

    # ---- helpers
    def bad(self, sig, msg):
        self.viol.append((sig, msg))

    def host_of(self, actor):
        return self.actors[actor]["host"]

    def comm_uses(self, src, dst):
        u = {("host", src), ("host", dst)}
        if src != dst or self.plat.route(src, dst) is not None:
            for l in self.plat.route(src, dst) or []:
                u.add(("link", l))
            if self.xt:
                for l in self.plat.route(dst, src) or []:
                    u.add(("link", l))
        return u

    def resolve(self, kind, name):
        if kind == "link" and name in self.sd:
            return {("link", name + "_UP"), ("link", name + "_DOWN")}
        return {(kind, name)}

    def ref_end(self, act):
        """date at which the activity ended in the reference run (same program, without the fault that hit it), None if it did not"""
        ref = getattr(act, "ref", None) or self.ref
        if ref is None:
            return None
        best = None
        for k in act.keys:
            e = ref.ends.get(k)
            if e is not None and (best is None or e < best):
                best = e
        return best

    def tie(self, act, d):
        e = self.ref_end(act)
        return e is not None and abs(e - d) <= TOL * max(1.0, abs(d))

    def ended_before(self, act, d):
        e = self.ref_end(act)
        return e is not None and e < d - TOL * max(1.0, abs(d))

    def note_end(self, act, t):
        for k in act.keys:
            if k not in self.ends:
                self.ends[k] = t
        if act.ended_at is None:
            act.ended_at = t

    def concerned(self, actor, op, idx):
        """activities the (blocking) operation waits for"""
        o = op[0]
        if o in ("exec", "io") or o in BLOCKING_COMM or o == "sendto":
            a = self.acts.get((actor, idx))
            return [a] if a else []
        if o == "wait":
            a = self.handles.get(op[1])
            return [a] if a else []
        if o == "wait_any":
            return [self.handles[h] for h in op[1] if h in self.handles]
        return []

    # ---- the replay
    def run(self):
        for l in self.log.lines:
            k = l.get("k")
            f = getattr(self, "on_" + k, None) if k else None
            if f:
                f(l)
        self.finish()
        return self

    def on_actor_new(self, l):
        self.actors[l["a"]] = dict(host=l["host"], alive=True, cur=None, dead_at=None, dead_n=None, finished=False, t_req=None)

    def on_body_end(self, l):
        a = self.actors[l["a"]]
        a["finished"] = True
        a["alive"] = False
        self.last_n[l["a"]] = l["n"]

    def on_on_exit(self, l):
        self.on_exits.setdefault(l["a"], []).append((l["failed"], T(l["t"]), l["n"]))

    def on_actor_end(self, l):
        self.actor_end[l["a"]] = (T(l["t"]), l["n"])
        a = self.actors.get(l["a"])
        if a is not None:
            if a["alive"] and not a["finished"] and a["dead_at"] is None and self.deadlock is None:
                a["alive"] = False
                self.drop_posts(l["a"])
                for act in list(self.acts.values()):    # the communications it takes part in fail: its peers are told
                    if act.kind == "comm" and act.state == "running" and l["a"] in (act.send[0], act.recv[0]):
                        self.fail(act, T(l["t"]), l["n"], "its participant %s was killed" % l["a"])     # killed for another reason (reported elsewhere): its pending posts leave the mailboxes too
            a["alive"] = False

    def drop_posts(self, an):
        """the unmatched, non-detached posts of a dead actor leave their mailbox; its other running activities are cancelled"""
        for mb, q in self.queues.items():
            for act in list(q):
                own = act.send if act.send is not None else act.recv
                if own[0] == an and not (act.send is not None and act.send[2]):
                    q.remove(act)
                    act.state = "dropped"
        for key, act in self.acts.items():
            if key[0] == an and act.state == "running" and act.kind != "comm":
                act.state = "dropped"

    def on_adv(self, l):
        if self.expect_adv is not None:
            if T(l["t"]) != self.expect_adv and not self.overshoot:
                self.overshoot = (self.expect_adv, T(l["t"]))      # reported only when something observable happens late because of it
            self.expect_adv = None

    def late_by_overshoot(self, what):
        if not self.overshoot_reported:
            self.overshoot_reported = True
            self.bad("state-profile-event-does-not-stop-the-clock", "a state profile turned a resource off at %r but the clock went on to %r in the same step, and the "
                     "consequences of the failure take place at that later date: %s" % (self.overshoot[0], self.overshoot[1], what))

    def on_deadlock(self, l):
        self.deadlock = l

    def on_act_end(self, l):
        name = l.get("name", "")
        if "#" in name:
            a, i = name.rsplit("#", 1)
            act = self.acts.get((a, int(i)))
            # a completion has a finish date; the record of a communication that is being failed (e.g. by the kill of a victim, printed before
            # the onoff record of its host) has none
            if act is not None and act.kind == "comm" and T(l.get("finish", "-0x1p+0")) >= 0:
                self.note_end(act, T(l["t"]))

    def on_s(self, l):
        for h, (rem, state) in (l.get("rem") or {}).items():
            act = self.handles.get(int(h))
            if act is not None and act.kind in ("exec", "io") and act.ended_at is None and T(rem) == 0.0:
                self.note_end(act, T(l["t"]))

    def start_act(self, act, t, n):
        """the activity starts now: it fails at once when it uses a resource that is off"""
        act.state = "running"
        act.t_start = t
        bad = act.uses & self.off
        if bad:
            self.fail(act, t, n, "started while %s is off" % sorted(bad))

    def fail(self, act, t, n, why):
        if act.failed_at is None:
            act.failed_at = t
            act.failed_n = n
            act.why = why
            act.ref = self.ref
        act.state = "failed"
        self.note_end(act, t)
        # every live actor currently blocked on it must be told now
        for name, a in self.actors.items():
            if a["alive"] and a["cur"] is not None:
                idx, op = a["cur"]
                if act in self.concerned(name, op, idx) and (name, idx) not in self.oblig:
                    self.oblig[(name, idx)] = dict(date=t, exc=FAIL_OF[act.kind], why="%r failed (%s)" % (act, why), act=act)
                    self.hit_with_waiter = True
                    self.labels.add("waiter:" + op[0])

    def post(self, actor, idx, mb, side, detached, t, n):
        q = self.queues.setdefault(mb, [])
        if q and ((side == "send") != (q[0].send is not None)):
            act = q.pop(0)
            act.keys.append((actor, idx))
            self.labels.add("comm-matched")
        else:
            act = Act("comm", (actor, idx))
            act.state = "waiting"
            act.mb = mb
            q.append(act)
        self.acts[(actor, idx)] = act
        if side == "send":
            act.send = (actor, idx, detached)
        else:
            act.recv = (actor, idx)
        if act.send is not None and act.recv is not None:
            sa, ra = self.actors[act.send[0]], self.actors[act.recv[0]]
            act.uses = self.comm_uses(sa["host"], ra["host"])
            act.src, act.dst = sa["host"], ra["host"]
            if self.plat.route(sa["host"], ra["host"]) is not None:
                act.lat = self.plat.latency(sa["host"], ra["host"])
            if sa["dead_at"] is not None:
                self.labels.add("matched-with-dead-detached-sender")
            self.start_act(act, t, n)
        return act

    def on_req(self, l):
        name, idx, op, t, n = l["a"], l["i"], l["op"], T(l["t"]), l["n"]
        self.last_n[name] = n
        if name == "inj":
                # the kernel serves the requests of a scheduling round after all its actors ran, in the order of the req lines: the
            # requests printed between this line and the onoff record are served AFTER the switch, while the returns printed in
            # between were decided before it
            if op[0] in ("turn_off", "turn_on", "turn_sd"):
                self.deferred = []
            return
        a = self.actors[name]
        a["cur"] = (idx, op)
        a["t_req"] = t
        if self.deferred is not None:
            self.deferred.append(l)
            return
        self.serve(l)

    def flush(self):
        q, self.deferred = self.deferred, None
        for l in q or []:
            self.serve(l)

    def serve(self, l):
        """the kernel serves the request of line l"""
        name, idx, op, t, n = l["a"], l["i"], l["op"], T(l["t"]), l["n"]
        a = self.actors[name]
        if a["dead_at"] is not None:
            return                  # printed before the kernel served the injector's request; never served
        o = op[0]
        if o in ("exec", "exec_async"):
            act = Act("exec", (name, idx))
            host = op[2].get("host", a["host"]) if len(op) > 2 and isinstance(op[2], dict) else a["host"]
            act.uses = {("host", host)}
            act.remote = host != a["host"]
            self.acts[(name, idx)] = act
            if o == "exec_async":
                self.handles[op[3]] = act
            self.start_act(act, t, n)
        elif o in ("io", "io_async"):
            act = Act("io", (name, idx))
            act.uses = {("host", self.disk_host[op[1]])}
            act.remote = self.disk_host[op[1]] != a["host"]
            self.acts[(name, idx)] = act
            if o == "io_async":
                self.handles[op[4]] = act
            self.start_act(act, t, n)
        elif o in ("sendto", "sendto_async"):
            act = Act("comm", (name, idx))
            act.send, act.recv = (name, idx, False), (name, idx)
            act.src, act.dst = op[1], op[2]
            act.uses = self.comm_uses(op[1], op[2])
            if self.plat.route(op[1], op[2]) is not None:
                act.lat = self.plat.latency(op[1], op[2])
            act.third_party = a["host"] not in (op[1], op[2])
            self.acts[(name, idx)] = act
            if o == "sendto_async":
                self.handles[op[4]] = act
            self.labels.add("sendto" + (":third-party" if act.third_party else ""))
            self.start_act(act, t, n)
        elif o in ("xput", "put_async", "put_detach"):
            act = self.post(name, idx, op[1], "send", o == "put_detach", t, n)
            if o == "put_async":
                self.handles[op[4]] = act
        elif o in ("xget", "get_async"):
            act = self.post(name, idx, op[1], "recv", False, t, n)
            if o == "get_async":
                self.handles[op[2]] = act
        elif o in ("wait", "wait_any"):
            # waiting for something that failed earlier: the failure must be reported at once
            failed = [x for x in self.concerned(name, op, idx) if x.failed_at is not None]
            if failed and (name, idx) not in self.oblig:
                first = min(failed, key=lambda x: x.failed_at)
                self.oblig[(name, idx)] = dict(date=t, exc=FAIL_OF[first.kind], why="waits for %r, which failed at %r (%s)" % (first, first.failed_at, first.why),
                                               act=first, late_wait=True)
                self.labels.add("wait-after-failure")

    def on_ret(self, l):
        name, idx, t, n = l["a"], l["i"], T(l["t"]), l["n"]
        self.last_n[name] = n
        if name == "inj":
            if self.deferred is not None:
                self.flush()        # the switch had no effect (resource already in that state)
            return
        a = self.actors[name]
        if a["cur"] is None or a["cur"][0] != idx:
            self.desync = "ret without req: %r" % l
            return
        op = a["cur"][1]
        a["cur"] = None
        acts = self.concerned(name, op, idx)
        ob = self.oblig.get((name, idx))
        if ob is not None:
            ob["met"] = True
        what = "%s#%d %s" % (name, idx, op)
        if "exc" in l:
            exc = l["exc"]
            if exc not in FAILS:
                self.bad("unexpected-exception:" + exc.split(":")[0], "%s ended with %s at %r" % (what, exc, t))
                return
            just = [x for x in acts if x.failed_at is not None and FAIL_OF[x.kind] == exc]
            if not just:
                wrong = [x for x in acts if x.failed_at is not None]
                if wrong:
                    self.bad("wrong-exception-type", "%s got %s at %r for %r" % (what, exc, t, wrong[0]))
                elif acts and all(x.state == "done" and (x.uses & self.off) for x in acts):
                    self.bad("failure-exception-after-completion:" + acts[0].kind, "%s got %s at %r although %r had completed at %r, before %s was turned off"
                             % (what, exc, t, acts[0], acts[0].ended_at, sorted(acts[0].uses & self.off)))
                else:
                    self.bad("unjustified-failure-exception:" + exc, "%s got %s at %r although none of %r uses a failed resource (off: %s)"
                             % (what, exc, t, acts, sorted(self.off)))
                return
            want = max(a["t_req"], min(x.failed_at for x in just))
            if t > want and self.overshoot:
                self.late_by_overshoot("%s got %s at %r instead of %r" % (what, exc, t, want))
            elif t != want:
                kind = "late" if t > want else "early"
                x = just[0]
                detail = ":detached-send" if (x.kind == "comm" and x.send and x.send[2]) else ""
                if x.kind == "exec" and "cpu/optim:TI" in self.case.get("cfg", []):
                    detail = ":cpu-TI"
                self.bad("failure-reported-%s:%s%s" % (kind, x.kind, detail), "%s got %s at %r, expected at %r: %r failed at %r (%s)"
                         % (what, exc, t, want, x, x.failed_at, x.why))
            if op[0] != "wait_any":
                for x in just:
                    x.reported = True
            return
        # normal return
        o = op[0]
        if o == "wait_any":
            r = l.get("r")
            won = self.handles.get(r["h"]) if isinstance(r, dict) else None
            acts_ok = [won] if won is not None else []
            if ob is not None and not ob.get("late_wait") and t > ob["date"] and not self.tie(ob["act"], ob["date"]):
                self.bad("failure-not-reported:wait_any", "%s returned %r at %r although %s at %r" % (what, r, t, ob["why"], ob["date"]))
        else:
            acts_ok = acts
        for x in acts_ok:
            if x.failed_at is not None:
                if self.tie(x, x.failed_at):
                    self.labels.add("tie:completes-at-the-failure-date")
                else:
                    detail = ":detached-send" if (x.kind == "comm" and x.send and x.send[2]) else ""
                    self.bad("failure-not-reported:%s%s" % (x.kind, detail), "%s returned normally at %r although %r failed at %r (%s); natural end in the reference run: %r"
                             % (what, t, x, x.failed_at, x.why, self.ref_end(x)))
            else:
                x.state = "done"
                self.note_end(x, t)
        if o == "join" and ob is not None and t > ob["date"] and self.overshoot:
            self.late_by_overshoot("%s returned at %r" % (what, t))
        elif o == "join" and ob is not None and t != ob["date"]:
            self.bad("join-returns-late", "%s returned at %r, its target died at %r" % (what, t, ob["date"]))

    def on_onoff(self, l):
        kind, name, on, t, n = l["res"], l["name"], l["on"], T(l["t"]), l["n"]
        self.switch(kind, name, on, t, n)
        if self.deferred is not None:
            self.flush()
        else:
            self.expect_adv = t     # a state profile event: the clock must stop at its date

    def switch(self, kind, name, on, t, n):
        rs = self.resolve(kind, name)
        if not self.switches or self.switches[-1][3] != t or self.switches[-1][4] != n:
            self.ref = self.refs[min(self.nswitch, len(self.refs) - 1)]
            self.nswitch += 1
        self.switches.append((kind, name, on, t, n))
        if on:
            self.off -= rs
            return
        new = rs - self.off
        self.off |= rs
        if not new:
            return
        self.fail_t, self.fail_n = t, n
        # actors of a failed host die
        dead = []
        if kind == "host":
            for an, a in self.actors.items():
                if a["host"] == name and a["alive"] and not a["finished"]:
                    a["alive"] = False
                    a["dead_at"], a["dead_n"] = t, n
                    dead.append(an)
                    self.labels.add("killed-while:" + (a["cur"][1][0] if a["cur"] else "running"))
        # activities that use the resource fail
        hit = 0
        for act in list(self.acts.values()):
            if act.state == "running" and act.failed_at is None and (act.uses & new):
                if (act.ended_at is not None and act.ended_at <= t) or self.ended_before(act, t):
                    act.state = "done"      # it completed before the switch (seen in this very log: act_end record, remaining == 0 sample)
                    continue
                hit += 1
                if act.kind == "comm":
                    phase = "latency" if (act.t_start is not None and t < act.t_start + act.lat) else "transfer"
                    only_back = False
                    if kind == "link" and self.plat.route(act.src, act.dst) is not None:
                        only_back = not ({x[1] for x in new} & set(self.plat.route(act.src, act.dst)))
                    self.labels.add("hit:comm-%s-phase" % phase)
                    if only_back:
                        self.labels.add("hit:comm-by-reverse-route-link-only")
                    if act.send and act.send[2]:
                        self.labels.add("hit:detached-comm")
                else:
                    self.labels.add("hit:%s%s" % (act.kind, "-remote" if getattr(act, "remote", False) else ""))
                if self.tie(act, t):
                    self.labels.add("fault-at-natural-end-date")
                self.fail(act, t, n, "%s %s turned off" % (kind, name))
        if hit == 0:
            self.labels.add("fault-hits-nothing")
        for an in dead:
            a = self.actors[an]
            self.drop_posts(an)
            # joiners wake up
            for bn, b in self.actors.items():
                if b["alive"] and b["cur"] is not None and b["cur"][1][0] == "join" and b["cur"][1][1] == an:
                    self.oblig[(bn, b["cur"][0])] = dict(date=t, exc=None, why="its target %s died" % an, act=None)
                    self.labels.add("waiter:join")

    def finish(self):
        if self.desync:
            return
        end_n = min([l["n"] for l in self.log.lines if l.get("k") in ("deadlock", "end")] or [1 << 60])   # the final clean-up kills everybody
        body_end = {l["a"] for l in self.log.lines if l.get("k") == "body_end"}
        how = ":by-" + self.faults[-1]["how"] if self.faults else ""
        nexit = {a["name"]: a.get("on_exit", 0) for a in self.case["actors"]}
        # I2: the actors of a failed host are killed at the date of the failure, their on_exit callbacks see failed=true
        not_killed = set()
        for an, a in self.actors.items():
            if a["dead_at"] is None:
                continue
            d, n = a["dead_at"], a["dead_n"]
            end = self.actor_end.get(an)
            if end is None or end[1] > end_n:
                not_killed.add(an)
                self.bad("actor-on-failed-host-not-killed", "%s (on host %s, turned off at %r while it was in %s) is not terminated: no on_exit, no termination before "
                         "the end of the simulation" % (an, a["host"], d, a["cur"][1] if a["cur"] else "its body"))
                continue
            if self.last_n.get(an, -1) > n:
                self.bad("dead-actor-goes-on", "%s (on the failed host %s, off at %r) still logged an operation afterwards (line %d > %d)"
                         % (an, a["host"], d, self.last_n[an], n))
            exits = self.on_exits.get(an, [])
            if len(exits) != nexit.get(an, 0):
                self.bad("on_exit-count", "%s died with its host at %r: %d on_exit callbacks ran, %d registered" % (an, d, len(exits), nexit.get(an, 0)))
            for failed, t, _ in exits:
                if not failed:
                    self.bad("on_exit-not-failed", "%s died with its host at %r but on_exit saw failed=false" % (an, d))
            dates = [t for _, t, _ in exits] + [end[0]]
            if any(t != d for t in dates) and self.overshoot and all(t >= d for t in dates):
                self.late_by_overshoot("%s (host %s) terminated at %r" % (an, a["host"], sorted(set(dates))))
            elif any(t != d for t in dates):
                self.bad("kill-at-wrong-date" + how, "%s: host %s was turned off at %r, on_exit / termination at %r" % (an, a["host"], d, sorted(set(dates))))
        # a survivor must get an exception, not be killed
        killed = set()
        for an, a in self.actors.items():
            if a["dead_at"] is None and an not in body_end and an in self.actor_end and self.actor_end[an][1] < end_n:
                killed.add(an)
                ob = self.oblig.get((an, a["cur"][0])) if a["cur"] else None
                kind = ob["act"].kind if ob and ob.get("act") else "?"
                self.bad("survivor-killed-instead-of-exception:" + kind, "%s (host %s, which did not fail) was killed at %r while in %s%s"
                         % (an, a["host"], self.actor_end[an][0], a["cur"][1] if a["cur"] else "its body", (": " + ob["why"]) if ob else ""))
        # I1: every obligation was met (the date and the type were checked when the operation returned)
        for (an, idx), ob in self.oblig.items():
            a = self.actors[an]
            if ob.get("met") or a["dead_at"] is not None or killed:
                continue            # (a killed survivor is reported above; what follows from its death is not modelled in the right order)
            self.bad("blocked-forever-on-failed-activity" + (":%s" % ob["act"].kind if ob.get("act") else ":join"),
                     "%s#%d never returned although %s at %r" % (an, idx, ob["why"], ob["date"]))
        # I4: who is blocked at the end
        if self.deadlock is not None:
            self.labels.add("deadlock")
            blocked = {b["a"] for b in self.deadlock["blocked"]}
            for an in sorted(blocked):
                a = self.actors.get(an)
                if a is None or a["cur"] is None or an in not_killed or killed:
                    continue
                idx, op = a["cur"]
                o = op[0]
                if (an, idx) in self.oblig:
                    continue        # reported above
                if o in SYNC_OPS:
                    continue
                if o == "join":
                    if op[1] in blocked and op[1] not in not_killed:
                        continue
                    if op[1] in not_killed:
                        continue    # consequence of the other defect
                    self.bad("blocked-forever:join", "%s#%d %s is blocked at the end but its target is not" % (an, idx, op))
                    continue
                acts = self.concerned(an, op, idx)
                if acts and all(x.state == "waiting" for x in acts):
                    continue        # unmatched communications: nobody will ever come
                if o == "wait_any" and any(x.state == "waiting" for x in acts) and not any(x.state in ("running", "failed") for x in acts):
                    continue
                inv = [x for x in acts if x.uses & self.off]
                self.bad("blocked-forever" + (":on-failed-resource" if inv else ":no-failed-resource"),
                         "%s#%d %s is blocked at the end of the run on %r (off: %s)" % (an, idx, op, acts, sorted(self.off)))


def check_one(case, faults, ref):
    """run `case` under `faults`; returns (Replay or None, violations [(sig, msg)], log)"""
    log = run(faulty(case, faults))
    if log.wall_exceeded:
        raise core.Inconclusive()
    if not log.done:
        return None, [(crash_sig(log), "under the schedule [%s] the run did not finish: %s" % (describe(faults), log.crash_text()))], log
    rp = Replay(case, log, ref, faults).run()
    if rp.desync:
        return rp, [("harness-desync", rp.desync)], log
    for f in faults:
        names = {x[1] for x in rp.resolve(f["res"], f["name"])}
        seen = [s for s in rp.switches if s[0] == f["res"] and s[1] in names and s[2] == f["on"]]
        if not seen:
            t_end = max([T(l["t"]) for l in log.lines if l.get("k") in ("end", "deadlock")] or [0.0])
            if f["how"] == "profile" and t_end <= f["date"]:
                # the simulation was over (everybody blocked) when the clock reached the date of the event: pending profile events do not keep a
                # simulation alive (EngineImpl::solve, documented there by a FIXME); nothing to check in this run
                rp.labels.add("profile-event-after-the-end")
                return rp, [], log
            return rp, [("harness-fault-not-injected", "the switch %s was not observed in the log" % describe([f]))], log
    pre = "under the schedule [%s]: " % describe(faults)
    return rp, [(s, pre + m) for s, m in rp.viol], log
