"""Shared generator, runner and oracles for the LMM properties C15-C18.

History format (see drivers/lmm_driver.cpp):
  {"solver": "maxmin|fairbottleneck|bmf", "selective": bool, "debug": bool, "fresh": bool, "ops": [...]}
  ops: ["cnst", bound, policy(1 shared|0 fatpipe|2 nonlinear), cbkind, limit], ["var", penalty, bound, capacity],
       ["expand", c, v, w], ["reexpand", v, k, w] (the k-th resource that v already uses, again), ["vbound", v, b], ["vpen", v, p], ["cbound", c, b], ["free", v], ["jump", k], ["solve"]
  indices are taken modulo the number of live objects, so every list is a valid history and shrinks well.
"""
import json
import math
import os
from fractions import Fraction

from hypothesis import strategies as st

from . import build, core

PREC = 1e-5   # precision/work-amount default

MAX_CNST = 12
MAX_VAR = 20
MAX_OPS = 60


def dyad(lo, hi, den=64):
    return st.integers(int(lo * den), int(hi * den)).map(lambda k: k / den)


def cb_apply(kind, cap, n):
    n = max(n, 1)
    if kind == 0:
        return cap / math.sqrt(float(n))
    if kind == 1:
        return cap * (0.5 + 0.5 / n)
    return cap * 0.75 if n > 2 else cap


@st.composite
def histories(draw, solvers=("maxmin",), selective=None, limits="some", policies="all", jumps=False, nonlinear=True,
              max_ops=MAX_OPS):
    solver = draw(st.sampled_from(solvers))
    sel = draw(st.booleans()) if selective is None else selective
    bound_c = st.one_of(st.sampled_from([1.0, 2.0, 10.0, 100.0, 1000.0]), dyad(0.5, 1000), dyad(1, 64, 1))
    if limits == "none":
        lim = st.just(-1)
    elif limits == "tight":
        lim = st.sampled_from([1, 1, 1, 2])
    elif limits == "many":
        lim = st.sampled_from([-1, 1, 1, 2, 2, 3, 4])
    else:
        lim = st.sampled_from([-1, -1, -1, -1, 1, 2, 3, 4])
    if policies == "shared":
        pol = st.just(1)
    else:
        pol = st.sampled_from([1, 1, 1, 0, 2] if nonlinear else [1, 1, 1, 0])
    weight = st.one_of(st.sampled_from([1.0, 1.0, 1.0, 0.05, 0.5, 1.05, 2.0, 3.0, 0.0]), dyad(0.0625, 4, 16))
    penalty = st.one_of(st.sampled_from([1.0, 1.0, 2.0, 0.5, 3.0, 0.25, 4.0]), dyad(0.125, 8, 8))
    penalty0 = st.one_of(st.just(0.0), penalty, penalty)
    vbound = st.one_of(st.just(-1.0), st.just(-1.0), dyad(0.125, 200, 8), st.sampled_from([1.0, 2.0, 5.0]))
    idx = st.integers(0, 63)
    cn = st.tuples(st.just("cnst"), bound_c, pol, st.integers(0, 2), lim)
    vr = st.tuples(st.just("var"), penalty0, vbound, st.integers(1, 4))
    ex = st.tuples(st.just("expand"), idx, idx, weight)
    # an activity declares its resources when it is created: a "burst" is a variable followed by its expands (v = -1: the
    # variable created last); free-standing expands only reach variables created since the last solve (the driver skips others)
    exl = st.tuples(st.just("expand"), idx, st.just(-1), weight)
    # inside a burst the same resource is often declared several times (as cross-traffic does: 1.0 then 0.05; or parallel tasks),
    # with weights below and above 1 (only elements of weight >= 1 count towards a concurrency limit): the repeated declarations
    # reuse the element, in the middle of the variable's element list
    few = st.lists(idx, min_size=1, max_size=3)
    wsmall = st.sampled_from([0.25, 0.5, 0.75, 1.0, 1.0, 0.05, 0.5, 2.0])
    burst_plain = st.tuples(vr, st.lists(exl, min_size=1, max_size=4)).map(lambda t: ("burst", [t[0]] + t[1]))
    burst_reuse = st.tuples(vr, few, st.lists(st.tuples(st.integers(0, 2), wsmall), min_size=2, max_size=6)).map(
        lambda t: ("burst", [t[0]] + [("expand", t[1][k % len(t[1])], -1, w) for k, w in t[2]]))
    burst = st.one_of(burst_plain, burst_reuse)
    rex = st.tuples(st.just("reexpand"), idx, idx, wsmall)
    ops = [cn, burst, burst, burst, vr, ex, ex, rex, rex,
           st.tuples(st.just("vbound"), idx, vbound),
           st.tuples(st.just("vpen"), idx, penalty0),
           st.tuples(st.just("vpen"), idx, st.just(0.0)),
           st.tuples(st.just("cbound"), idx, bound_c),
           st.tuples(st.just("free"), idx),
           st.just(("solve",)), st.just(("solve",))]
    if jumps:
        ops.append(st.tuples(st.just("jump"), st.integers(0, 4)))
    # a constructed prefix guarantees a non-empty system; the rest is free
    if limits == "tight":
        # few resources with one or two slots each and many small activities: resources are full most of the time, activities
        # are staged and un-staged by every change; no further resource is created
        nc0 = draw(st.integers(2, 3))
        pre = [draw(cn) for _ in range(nc0)]
        ops = [o for o in ops if o is not cn] + [burst, burst, rex, rex]
        rest = draw(st.lists(st.one_of(*ops), min_size=4, max_size=max_ops - len(pre) - 1))
    else:
        nc0 = draw(st.integers(1, 4))
        nv0 = draw(st.integers(1, 6))
        pre = [draw(cn) for _ in range(nc0)] + [draw(vr) for _ in range(nv0)]
        pre += [draw(ex) for _ in range(draw(st.integers(1, 10)))]
        rest = draw(st.lists(st.one_of(*ops), min_size=0, max_size=max_ops - len(pre) - 1))
    flat = []
    for o in pre + rest:
        if o[0] == "burst":
            flat.extend(o[1])
        else:
            flat.append(o)
    allops = [list(o) for o in flat][:max_ops - 1] + [["solve"]]
    # enforce the stated size limits by construction
    out, ncn, nva = [], 0, 0
    for o in allops:
        if o[0] == "cnst":
            if ncn >= MAX_CNST:
                continue
            ncn += 1
        elif o[0] == "var":
            if nva >= MAX_VAR:
                continue
            nva += 1
        elif o[0] == "free" and nva > 0:
            nva -= 1
        out.append(o)
    return {"solver": solver, "selective": sel, "ops": out}


def run_history(h, debug=False, fresh=False):
    hh = dict(h)
    hh["debug"] = debug
    hh["fresh"] = fresh
    r = core.serve("lmm_driver", hh, cpu=5, wall=60)
    return r


def parse(r):
    lines = r.json_lines()
    done = bool(lines) and lines[-1].get("done") is True
    steps = [l for l in lines if "st" in l]
    for s in steps:
        for v in s["st"]["var"]:
            v["wmax"] = {e[0]: e[2] for e in v["elems"]}
            v["elems"] = [[e[0], e[1]] for e in v["elems"]]
    return steps, done


# ---------------------------------------------------------------------------------------------
# helpers over one dumped state

def enabled(v):
    return v["sg_pen"] > 0


def consuming(v):
    return any(w > 0 for _, w in v["elems"])


def eff_capacity(c, st_, ci):
    if c["policy"] == 2:
        n = 0
        for v in st_["var"]:
            if enabled(v):
                for cj, w in v["elems"]:
                    if cj == ci and w >= 1:
                        n += 1
        return cb_apply(c["cb"], c["bound"], n)
    return c["bound"]


def usage(st_, ci, c):
    tot = 0.0
    mx = 0.0
    slack = 0.0
    for v in st_["var"]:
        if not enabled(v):
            continue
        for cj, w in v["elems"]:
            if cj == ci and w > 0:
                tot += w * v["value"]
                mx = max(mx, w * v["value"])
                slack += w / v["sg_pen"]
    return (mx if c["policy"] == 0 else tot), slack


def bmf_class(st_):
    """Root-cause class of an invalid BMF allocation: the solver works on penalty-scaled consumptions (maxA = weight x penalty)
    but compares them with the real bounds and with the capacity of non-shared (fat-pipe) resources, so any system whose
    penalties differ from 1 is the known weak spot (a bounded variable above its bound, a fat-pipe above its capacity)."""
    act = [u for u in st_["var"] if enabled(u) and consuming(u)]
    pens = {u["sg_pen"] for u in act}
    return "non-unit-penalties" if pens != {1.0} else "unit-penalties"


def check_capacity(st_, solver, oc, where):
    """C15: capacities, zero rate for disabled, 0 <= rate <= bound."""
    for ci, c in enumerate(st_["cnst"]):
        cap = eff_capacity(c, st_, ci)
        u, sl = usage(st_, ci, c)
        tol = PREC * cap + PREC * sl + 1e-9 * cap + 1e-9
        if u > cap + tol:
            kind = {0: "fatpipe", 1: "shared", 2: "nonlinear"}[c["policy"]]
            sig = "capacity-exceeded:%s:%s" % (solver, kind)
            if solver == "bmf":
                sig = "bmf-invalid-allocation:" + bmf_class(st_)
            oc.bad(sig,
                   "%s: constraint %d (%s, capacity %r, effective %r) carries %r" % (where, ci, kind, c["bound"], cap, u))
    for v in st_["var"]:
        if v["penalty"] <= 0 and v["value"] != 0:
            oc.bad("suspended-has-rate:%s" % solver, "%s: variable uid %d was suspended (penalty 0) but has rate %r"
                   % (where, v["uid"], v["value"]))
        if not enabled(v) and v["value"] != 0 and v["penalty"] > 0:
            oc.bad("staged-has-rate:%s" % solver, "%s: variable uid %d is staged/disabled but has rate %r" % (where, v["uid"], v["value"]))
        if enabled(v) and consuming(v) and connected(v):
            if v["value"] < 0 or not math.isfinite(v["value"]):
                oc.bad("negative-rate:%s" % solver, "%s: variable uid %d has rate %r" % (where, v["uid"], v["value"]))
            if v["bound"] > 0 and v["value"] > v["bound"] * (1 + PREC) + 1e-12:
                sig = "bound-exceeded:%s" % solver
                if solver == "bmf":
                    sig = "bmf-invalid-allocation:" + bmf_class(st_)
                oc.bad(sig, "%s: variable uid %d has rate %r above its bound %r"
                       % (where, v["uid"], v["value"], v["bound"]))


def connected(v):
    return len(v["elems"]) > 0


def check_fair_maxmin(st_, oc, where):
    """C16(a): every enabled consuming variable below its bound has a saturated constraint where its
    penalty-weighted rate is maximal."""
    n_levels = set()
    for vi, v in enumerate(st_["var"]):
        if not (enabled(v) and consuming(v)):
            continue
        n_levels.add(round(v["value"] * v["sg_pen"], 9))
        if v["bound"] > 0 and v["value"] >= v["bound"] * (1 - 2 * PREC) - 1e-9:
            continue
        ok = False
        why = []
        for ci, w in v["elems"]:
            if w <= 0:
                continue
            c = st_["cnst"][ci]
            cap = eff_capacity(c, st_, ci)
            u, sl = usage(st_, ci, c)
            sat = u >= cap * (1 - 4 * PREC) - PREC * sl - 1e-9
            mine = v["value"] * v["sg_pen"]
            best = 0.0
            for u_ in st_["var"]:
                if enabled(u_) and any(cj == ci and w2 > 0 for cj, w2 in u_["elems"]):
                    best = max(best, u_["value"] * u_["sg_pen"])
            top = mine >= best * (1 - 1e-6) - 1e-9 - PREC * 4
            if sat and top:
                ok = True
                break
            why.append("c%d: saturated=%s (usage %r of %r) top=%s (mine %r best %r)" % (ci, sat, u, cap, top, mine, best))
        if not ok:
            oc.bad("maxmin-unfair", "%s: variable uid %d (rate %r, bound %r) has no saturated bottleneck where it is the largest: %s"
                   % (where, v["uid"], v["value"], v["bound"], "; ".join(why)))
    return len(n_levels)


def exact_maxmin(st_):
    """Exact weighted max-min (progressive filling) on a shared-only system; returns {var index: Fraction} or None
    if the system is outside the domain where the allocation is unique and decided exactly here."""
    F = Fraction
    cn = st_["cnst"]
    if any(c["policy"] != 1 for c in cn):
        return None
    vs = {}
    for vi, v in enumerate(st_["var"]):
        if enabled(v) and consuming(v):
            vs[vi] = dict(pen=F(v["sg_pen"]), bound=(F(v["bound"]) if v["bound"] > 0 else None),
                          el=[(ci, F(w)) for ci, w in v["elems"] if w > 0])
    rem = {ci: F(c["bound"]) for ci, c in enumerate(cn)}
    rho = {}
    unfixed = set(vs)
    while unfixed:
        # level lambda = common value of rho*pen reached next
        lam = None
        for ci in rem:
            den = sum(w / vs[vi]["pen"] for vi in unfixed for cj, w in vs[vi]["el"] if cj == ci)
            if den > 0:
                s = rem[ci] / den
                if lam is None or s < lam:
                    lam = s
        for vi in unfixed:
            b = vs[vi]["bound"]
            if b is not None:
                s = b * vs[vi]["pen"]
                if lam is None or s < lam:
                    lam = s
        if lam is None:
            return None     # some variable is constrained by nothing
        newly = set()
        for vi in unfixed:
            b = vs[vi]["bound"]
            if b is not None and b * vs[vi]["pen"] == lam:
                newly.add(vi)
        for ci in rem:
            den = sum(w / vs[vi]["pen"] for vi in unfixed for cj, w in vs[vi]["el"] if cj == ci)
            if den > 0 and rem[ci] / den == lam:
                for vi in unfixed:
                    if any(cj == ci for cj, w in vs[vi]["el"]):
                        newly.add(vi)
        for vi in newly:
            rho[vi] = lam / vs[vi]["pen"]
            for cj, w in vs[vi]["el"]:
                rem[cj] -= w * rho[vi]
        unfixed -= newly
    return rho


def check_exact(st_, oc, where):
    rho = exact_maxmin(st_)
    if rho is None:
        return None
    worst = 0.0
    for vi, r in rho.items():
        v = st_["var"][vi]
        ex = float(r)
        # what the solver's own clamps may legally eat: a constraint left with less than PREC*capacity is closed
        slackabs = 0.0
        for ci, w in v["elems"]:
            if w > 0:
                slackabs = max(slackabs, 2 * PREC * st_["cnst"][ci]["bound"] / w)
        dev = abs(v["value"] - ex)
        worst = max(worst, dev / max(abs(ex), 1e-300))
        if dev > 1e-7 * max(abs(ex), 1.0) and dev > slackabs:
            oc.bad("maxmin-not-exact", "%s: variable uid %d has rate %r, the unique weighted max-min allocation gives %r"
                   % (where, v["uid"], v["value"], ex))
    return worst


def check_fair_bmf(st_, oc, where):
    """C16(c): every consuming variable below its bound gets the largest penalty-weighted share on at least one
    saturated resource."""
    for v in st_["var"]:
        if not (enabled(v) and consuming(v)):
            continue
        if v["bound"] > 0 and v["value"] >= v["bound"] - 2 * PREC:
            continue
        ok = False
        why = []
        for ci, w in v["elems"]:
            if w <= 0:
                continue
            c = st_["cnst"][ci]
            cap = eff_capacity(c, st_, ci)
            u, sl = usage(st_, ci, c)
            if c["policy"] == 0:
                # a fat-pipe is not shared: its users do not compete, each may take the whole capacity.  "Largest share on
                # a saturated resource" therefore reads, for a fat-pipe: this variable alone saturates it.
                if w * v["value"] >= cap * (1 - 4 * PREC) - 1e-9:
                    ok = True
                    break
                why.append("c%d (fat-pipe): own usage %r of %r" % (ci, w * v["value"], cap))
                continue
            sat = abs(u - cap) <= 4 * PREC + 1e-9 * cap
            # BMF's "share" of a player on a resource uses the largest single weight it was expanded with
            # (sub-flows of a parallel task on one resource, see System::expand's force_creation note)
            mine = v["wmax"][ci] * v["sg_pen"] * v["value"]
            best = 0.0
            for u_ in st_["var"]:
                if enabled(u_):
                    for cj, w2 in u_["elems"]:
                        if cj == ci and w2 > 0:
                            best = max(best, u_["wmax"][ci] * u_["sg_pen"] * u_["value"])
            top = mine >= best - 4 * PREC - 1e-9 * best
            if sat and top:
                ok = True
                break
            why.append("c%d: saturated=%s (usage %r of %r) top=%s (mine %r best %r)" % (ci, sat, u, cap, top, mine, best))
        if not ok:
            pens = {u_["sg_pen"] for u_ in st_["var"] if enabled(u_) and consuming(u_)}
            oc.bad("bmf-unfair:" + ("unit-penalties" if pens == {1.0} else "non-unit-penalties"), "%s: variable uid %d (rate %r, bound %r) has no saturated resource where its share is the largest: %s"
                   % (where, v["uid"], v["value"], v["bound"], "; ".join(why)))


def check_concurrency(st_, oc, where):
    """C18: counter = number of enabled elements counting towards the limit <= limit; staged => no slack."""
    cur = []
    for ci, c in enumerate(st_["cnst"]):
        n = 0
        for v in st_["var"]:
            if enabled(v):
                for cj, w in v["elems"]:
                    if cj == ci and w >= 1:
                        n += 1
        cur.append(n)
        if c["cur"] != n:
            oc.bad("concurrency-counter-wrong", "%s: constraint %d counter is %d but %d enabled activities count towards its limit"
                   % (where, ci, c["cur"], n))
        if c["limit"] >= 0 and n > c["limit"]:
            oc.bad("concurrency-limit-exceeded", "%s: constraint %d has limit %d but %d enabled activities" % (where, ci, c["limit"], n))
    staged = 0
    for v in st_["var"]:
        req = v["penalty"]
        if req <= 0:
            if v["sg_pen"] != 0 or v["sg_staged"] != 0:
                oc.bad("suspended-but-enabled-or-staged", "%s: variable uid %d was suspended by the user but has penalty %r staged %r"
                       % (where, v["uid"], v["sg_pen"], v["sg_staged"]))
            continue
        is_en = v["sg_pen"] == req and v["sg_staged"] == 0
        is_st = v["sg_pen"] == 0 and v["sg_staged"] == req
        if not (is_en or is_st):
            oc.bad("neither-enabled-nor-staged", "%s: variable uid %d wants penalty %r but has penalty %r and staged %r"
                   % (where, v["uid"], req, v["sg_pen"], v["sg_staged"]))
        if v["sg_staged"] > 0:
            staged += 1
            slack = None
            for cj, w in v["elems"]:
                c = st_["cnst"][cj]
                if c["limit"] >= 0:
                    s = c["limit"] - cur[cj]
                    slack = s if slack is None else min(slack, s)
            if slack is None or slack > 0:
                oc.bad("staged-with-free-slots", "%s: variable uid %d is staged although all its resources have room (min slack %r)"
                       % (where, v["uid"], slack))
    return staged
