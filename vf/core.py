"""Core types and helpers shared by all property modules.

A property module (vf/props/cNN.py) defines a subclass of Prop and a module-level `PROP = ThatClass()`.

  strategy(tier)      -> Hypothesis strategy producing a *case*: a JSON-serialisable value (dict/list/...)
  check(case)         -> Outcome: runs the case against the real code and applies the oracle
  drivers             -> names of drivers (vf/build.py) this property needs built
  sizes               -> {"quick": n_cases, "thorough": n_cases}
  rule                -> text: how cases are generated and what makes one non-trivial
  level               -> evidence level ("exploration" | "fault_enumeration" | ...)
  fixed_cases(tier)   -> optional list of hand-written / enumerated cases executed before the search

Outcome.violations is a list of Violation(sig, msg): `sig` is a short, *root-cause* signature used by the
known-findings mechanism; `msg` explains observed vs expected.
"""
import hashlib
import json
import os
import signal
import subprocess
import tempfile
from dataclasses import dataclass, field


def canon(obj):
    return json.dumps(obj, sort_keys=True, separators=(",", ":"))


def case_hash(obj):
    return hashlib.sha1(canon(obj).encode()).hexdigest()


@dataclass
class Violation:
    sig: str
    msg: str

    def to_json(self):
        return {"sig": self.sig, "msg": self.msg}


@dataclass
class Outcome:
    violations: list = field(default_factory=list)
    labels: list = field(default_factory=list)       # classification labels of this case
    nontrivial: bool = False
    invalid: bool = False        # generator produced something outside the domain (counted, never a verdict)
    evals: int = 1               # number of executions of the system under test this case needed
    info: dict = field(default_factory=dict)          # small extra data for samples (observed values)

    def bad(self, sig, msg):
        self.violations.append(Violation(sig, msg))


class Inconclusive(Exception):
    """Raised by a check when a case could not be decided (wall-clock guard, driver build problem)."""


class Prop:
    id = "C00"
    level = "exploration"
    drivers = []
    sizes = {"quick": 300, "thorough": 6000}
    rule = ""
    assumptions = []
    ready = False         # True once the done-criteria of FRAMEWORK.md are met: only then is the check claimed in MANIFEST.json
    engine = "hypothesis"
    technique = "property-based testing (Hypothesis) against an explicit oracle"
    level_text = ""       # MANIFEST level_claimed.text (defaults to rule)
    level_note = ""       # MANIFEST level_note (defaults to the assumptions)
    design_ref = ""
    flaky_ok = False      # True for properties whose violations are inherently schedule dependent (OS threads)
    max_workers = 14

    def strategy(self, tier):
        raise NotImplementedError

    def check(self, case):
        raise NotImplementedError

    def fixed_cases(self, tier):
        return []

    def extra_coverage(self):
        return {}


# ---------------------------------------------------------------------------------------------
# Running drivers

class RunResult:
    def __init__(self, rc, out, err, cpu_exceeded=False, wall_exceeded=False):
        self.rc = rc
        self.out = out
        self.err = err
        self.cpu_exceeded = cpu_exceeded
        self.wall_exceeded = wall_exceeded

    @property
    def signal(self):
        return -self.rc if self.rc < 0 else 0

    def lines(self):
        return self.out.splitlines()

    def json_lines(self):
        res = []
        for l in self.out.splitlines():
            l = l.strip()
            if l.startswith("{") or l.startswith("["):
                try:
                    res.append(json.loads(l))
                except ValueError:
                    pass
        return res


def run(cmd, stdin=None, cpu=30, wall=300, env=None, cwd=None, mem_gb=8):
    """Run a driver under an RLIMIT_CPU budget (load independent) and a much larger wall-clock guard.
    The limits are set by prlimit(1) in front of the command: cheaper than a preexec_fn in a big Python process."""
    pre = ["prlimit", "--cpu=%d" % cpu, "--core=0"]
    if mem_gb:
        pre.append("--as=%d" % (mem_gb << 30))
    p = subprocess.Popen(pre + list(cmd), stdin=subprocess.PIPE if stdin is not None else subprocess.DEVNULL,
                         stdout=subprocess.PIPE, stderr=subprocess.PIPE, env=env, cwd=cwd, start_new_session=True)
    wall_exceeded = False
    try:
        out, err = p.communicate(stdin.encode() if isinstance(stdin, str) else stdin, timeout=wall)
    except subprocess.TimeoutExpired:
        wall_exceeded = True
        try:
            os.killpg(p.pid, signal.SIGKILL)
        except ProcessLookupError:
            pass
        out, err = p.communicate()
    else:
        # reap stray children of the same process group (smpirun, simgrid-mc forks)
        try:
            os.killpg(p.pid, signal.SIGKILL)
        except (ProcessLookupError, PermissionError):
            pass
    cpu_exceeded = (not wall_exceeded) and p.returncode in (-signal.SIGXCPU, -signal.SIGKILL)
    return RunResult(p.returncode, out.decode("utf-8", "replace"), err.decode("utf-8", "replace"),
                     cpu_exceeded, wall_exceeded)


# ---------------------------------------------------------------------------------------------
# Fork-server drivers (drivers/forkserver.hpp): one persistent process per (worker, driver); each case is a fork.

import atexit
import select
import time as _time

_SERVERS = {}


class Server:
    def __init__(self, cmd, env=None, cwd=None):
        self.cmd = list(cmd)
        self.env = env
        self.cwd = cwd
        self.p = None
        self.errpath = None
        self.buf = b""

    def start(self):
        base = os.environ.get("VF_TMP") or os.path.join(os.environ.get("VF_BUILD", "/verif/build"), "tmp")
        os.makedirs(base, exist_ok=True)
        fd, self.errpath = tempfile.mkstemp(suffix=".err", dir=base)
        os.close(fd)
        self.p = subprocess.Popen(self.cmd + ["--serve", self.errpath], stdin=subprocess.PIPE, stdout=subprocess.PIPE,
                                  stderr=subprocess.DEVNULL, env=self.env, cwd=self.cwd, start_new_session=True)
        self.buf = b""

    def stop(self):
        if self.p is not None:
            try:
                os.killpg(self.p.pid, signal.SIGKILL)
            except (ProcessLookupError, PermissionError):
                pass
            try:
                self.p.stdin.close()
                self.p.stdout.close()
            except Exception:
                pass
            self.p.wait()
            self.p = None
        if self.errpath:
            try:
                os.unlink(self.errpath)
            except OSError:
                pass
            self.errpath = None

    def _read_err(self):
        try:
            with open(self.errpath, "rb") as f:
                f.seek(0, 2)
                n = f.tell()
                f.seek(max(0, n - 200000))
                return f.read().decode("utf-8", "replace")
        except OSError:
            return ""

    def request(self, text, cpu=30, wall=300):
        """Run one case.  `text` must not contain a newline."""
        if "\n" in text:
            text = text.replace("\n", " ")
        for attempt in (0, 1):
            if self.p is None or self.p.poll() is not None:
                self.stop()
                self.start()
            try:
                self.p.stdin.write(("%d %s\n" % (cpu, text)).encode())
                self.p.stdin.flush()
                break
            except (BrokenPipeError, OSError):
                self.stop()
                if attempt:
                    raise
        deadline = _time.time() + wall
        fd = self.p.stdout.fileno()
        acc = bytearray(self.buf)
        self.buf = b""
        scan = 0
        while True:
            i = acc.find(b"\n@@END ", scan)
            if i >= 0:
                j = acc.find(b"\n", i + 1)
                if j >= 0:
                    break
                scan = i
            else:
                scan = max(0, len(acc) - 16)
            left = deadline - _time.time()
            if left <= 0:
                self.stop()
                return RunResult(-9, bytes(acc).decode("utf-8", "replace"), "", False, True)
            r, _, _ = select.select([fd], [], [], min(left, 5.0))
            if not r:
                continue
            data = os.read(fd, 1 << 16)
            if not data:   # server died
                err = self._read_err()
                self.stop()
                return RunResult(-6, bytes(acc).decode("utf-8", "replace"), err + "\n[fork server died]", False, False)
            acc += data
        out = bytes(acc)
        self.buf = out[j + 1:]
        body = out[:i]
        st = out[i + 7:j].split()
        body = out[:i]
        status, sig, ms = int(st[0]), int(st[1]), int(st[2])
        rc = -sig if sig else status
        res = RunResult(rc, body.decode("utf-8", "replace"), self._read_err(), sig in (signal.SIGXCPU, signal.SIGKILL), False)
        res.cpu_ms = ms
        return res


def server(name, cmd=None, env=None, cwd=None):
    """Per-process cache of fork servers.  `name` is a driver name (then cmd defaults to the built driver)."""
    s = _SERVERS.get(name)
    if s is None:
        from . import build
        s = Server(cmd or [build.drv(name)], env=env or build.runtime_env(), cwd=cwd)
        _SERVERS[name] = s
    return s


def serve(name, case, cpu=30, wall=300):
    """Run `case` (a JSON-serialisable value or a string) on the fork server of driver `name`."""
    text = case if isinstance(case, str) else json.dumps(case, separators=(",", ":"))
    return server(name).request(text, cpu=cpu, wall=wall)


@atexit.register
def _stop_servers():
    for s in _SERVERS.values():
        try:
            s.stop()
        except Exception:
            pass


def tmpdir():
    base = os.environ.get("VF_TMP") or os.path.join(os.environ.get("VF_BUILD", "/verif/build"), "tmp")
    os.makedirs(base, exist_ok=True)
    return tempfile.mkdtemp(dir=base)


def write_tmp(text, suffix=".json"):
    base = os.environ.get("VF_TMP") or os.path.join(os.environ.get("VF_BUILD", "/verif/build"), "tmp")
    os.makedirs(base, exist_ok=True)
    fd, path = tempfile.mkstemp(suffix=suffix, dir=base)
    with os.fdopen(fd, "w") as f:
        f.write(text)
    return path


def hexf(x):
    return float.fromhex(x) if isinstance(x, str) else float(x)


def ulp(x):
    import math
    return math.ulp(x)


def close(a, b, rel=1e-9, abs_=0.0):
    return abs(a - b) <= max(abs_, rel * max(abs(a), abs(b)))
