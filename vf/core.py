"""Core types and helpers shared by all property modules.

A property module (vf/props/cNN.py) defines a subclass of Prop and a module-level `PROP = ThatClass()`.

  strategy(tier)      -> Hypothesis strategy producing a *case*: a JSON-serialisable value (dict/list/...)
  check(case)         -> Outcome: runs the case against the real code and applies the oracle
  drivers             -> names of drivers (vf/build.py) this property needs built
  sizes               -> {"quick": n_cases, "thorough": n_cases}
  rule                -> text: how cases are generated and what makes one non-trivial
  level               -> evidence level ("exploration" | "fault_enumeration" | ...)
  fixed_cases(tier)   -> optional list of hand-written / enumerated cases executed before the search

Outcome.violations is a list of Violation(sig, msg): `sig` is a short, *root-cause* signature used by the
known-findings mechanism; `msg` explains observed vs expected.
"""
import hashlib
import json
import os
import signal
import subprocess
import tempfile
from dataclasses import dataclass, field


def canon(obj):
    return json.dumps(obj, sort_keys=True, separators=(",", ":"))


def case_hash(obj):
    return hashlib.sha1(canon(obj).encode()).hexdigest()


@dataclass
class Violation:
    sig: str
    msg: str

    def to_json(self):
        return {"sig": self.sig, "msg": self.msg}


@dataclass
class Outcome:
    violations: list = field(default_factory=list)
    labels: list = field(default_factory=list)       # classification labels of this case
    nontrivial: bool = False
    invalid: bool = False        # generator produced something outside the domain (counted, never a verdict)
    evals: int = 1               # number of executions of the system under test this case needed
    info: dict = field(default_factory=dict)          # small extra data for samples (observed values)

    def bad(self, sig, msg):
        self.violations.append(Violation(sig, msg))


class Inconclusive(Exception):
    """Raised by a check when a case could not be decided (wall-clock guard, driver build problem)."""


class Prop:
    id = "C00"
    level = "exploration"
    drivers = []
    sizes = {"quick": 300, "thorough": 6000}
    rule = ""
    assumptions = []
    flaky_ok = False      # True for properties whose violations are inherently schedule dependent (OS threads)
    max_workers = 14

    def strategy(self, tier):
        raise NotImplementedError

    def check(self, case):
        raise NotImplementedError

    def fixed_cases(self, tier):
        return []

    def extra_coverage(self):
        return {}


# ---------------------------------------------------------------------------------------------
# Running drivers

class RunResult:
    def __init__(self, rc, out, err, cpu_exceeded=False, wall_exceeded=False):
        self.rc = rc
        self.out = out
        self.err = err
        self.cpu_exceeded = cpu_exceeded
        self.wall_exceeded = wall_exceeded

    @property
    def signal(self):
        return -self.rc if self.rc < 0 else 0

    def lines(self):
        return self.out.splitlines()

    def json_lines(self):
        res = []
        for l in self.out.splitlines():
            l = l.strip()
            if l.startswith("{") or l.startswith("["):
                try:
                    res.append(json.loads(l))
                except ValueError:
                    pass
        return res


def run(cmd, stdin=None, cpu=30, wall=300, env=None, cwd=None, mem_gb=8):
    """Run a driver under an RLIMIT_CPU budget (load independent) and a much larger wall-clock guard.
    The limits are set by prlimit(1) in front of the command: cheaper than a preexec_fn in a big Python process."""
    pre = ["prlimit", "--cpu=%d" % cpu, "--core=0"]
    if mem_gb:
        pre.append("--as=%d" % (mem_gb << 30))
    p = subprocess.Popen(pre + list(cmd), stdin=subprocess.PIPE if stdin is not None else subprocess.DEVNULL,
                         stdout=subprocess.PIPE, stderr=subprocess.PIPE, env=env, cwd=cwd, start_new_session=True)
    wall_exceeded = False
    try:
        out, err = p.communicate(stdin.encode() if isinstance(stdin, str) else stdin, timeout=wall)
    except subprocess.TimeoutExpired:
        wall_exceeded = True
        try:
            os.killpg(p.pid, signal.SIGKILL)
        except ProcessLookupError:
            pass
        out, err = p.communicate()
    else:
        # reap stray children of the same process group (smpirun, simgrid-mc forks)
        try:
            os.killpg(p.pid, signal.SIGKILL)
        except (ProcessLookupError, PermissionError):
            pass
    cpu_exceeded = (not wall_exceeded) and p.returncode in (-signal.SIGXCPU, -signal.SIGKILL)
    return RunResult(p.returncode, out.decode("utf-8", "replace"), err.decode("utf-8", "replace"),
                     cpu_exceeded, wall_exceeded)


def tmpdir():
    base = os.environ.get("VF_TMP") or os.path.join("/verif", "build", "tmp")
    os.makedirs(base, exist_ok=True)
    return tempfile.mkdtemp(dir=base)


def write_tmp(text, suffix=".json"):
    base = os.environ.get("VF_TMP") or os.path.join("/verif", "build", "tmp")
    os.makedirs(base, exist_ok=True)
    fd, path = tempfile.mkstemp(suffix=suffix, dir=base)
    with os.fdopen(fd, "w") as f:
        f.write(text)
    return path


def hexf(x):
    return float.fromhex(x) if isinstance(x, str) else float(x)


def ulp(x):
    import math
    return math.ulp(x)


def close(a, b, rel=1e-9, abs_=0.0):
    return abs(a - b) <= max(abs_, rel * max(abs(a), abs(b)))
