"""C34: generated one-sided (RMA) programs over one window, with a window-memory interpreter as reference.

A case is a list of ROUNDS.  Every round has one synchronisation mode

    fence        MPI_Win_fence ... MPI_Win_fence (all ranks)
    lock         every origin: for each of its targets, MPI_Win_lock(EXCLUSIVE, t) ... MPI_Win_unlock(t)
    lockshared   same with MPI_LOCK_SHARED
    lockall      MPI_Win_lock_all ... MPI_Win_unlock_all

and a set of PLANS over pairwise DISJOINT ranges of window elements.  A plan is built so that MPI defines a unique outcome:

    put        one origin, one MPI_Put on the range
    get        one or more origins, MPI_Get of the range (nobody writes it in this round)
    accseq     ONE origin, a sequence of accumulate-family calls on the range (Accumulate with any predefined op incl. REPLACE,
               Get_accumulate incl. NO_OP, Fetch_and_op and Compare_and_swap on one element): same origin + same target =>
               ordered (MPI-3.1 11.7.2), so the fetched values are unique too
    accmulti   several origins, Accumulate with ONE commutative op: atomic per element, final value unique
    putget     passive modes only: one origin, Put, MPI_Win_flush(t), Get (reads what it wrote); or Get, flush, Put

After the round every rank reads its own window memory (inside an exclusive lock on itself after a passive round) and the fetched
values are collected.  The reference applies the plans to a list of integers per rank.
"""

TYPES = {"UNSIGNED": (4, False), "UNSIGNED_LONG": (8, False), "INT": (4, True)}
OPS = ["SUM", "PROD", "MAX", "MIN", "BAND", "BOR", "BXOR", "REPLACE"]
COMMUTATIVE = ["SUM", "PROD", "MAX", "MIN", "BAND", "BOR", "BXOR"]
VALUES = [0, 1, 2, 3, 5, 7, 0xFF, 0x100, 0x7FFFFFFF, 0x80000000, 0xFFFFFFFF, 0xFFFFFFFE, 12345, 0x55555555, 0xAAAAAAAA,
          0x7FFFFFFFFFFFFFFF, 0xFFFFFFFFFFFFFFFF, 0x8000000000000000]
SMALL = [0, 1, 2, 3, 5, 7, -1, -2, -7, 100, -100, 999]


class Num:
    """element arithmetic of one MPI integer type"""

    def __init__(self, tname):
        self.tname = tname
        self.size, self.signed = TYPES[tname]
        self.bits = 8 * self.size
        self.mask = (1 << self.bits) - 1

    def norm(self, v):
        v &= self.mask
        if self.signed and v >> (self.bits - 1):
            v -= 1 << self.bits
        return v

    def value(self, sel):
        """the sel-th interesting value of the type (signed type: small values only, so that no operation overflows: signed overflow is
        undefined behaviour in the C code under test)"""
        if self.signed:
            return SMALL[sel % len(SMALL)]
        return VALUES[sel % len(VALUES)] & self.mask

    def apply(self, op, old, new):
        if op == "NO_OP":
            return old
        if op == "REPLACE":
            return new
        if op == "SUM":
            return self.norm(old + new)
        if op == "PROD":
            return self.norm(old * new)
        if op == "MAX":
            return max(old, new)
        if op == "MIN":
            return min(old, new)
        if op == "BAND":
            return self.norm((old & self.mask) & (new & self.mask))
        if op == "BOR":
            return self.norm((old & self.mask) | (new & self.mask))
        if op == "BXOR":
            return self.norm((old & self.mask) ^ (new & self.mask))
        raise ValueError(op)

    def hex(self, vals):
        return b"".join((v & self.mask).to_bytes(self.size, "little") for v in vals).hex()

    def unhex(self, h):
        b = bytes.fromhex(h)
        return [self.norm(int.from_bytes(b[i:i + self.size], "little")) for i in range(0, len(b), self.size)]


_PAT = {}


def pattern_bytes(seed, count, tsize):
    """the bulk pattern of drivers/mpi_ops_rma.cpp"""
    key = (seed, count, tsize)
    if key not in _PAT:
        if len(_PAT) > 64:
            _PAT.clear()
        m64 = (1 << 64) - 1
        mask = (1 << (8 * tsize)) - 1
        base = (seed * 0x9E3779B97F4A7C15 + 1) & m64
        step = 0xBF58476D1CE4E5B9
        _PAT[key] = b"".join((((base + j * step) & m64) & mask).to_bytes(tsize, "little") for j in range(count))
    return _PAT[key]


def merge(seqs, picks):
    """interleaves the sequences, keeping the order inside each one; picks = arbitrary integers choosing the next sequence"""
    seqs = [list(s) for s in seqs if s]
    out = []
    j = 0
    while seqs:
        k = picks[j % len(picks)] % len(seqs) if picks else 0
        j += 1
        out.append(seqs[k].pop(0))
        if not seqs[k]:
            seqs.pop(k)
    return out


class Build:
    def __init__(self, case):
        self.case = case
        self.np = np_ = case["np"]
        self.W = W = case["W"]
        self.num = num = Num(case.get("ty", "UNSIGNED"))
        self.unit = num.size if case.get("unit", "elem") == "elem" else 1
        self.labels = set()
        self.nontrivial = False
        self.mem = [[num.value(case.get("init", 0) + 3 * r + 7 * i) for i in range(W)] for r in range(np_)]
        self.init = [list(m) for m in self.mem]
        self.prog = []
        self.expect_mem = []        # (prog index of the win_read, expected memories)
        self.expect_res = []        # (prog index of rma_results, {rank: {id: (kind, expected values or None)}})
        self.rma_index = []         # prog index of every rma op, with the per-rank step descriptions (for messages)
        self.nid = 0
        self.last_writer = {}       # (t, i) -> (origin, round, mode) of the last update
        self.rmw = []               # (round, target, element, old value, [(origin, call id, addend)])
        self.races = []             # atomic races: dict(ri, t, i, old, fam, seqs=[(origin, [op...])]): outcome judged by linearizability
        self.raced = {}             # (target, element) -> index in self.races: the model no longer knows the value of that element
        self.cas_taint = set()      # (round, target, element): a successful Compare_and_swap is followed by another call there
        self.nbulk = case.get("bulk", 0)
        # bulk area after the W elements: described by the seed of its pattern (never by its elements)
        self.bulk = [1000 + case.get("init", 0) * 8 + r for r in range(np_)]
        wc = {"op": "win_create", "win": "w", "hex": {"@": [num.hex(m) for m in self.mem]}, "unit": self.unit, "alloc": bool(case.get("alloc"))}
        if self.nbulk:
            wc["bulk"] = {"@": [{"seed": self.bulk[r], "count": self.nbulk, "tsize": num.size} for r in range(np_)]}
            self.labels.add("bulk-area")
        self.prog.append(wc)
        rounds = case["rounds"]
        skip_open = False
        for ri, rd in enumerate(rounds):
            chain = (rd["mode"] == "fence" and rd.get("chain") and ri + 1 < len(rounds) and rounds[ri + 1]["mode"] == "fence")
            self.round(ri, rd, skip_open, chain)
            skip_open = chain
        self.prog.append({"op": "win_free", "win": "w"})

    def disp(self, i):
        return i * (self.num.size // self.unit)

    def round(self, ri, rd, skip_open, chain):
        np_, W, num = self.np, self.W, self.num
        mode = rd["mode"]
        passive = mode != "fence"
        self.labels.add("mode:" + mode)
        free = [[(t_, j_) not in self.raced for j_ in range(W)] for t_ in range(np_)]   # raced elements are left alone afterwards
        seqs = [dict() for _ in range(np_)]          # origin -> {target: [list of plan sequences]}
        results = {r: {} for r in range(np_)}
        newmem = [list(m) for m in self.mem]
        req_ok = passive and bool(rd.get("req"))      # request-based calls are only allowed in passive-target epochs

        def alloc(t, i, c):
            c = max(1, min(c, W - i))
            while c > 0 and not all(free[t][i:i + c]):
                c -= 1
            if c == 0:
                return 0
            for j in range(i, i + c):
                free[t][j] = False
            return c

        def newid():
            self.nid += 1
            return self.nid

        def vals(sel, c):
            return [num.value(sel + 5 * j) for j in range(c)]

        def wrote(o, t, i, c):
            for j in range(i, i + c):
                prev = self.last_writer.get((t, j))
                if prev is not None and prev[0] != o and prev[2] == "lock" and mode == "lock":
                    self.nontrivial = True
                    self.labels.add("successive-exclusive-epochs-same-location")
                self.last_writer[(t, j)] = (o, ri, mode)

        bulk_used = set()
        newbulk = list(self.bulk)
        for pl in rd.get("plans", []):
            t = pl["t"] % np_
            i = pl["i"] % W
            kind = pl["kind"]
            if kind in ("bulkput", "bulkget"):
                # one big transfer over the whole bulk area of the target (long enough to be still in flight when a broken
                # synchronisation call returns)
                if not self.nbulk or t in bulk_used:
                    continue
                bulk_used.add(t)
                o0 = (pl.get("o") or [0])[0] % np_
                n = newid()
                self.labels.add("plan:" + kind)
                if kind == "bulkput":
                    seed = 5000 + 16 * self.nid
                    seqs[o0].setdefault(t, []).append([{"k": "put", "id": n, "pat": seed, "count": self.nbulk, "t": t, "disp": self.disp(W)}])
                    newbulk[t] = seed
                else:
                    seqs[o0].setdefault(t, []).append([{"k": "get", "id": n, "count": self.nbulk, "t": t, "disp": self.disp(W)}])
                    results[o0][n] = ("bulkget", ("pat", self.bulk[t]), (t, W, self.nbulk))
                continue
            if kind == "putget" and not passive:
                kind = "put"
            if kind == "rmw" and mode != "lock":
                kind = "accmulti"
            c = alloc(t, i, 1 if kind in ("rmw", "race") else pl.get("c", 1))
            if c == 0:
                continue
            origins = [x % np_ for x in pl.get("o", [0])] or [0]
            o0 = origins[0]
            old = self.mem[t][i:i + c]
            rq = {"req": True} if (req_ok and pl.get("req")) else {}
            self.labels.add("plan:" + kind)
            if o0 == t:
                self.labels.add("target=origin")
            if kind == "put":
                v = vals(pl.get("v", 0), c)
                seqs[o0].setdefault(t, []).append([dict({"k": "put", "id": newid(), "data": num.hex(v), "t": t, "disp": self.disp(i)}, **rq)])
                newmem[t][i:i + c] = v
                wrote(o0, t, i, c)
            elif kind == "get":
                for o in dict.fromkeys(origins):
                    n = newid()
                    seqs[o].setdefault(t, []).append([dict({"k": "get", "id": n, "count": c, "t": t, "disp": self.disp(i)}, **rq)])
                    results[o][n] = ("get", list(old), (t, i, c))
            elif kind == "putget":
                v = vals(pl.get("v", 0), c)
                n1, n2 = newid(), newid()
                fl = {"k": "flush", "rank": t} if pl.get("fl", 0) % 2 == 0 else {"k": "flush_all"}
                if pl.get("order", 0) % 2 == 0:
                    s = [{"k": "put", "id": n1, "data": num.hex(v), "t": t, "disp": self.disp(i)}, fl,
                         {"k": "get", "id": n2, "count": c, "t": t, "disp": self.disp(i)}]
                    results[o0][n2] = ("get-after-put+flush", list(v), (t, i, c))
                else:
                    s = [{"k": "get", "id": n2, "count": c, "t": t, "disp": self.disp(i)}, fl,
                         {"k": "put", "id": n1, "data": num.hex(v), "t": t, "disp": self.disp(i)}]
                    results[o0][n2] = ("get-before-flush+put", list(old), (t, i, c))
                seqs[o0].setdefault(t, []).append(s)
                newmem[t][i:i + c] = v
                wrote(o0, t, i, c)
            elif kind == "accseq":
                cur = list(old)
                s = []
                cas_hit = False
                for a in pl.get("ops", [])[:4] or [{"f": "acc"}]:
                    if cas_hit:
                        # a successful swap followed by another call of the sequence (known finding: the swap is not ordered)
                        for jj in range(i, i + c):
                            self.cas_taint.add((ri, t, jj))
                    f = a.get("f", "acc")
                    op = a.get("op", "SUM")
                    if num.signed and op == "PROD":
                        op = "SUM"
                    v = vals(a.get("v", 0), c)
                    n = newid()
                    if f == "acc":
                        s.append(dict({"k": "acc", "id": n, "data": num.hex(v), "t": t, "disp": self.disp(i), "mop": op}, **rq))
                        cur = [num.apply(op, x, y) for x, y in zip(cur, v)]
                    elif f == "getacc":
                        if a.get("noop"):
                            op = "NO_OP"
                        s.append(dict({"k": "getacc", "id": n, "data": num.hex(v), "count": c, "t": t, "disp": self.disp(i), "mop": op}, **rq))
                        results[o0][n] = ("getacc:" + op, list(cur), (t, i, c))
                        cur = [num.apply(op, x, y) for x, y in zip(cur, v)]
                    elif f == "fop":
                        if a.get("noop"):
                            op = "NO_OP"
                        j = a.get("j", 0) % c
                        s.append({"k": "fop", "id": n, "data": num.hex(v[:1]), "t": t, "disp": self.disp(i + j), "mop": op})
                        results[o0][n] = ("fop:" + op, [cur[j]], (t, i + j, 1))
                        cur[j] = num.apply(op, cur[j], v[0])
                    elif f == "cas":
                        j = a.get("j", 0) % c
                        hit = a.get("hit", 0) % 3          # 0: equal, 1: differs in the low bits, 2: differs in the highest byte only
                        cmpv = cur[j] if hit == 0 else num.norm(cur[j] + 1) if hit == 1 else num.norm(cur[j] ^ (1 << (num.bits - 8)))
                        s.append({"k": "cas", "id": n, "data": num.hex(v[:1]), "cmp": num.hex([cmpv]), "t": t, "disp": self.disp(i + j)})
                        results[o0][n] = ("cas:" + ("hit" if cmpv == cur[j] else "miss"), [cur[j]], (t, i + j, 1))
                        if cmpv == cur[j]:
                            cur[j] = v[0]
                            cas_hit = True
                    self.labels.add("call:" + f)
                seqs[o0].setdefault(t, []).append(s)
                newmem[t][i:i + c] = cur
                wrote(o0, t, i, c)
            elif kind == "race":
                # >= 2 origins issue ATOMIC read-modify-write calls on ONE element in the same epoch.  The outcome is not unique: it must
                # be explained by SOME sequential order of the calls that respects each origin's own order (linearizability).  Within what
                # MPI allows concurrently by default (accumulate_ops = same_op_no_op): either Compare_and_swap + NO_OP reads, or ONE
                # operation X (Accumulate / Get_accumulate / Fetch_and_op) + NO_OP reads.
                os_ = list(dict.fromkeys(origins))
                if len(os_) < 2:
                    os_.append((os_[0] + 1) % np_)
                remote = [o for o in os_ if o != t]
                if len(remote) >= 2:
                    os_ = remote          # (a target operating on itself completes at once: it never overlaps with the others)
                os_ = os_[:4]
                fam = pl.get("fam", "cas")
                opx = pl.get("op", "SUM")
                if num.signed and opx == "PROD":
                    opx = "SUM"
                rops = pl.get("rops") or [[{}]]
                delays = pl.get("delays") or [0]
                race = dict(ri=ri, t=t, i=i, old=old[0], fam=fam if fam == "cas" else opx, seqs=[], mode=mode)
                newvals = []
                kinds_ = set()
                for k_, o in enumerate(os_):
                    ops_ = []
                    s = []
                    d_ = [0, 1e-6, 2e-5, 3e-4][delays[k_ % len(delays)] % 4]
                    if d_:
                        s.append({"k": "sleep", "d": d_})
                    for j_, a in enumerate((rops[k_ % len(rops)] or [{}])[:2]):
                        n = newid()
                        f = a.get("f", 0) % 4
                        if f == 3 or (fam != "cas" and a.get("noop")):       # an atomic read
                            if a.get("ga"):
                                s.append({"k": "getacc", "id": n, "data": num.hex([0]), "count": 1, "t": t, "disp": self.disp(i), "mop": "NO_OP"})
                            else:
                                s.append({"k": "fop", "id": n, "data": num.hex([0]), "t": t, "disp": self.disp(i), "mop": "NO_OP"})
                            ops_.append(dict(f="read", id=n))
                            kinds_.add("read")
                        elif fam == "cas":
                            new = num.norm(old[0] + 1 + k_ + 8 * j_ + 32 * (pl.get("v", 0) % 4)) if not num.signed else (old[0] + 1 + k_ + 8 * j_)
                            sel = a.get("cmp", 0) % 4
                            cmpv = old[0] if sel in (0, 1) or not newvals else (newvals[-1] if sel == 2 else num.norm(old[0] + 1 + 4 * len(os_) + 8))
                            newvals.append(new)
                            s.append({"k": "cas", "id": n, "data": num.hex([new]), "cmp": num.hex([cmpv]), "t": t, "disp": self.disp(i)})
                            ops_.append(dict(f="cas", id=n, v=new, cmp=cmpv))
                            kinds_.add("cas")
                        else:
                            v = num.value(pl.get("v", 0) + 7 * k_ + 3 * j_)
                            if f == 0:
                                s.append({"k": "fop", "id": n, "data": num.hex([v]), "t": t, "disp": self.disp(i), "mop": opx})
                                ops_.append(dict(f="fetch", id=n, v=v, op=opx))
                                kinds_.add("fop")
                            elif f == 1:
                                s.append({"k": "getacc", "id": n, "data": num.hex([v]), "count": 1, "t": t, "disp": self.disp(i), "mop": opx})
                                ops_.append(dict(f="fetch", id=n, v=v, op=opx))
                                kinds_.add("getacc")
                            else:
                                s.append({"k": "acc", "id": n, "data": num.hex([v]), "t": t, "disp": self.disp(i), "mop": opx})
                                ops_.append(dict(f="acc", id=n, v=v, op=opx))
                                kinds_.add("acc")
                    seqs[o].setdefault(t, []).append(s)
                    race["seqs"].append((o, ops_))
                self.raced[(t, i)] = len(self.races)
                self.races.append(race)
                newmem[t][i] = None
                self.labels.add("atomic-race:" + ("cas" if kinds_ == {"cas"} else "mixed" if len(kinds_) > 1 else
                                                 ("same-op" if fam != "cas" else "read")))
                self.labels.add("atomic-race:origins=%d" % len(os_))
                if mode == "lockshared":
                    self.labels.add("atomic-race:shared-lock")
                elif mode == "lockall":
                    self.labels.add("atomic-race:lock_all")
                else:
                    self.labels.add("atomic-race:" + mode)
                if mode != "lock":
                    self.nontrivial = True
            elif kind == "rmw":
                # read-modify-write by several origins, each inside its own EXCLUSIVE epoch: Get, flush, Put(fetched + add).  The final value
                # and the set of fetched values are those of SOME serial order of the epochs: this is what the exclusive lock guarantees
                adds = []
                for k_, o in enumerate(list(dict.fromkeys(origins))[:4]):
                    v = num.value(pl.get("v", 0) + 3 * k_) if not num.signed else [1, 2, 5, -3][k_]
                    n = newid()
                    seqs[o].setdefault(t, []).append([{"k": "rmw", "id": n, "add": num.hex([v]), "t": t, "disp": self.disp(i)}])
                    adds.append((o, n, v))
                    wrote(o, t, i, 1)
                    if k_ > 0:
                        self.nontrivial = True
                        self.labels.add("concurrent-exclusive-epochs-same-location")
                self.rmw.append((ri, t, i, old[0], adds))
                newmem[t][i] = num.norm(old[0] + sum(v for _, _, v in adds))
            elif kind == "accmulti":
                op = pl.get("op", "SUM")
                if op not in COMMUTATIVE or (num.signed and op == "PROD"):
                    op = "SUM"
                cur = list(old)
                seen = set()
                for k_, o in enumerate(origins[:4]):
                    v = vals(pl.get("v", 0) + 11 * k_, c)
                    seqs[o].setdefault(t, []).append([dict({"k": "acc", "id": newid(), "data": num.hex(v), "t": t, "disp": self.disp(i), "mop": op}, **rq)])
                    cur = [num.apply(op, x, y) for x, y in zip(cur, v)]
                    if seen and o not in seen and mode == "lock":
                        self.nontrivial = True
                        self.labels.add("concurrent-exclusive-epochs-same-location")
                    seen.add(o)
                    wrote(o, t, i, c)
                if len(set(origins[:4])) > 1:
                    self.labels.add("multi-origin-accumulate")
                newmem[t][i:i + c] = cur
        # ---- the sequence of every rank
        picks = rd.get("picks", [0])
        allseq = []
        for o in range(np_):
            s = []
            if mode == "fence":
                if not skip_open:
                    s.append({"k": "fence", "assert": ["noprecede"] if rd.get("a0") else []})
                s += merge([x for t in sorted(seqs[o]) for x in seqs[o][t]], picks)
                s.append({"k": "fence", "assert": ["nosucceed"] if (rd.get("a1") and not chain) else []})
            elif mode == "lockall":
                s.append({"k": "lock_all"})
                s += merge([x for t in sorted(seqs[o]) for x in seqs[o][t]], picks)
                if rd.get("fa"):
                    s.append({"k": "flush_all"})
                s.append({"k": "unlock_all"})
            else:
                targets = sorted(seqs[o])
                if picks and targets:
                    k = picks[0] % len(targets)
                    targets = targets[k:] + targets[:k]
                for t in targets:
                    s.append({"k": "lock", "rank": t, "shared": mode == "lockshared"})
                    s += merge(seqs[o][t], picks)
                    s.append({"k": "unlock", "rank": t})
            allseq.append(s)
        self.rma_index.append((len(self.prog), allseq))
        self.prog.append({"op": "rma", "win": "w", "type": num.tname, "seq": {"@": allseq}})
        self.mem = newmem
        self.bulk = newbulk
        if chain:
            self.pending_results = getattr(self, "pending_results", [])
            self.pending_results.append(results)
            return
        if passive:
            self.prog.append({"op": "barrier"})       # the other origins' epochs must be over before the target looks at its memory
        # (after a closing fence the window is read at once: the fence itself guarantees that every operation is complete)
        self.expect_mem.append((len(self.prog), [list(m) for m in self.mem], ri, list(self.bulk)))
        self.prog.append({"op": "win_read", "win": "w", "lock": passive, "head": W * num.size})
        allres = getattr(self, "pending_results", []) + [results]
        self.pending_results = []
        ids = [sorted(n for res in allres for n in res[r]) for r in range(np_)]
        everything = [sorted(s["id"] for _, seqs_ in self.rma_index[-len(allres):] for s in seqs_[r] if "id" in s) for r in range(np_)]
        self.expect_res.append((len(self.prog), {r: {n: v for res in allres for n, v in res[r].items()} for r in range(np_)}, ri))
        self.prog.append({"op": "rma_results", "ids": {"@": everything}})
        self.prog.append({"op": "barrier"})

    def driver_case(self):
        return {"np": self.np, "prog": self.prog}


def judge(b, res, oc, E):
    num = b.num
    OK = E.SUCCESS
    rec0 = res.get(0, 0)
    for r in range(b.np):
        rec = res.get(r, 0)
        if rec is None or rec["rc"] != OK or rec.get("null"):
            oc.bad("win_create", "rank %d: window creation answered %s" % (r, rec))
            return
    # return codes of every call
    for idx, allseq in b.rma_index:
        for r in range(b.np):
            rec = res.get(r, idx)
            if rec is None:
                oc.bad("not-executed", "rank %d did not report its RMA sequence (program index %d)" % (r, idx))
                return
            if "exc" in rec:
                oc.bad("exception", "rank %d: %s" % (r, rec["exc"]))
                return
            for step, rc in zip(allseq[r], rec["rcs"]):
                if rc != OK:
                    oc.bad("rc:" + step["k"], "rank %d: %s returned %d" % (r, step, rc))
    if oc.violations:
        return
    # fetched values
    for idx, exp, ri in b.expect_res:
        for r in range(b.np):
            rec = res.get(r, idx)
            if rec is None:
                oc.bad("not-executed", "rank %d did not report its results (program index %d)" % (r, idx))
                return
            for n, ent in rec["res"].items():
                if not ent[1]:
                    oc.bad("buffer-overrun", "rank %d: bytes around an origin/result buffer of call #%s were overwritten" % (r, n))
            for n, (kind, want, (t, i, c)) in sorted(exp[r].items()):
                ent = rec["res"].get(str(n))
                if ent is None or ent[0] is None:
                    oc.bad("not-executed", "rank %d: no result buffer for call #%d" % (r, n))
                    continue
                if isinstance(want, tuple):
                    import zlib
                    exp_ = "crc:%d:%d" % (zlib.crc32(pattern_bytes(want[1], c, num.size)), c * num.size)
                    if ent[0] != exp_:
                        oc.bad("fetched:%s:%s" % (kind, b.case["rounds"][ri]["mode"]),
                               "round %d (%s): rank %d, MPI_Get of the %d-element bulk area of rank %d returned %s, expected %s (pattern %d)%s"
                               % (ri, b.case["rounds"][ri]["mode"], r, c, t, ent[0], exp_, want[1], describe(b, ri)))
                    continue
                got = num.unhex(ent[0])
                if got != want:
                    # (an element left wrong by the known CAS defect stays suspect in the later rounds)
                    tainted = any((r2, t, j) in b.cas_taint for r2 in range(ri + 1) for j in range(i, i + c))
                    rmw_ = any(r2 <= ri and t2 == t and i <= i2 < i + c for r2, t2, i2, _, _ in b.rmw)
                    oc.bad("cas-swap-not-ordered" if tainted else "exclusive-lock:not-atomic" if rmw_ else
                           "fetched:%s:%s" % (kind, b.case["rounds"][ri]["mode"]),
                           "round %d (%s): rank %d, %s on elements [%d,%d) of rank %d fetched %s, expected %s%s"
                           % (ri, b.case["rounds"][ri]["mode"], r, kind, i, i + c, t, got, want, describe(b, ri)))
    # read-modify-write epochs: the fetched values are the partial sums of some serial order
    import itertools
    for ri, t, i, old, adds in b.rmw:
        got = {}
        for idx, exp, ri2 in b.expect_res:
            if ri2 < ri:
                continue
            for o, n, v in adds:
                ent = (res.get(o, idx) or {}).get("res", {}).get(str(n))
                if ent is not None and ent[0] is not None and n not in got:
                    got[n] = num.unhex(ent[0])[0]
        if len(got) != len(adds):
            oc.bad("not-executed", "round %d: missing fetched values of the read-modify-write on element %d of rank %d" % (ri, i, t))
            continue
        ok = False
        for perm in itertools.permutations(adds):
            cur = old
            good = True
            for o, n, v in perm:
                if got[n] != cur:
                    good = False
                    break
                cur = num.norm(cur + v)
            if good:
                ok = True
                break
        if not ok:
            oc.bad("exclusive-lock:not-atomic", "round %d (lock): the origins %s each did lock(EXCLUSIVE, %d); Get(element %d); flush; Put(fetched + add); unlock with "
                   "addends %s; the element held %s; they fetched %s: no serial order of the epochs explains these values%s"
                   % (ri, [o for o, _, _ in adds], t, i, [v for _, _, v in adds], old, [got[n] for _, n, _ in adds], describe(b, ri)))
    # atomic races: some sequential order of the calls (respecting each origin's order) must explain every fetched value and the
    # final content of the element
    finals = {}
    for x, race in enumerate(b.races):
        fetched = {}
        for idx, exp, ri2 in b.expect_res:
            if ri2 < race["ri"]:
                continue
            for o, ops_ in race["seqs"]:
                for a in ops_:
                    ent = (res.get(o, idx) or {}).get("res", {}).get(str(a["id"]))
                    if ent is not None and ent[0] is not None and a["id"] not in fetched:
                        fetched[a["id"]] = num.unhex(ent[0])[0]
        final = None
        for idx, want, ri2, wantbulk in b.expect_mem:
            if ri2 >= race["ri"]:
                rec = res.get(race["t"], idx)
                if rec is not None and "hex" in rec:
                    final = num.unhex(rec["hex"])[race["i"]]
                break
        if final is None or any(a["f"] != "acc" and a["id"] not in fetched for _, ops_ in race["seqs"] for a in ops_):
            oc.bad("not-executed", "round %d: missing observations of the atomic race on element %d of rank %d" % (race["ri"], race["i"], race["t"]))
            continue
        finals[x] = final
        seqs_ = [ops_ for _, ops_ in race["seqs"]]
        seen = set()

        def search(pos, cur):
            if (pos, cur) in seen:
                return False
            seen.add((pos, cur))
            if all(p_ == len(q) for p_, q in zip(pos, seqs_)):
                return cur == final
            for k_, q in enumerate(seqs_):
                if pos[k_] == len(q):
                    continue
                a = q[pos[k_]]
                if a["f"] != "acc" and fetched[a["id"]] != cur:
                    continue
                nxt = (a["v"] if cur == a["cmp"] else cur) if a["f"] == "cas" else cur if a["f"] == "read" else num.apply(a["op"], cur, a["v"])
                if search(pos[:k_] + (pos[k_] + 1,) + pos[k_ + 1:], nxt):
                    return True
            return False

        if not search(tuple(0 for _ in seqs_), race["old"]):
            def show(a):
                got_ = "" if a["f"] == "acc" else " -> %s" % fetched[a["id"]]
                return ("CAS(compare %s, new %s)" % (a["cmp"], a["v"]) if a["f"] == "cas" else "atomic read" if a["f"] == "read" else
                        "%s(%s, %s)" % ("Accumulate" if a["f"] == "acc" else "Fetch_and_op/Get_accumulate", a["op"], a["v"])) + got_
            winners = [o for o, ops_ in race["seqs"] for a in ops_ if a["f"] == "cas" and a["cmp"] == race["old"] and fetched[a["id"]] == race["old"]]
            oc.bad("atomic-race:not-linearizable:%s" % race["fam"],
                   "round %d (%s): element %d of rank %d held %s; concurrent atomic calls: %s; final content %s: NO sequential order of these calls "
                   "explains the fetched values and the final content%s%s"
                   % (race["ri"], race["mode"], race["i"], race["t"], race["old"],
                      "; ".join("rank %d: %s" % (o, ", ".join(show(a) for a in ops_)) for o, ops_ in race["seqs"]), final,
                      (" (%d origins saw the old value and 'won')" % len(winners)) if len(winners) > 1 else "", describe(b, race["ri"])))
    # window memories
    for idx, want, ri, wantbulk in b.expect_mem:
        for r in range(b.np):
            rec = res.get(r, idx)
            if rec is not None and b.nbulk and "hex" in rec:
                import zlib
                if rec.get("crc") != zlib.crc32(pattern_bytes(wantbulk[r], b.nbulk, num.size)):
                    oc.bad("window-bulk:%s" % b.case["rounds"][ri]["mode"],
                           "after round %d (%s) the %d-element bulk area of the window of rank %d does not hold the expected pattern %d (CRC %s)%s"
                           % (ri, b.case["rounds"][ri]["mode"], b.nbulk, r, wantbulk[r], rec.get("crc"), describe(b, ri)))
                    return
            if rec is None or "hex" not in rec:
                oc.bad("not-executed", "rank %d did not report its window (program index %d)" % (r, idx))
                return
            if rec["rc"] != OK:
                oc.bad("rc:win_read-lock", "rank %d: lock/unlock on itself returned %d" % (r, rec["rc"]))
            if not rec["guards"]:
                oc.bad("buffer-overrun", "rank %d: bytes around the window memory were overwritten in round %d" % (r, ri))
            got = num.unhex(rec["hex"])
            # raced elements: the model does not know them; they must keep the value read right after the race
            want_r = [(finals.get(b.raced[(r, j)], g) if w is None else w) for j, (w, g) in enumerate(zip(want[r], got + [None] * len(want[r])))]
            if got != want_r:
                diff = [j for j in range(len(want_r)) if j >= len(got) or got[j] != want_r[j]]
                tainted = all(any((r2, r, j) in b.cas_taint for r2 in range(ri + 1)) for j in diff)
                rmw_ = all(any(r2 <= ri and (t2, i2) == (r, j) for r2, t2, i2, _, _ in b.rmw) for j in diff)
                oc.bad("cas-swap-not-ordered" if tainted else "exclusive-lock:not-atomic" if rmw_ else "window:%s" % b.case["rounds"][ri]["mode"],
                       "after round %d (%s) the window of rank %d holds %s, expected %s (elements %s differ)%s"
                       % (ri, b.case["rounds"][ri]["mode"], r, got, want_r, diff, describe(b, ri)))
                return


def describe(b, ri):
    idx, allseq = b.rma_index[ri]
    out = []
    for r, s in enumerate(allseq):
        out.append("\n      rank %d: " % r + " ; ".join(
            "%s%s" % (x["k"], "" if "t" not in x and "rank" not in x else
                      "(%s)" % ",".join("%s=%s" % (k, (b.num.unhex(v) if k in ("data", "cmp") else v)) for k, v in x.items() if k not in ("k", "id")))
            for x in s))
    return "".join(out)
