"""Delta-debugging of a stored S4U-program case outside Hypothesis:  python3-vt -m vf.shrink <ID> <replay.json> <sig-prefix> [out.json]
Removes actors and operations while the property's check still reports a violation whose signature starts with the prefix."""
import copy
import json
import sys

from . import core, main


def program_of(case):
    return case["program"] if "program" in case else case


def main_():
    pid, path, prefix = sys.argv[1], sys.argv[2], sys.argv[3]
    out = sys.argv[4] if len(sys.argv) > 4 else path + ".min"
    prop = main.load_prop(pid)
    data = json.load(open(path))
    case = data["case"] if "case" in data else data

    def bad1(c):
        try:
            oc = prop.check(c)
        except core.Inconclusive:
            return False
        except Exception:
            return False
        return any(v.sig.startswith(prefix) for v in oc.violations)

    def bad(c):      # twice: a transient failure (library rebuilt under our feet, load) must not steer the minimisation
        return bad1(c) and bad1(c)
    assert bad(case), "the case does not fail with that signature"
    changed = True
    while changed:
        changed = False
        prog = program_of(case)
        for ai in range(len(prog["actors"]) - 1, -1, -1):
            if len(prog["actors"]) > 1:
                t = copy.deepcopy(case)
                del program_of(t)["actors"][ai]
                if bad(t):
                    case, changed = t, True
                    prog = program_of(case)
                    print("removed actor", ai, flush=True)
        for ai in range(len(prog["actors"])):
            i = 0
            while i < len(program_of(case)["actors"][ai]["ops"]):
                t = copy.deepcopy(case)
                del program_of(t)["actors"][ai]["ops"][i]
                if program_of(t)["actors"][ai]["ops"] and bad(t):
                    case, changed = t, True
                    print("removed op", ai, i, flush=True)
                else:
                    i += 1
    json.dump({"property": pid, "case": case, "violations": [{"sig": prefix, "msg": "minimised by vf.shrink"}]}, open(out, "w"), indent=1)
    print(json.dumps(program_of(case)["objects"]), [a["ops"] for a in program_of(case)["actors"]])


if __name__ == "__main__":
    main_()
