"""Verification build of SimGrid (from /repo's current working tree) and of the drivers.

Everything lives under /verif/build (git-ignored).  ensure_sg() is dependency-exact (ninja), so every
check runs against the current working tree of /repo at the cost of ~1 s when nothing changed.
"""
import fcntl
import os
import shlex
import subprocess
import sys

# VF_REPO / VF_BUILD let a scratch copy of the repository (a seeded change under test) be built and checked without
# touching /repo or /verif/build:  VF_REPO=/tmp/x/repo VF_BUILD=/tmp/x/verif/build ./check C15
# (same relative layout as /repo + /verif/build, so that the shared ccache hits).
REPO = os.environ.get("VF_REPO", "/repo")
VERIF = "/verif"
BUILD = os.environ.get("VF_BUILD", os.path.join(VERIF, "build"))
SG = os.path.join(BUILD, "sg")
DRV = os.path.join(BUILD, "drv")
CCACHE = os.path.join(VERIF, "build", "ccache")
GUARD = "SIMGRID_VERIF"
SG_TARGETS = ["simgrid", "simgrid-mc", "sthread", "smpimain", "smpireplaymain"]


class BuildFailed(Exception):
    pass


def _env():
    e = dict(os.environ)
    e["CCACHE_DIR"] = CCACHE
    e["CCACHE_BASEDIR"] = os.path.commonpath([REPO, BUILD])
    e["CCACHE_NOHASHDIR"] = "1"
    e["CCACHE_MAXSIZE"] = "8G"
    return e


def _locked(fn):
    os.makedirs(BUILD, exist_ok=True)
    with open(os.path.join(BUILD, ".lock"), "w") as lk:
        fcntl.flock(lk, fcntl.LOCK_EX)
        return fn()


def configure():
    os.makedirs(SG, exist_ok=True)
    os.makedirs(CCACHE, exist_ok=True)
    if os.path.exists(os.path.join(SG, "build.ninja")):
        return
    cmd = ["cmake", "-G", "Ninja", "-S", REPO, "-B", SG,
           "-Denable_lto=OFF", "-Denable_java=OFF", "-Denable_fortran=OFF", "-Denable_documentation=OFF",
           "-Denable_python=OFF", "-Denable_model-checking=ON", "-Denable_smpi=ON", "-Denable_sthread=ON",
           "-Denable_compile_warnings=OFF", "-Denable_compile_optimizations=ON",
           "-DCMAKE_BUILD_TYPE=RelWithDebInfo",
           "-DCMAKE_CXX_FLAGS_RELWITHDEBINFO=-O2 -g1", "-DCMAKE_C_FLAGS_RELWITHDEBINFO=-O2 -g1",
           "-DCMAKE_C_FLAGS=-D" + GUARD, "-DCMAKE_CXX_FLAGS=-D" + GUARD,
           "-DCMAKE_C_COMPILER_LAUNCHER=ccache", "-DCMAKE_CXX_COMPILER_LAUNCHER=ccache"]
    r = subprocess.run(cmd, env=_env(), stdout=subprocess.PIPE, stderr=subprocess.STDOUT, text=True)
    if r.returncode != 0:
        raise BuildFailed("cmake failed:\n" + r.stdout[-4000:])


def ensure_sg(quiet=True):
    """(Re)build libsimgrid & co from /repo's working tree."""
    def go():
        configure()
        r = subprocess.run(["ninja", "-C", SG] + SG_TARGETS, env=_env(), stdout=subprocess.PIPE,
                           stderr=subprocess.STDOUT, text=True)
        if r.returncode != 0:
            raise BuildFailed("simgrid build failed:\n" + r.stdout[-6000:])
        if not quiet:
            print(r.stdout[-300:])
    _locked(go)


# ---------------------------------------------------------------------------------------------
# Drivers.  name -> dict(src=[...], kind="cxx"|"smpicxx"|"c"|"fuzz", flags="", libs="")
INC = f"-I{REPO}/include -I{REPO}/src -I{REPO} -I{SG}/include -I{SG} -I{SG}/src"
CXXFLAGS = f"-std=gnu++20 -O1 -g1 -fno-access-control -D{GUARD} -Wno-deprecated-declarations {INC}"
LDFLAGS = f"-L{SG}/lib -Wl,-rpath,{SG}/lib -lsimgrid -lpthread"

DRIVERS = {}


def driver(name, src, kind="cxx", flags="", libs=""):
    DRIVERS[name] = dict(src=src if isinstance(src, list) else [src], kind=kind, flags=flags, libs=libs)


def _register():
    """A file /verif/drivers/<name>.{cpp,c} is a driver when one of its first 40 lines reads
         // vf-driver: kind=cxx|c|smpicxx|smpicc|fuzz [flags=<...>] [libs=<...>] [extra=<other sources, comma separated>]
       (flags/libs run to the next ' libs=' / ' extra=' marker or the end of the line)."""
    import glob
    import re
    for path in sorted(glob.glob(os.path.join(VERIF, "drivers", "*.c*"))):
        name = os.path.splitext(os.path.basename(path))[0]
        with open(path, errors="replace") as f:
            head = [next(f, "") for _ in range(40)]
        for l in head:
            m = re.match(r"\s*(//|\*|/\*)\s*vf-driver:\s*(.*)$", l)
            if not m:
                continue
            spec = m.group(2).strip()
            if spec.endswith("*/"):
                spec = spec[:-2].strip()
            parts = re.split(r"\s(?=(?:kind|flags|libs|extra)=)", " " + spec)
            kv = {}
            for part in parts:
                part = part.strip()
                if "=" in part:
                    k, v = part.split("=", 1)
                    kv[k] = v.strip()
            srcs = [os.path.basename(path)] + [x.strip() for x in kv.get("extra", "").split(",") if x.strip()]
            driver(name, srcs, kind=kv.get("kind", "cxx"), flags=kv.get("flags", ""), libs=kv.get("libs", ""))
            break


_register()


def _write_ninja():
    os.makedirs(DRV, exist_ok=True)
    out = []
    out.append(f"cxxflags = {CXXFLAGS}")
    out.append(f"ldflags = {LDFLAGS}")
    # CCACHE_NODIRECT: direct mode does not see __has_include (s4u_core.hpp includes the s4u_ext_*.hpp that exist)
    out.append("rule cxx\n  command = CCACHE_NODIRECT=1 ccache g++ $cxxflags $flags -MD -MF $out.d -c $in -o $out\n  depfile = $out.d\n  deps = gcc\n  description = CXX $out")
    out.append("rule cc\n  command = ccache gcc -O1 -g1 -D" + GUARD + f" {INC} $flags -MD -MF $out.d -c $in -o $out\n  depfile = $out.d\n  deps = gcc\n  description = CC $out")
    out.append("rule link\n  command = g++ $in -o $out $ldflags $libs\n  description = LINK $out")
    out.append("rule linkc\n  command = gcc $in -o $out $libs\n  description = LINK $out")
    out.append(f"rule smpicxx\n  command = {SG}/smpi_script/bin/smpicxx -std=gnu++20 -O1 -g1 -fno-access-control -D{GUARD} $flags $in -o $out $libs && touch $out\n  description = SMPICXX $out")
    out.append(f"rule smpicc\n  command = {SG}/smpi_script/bin/smpicc -O1 -g1 -D{GUARD} $flags $in -o $out $libs && touch $out\n  description = SMPICC $out")
    out.append("rule fuzz\n  command = clang++ -std=gnu++17 -g -O1 -fsanitize=fuzzer,address,undefined -fno-sanitize-recover=undefined $flags $in -o $out $libs\n  description = FUZZ $out")
    lib = f"{SG}/lib/libsimgrid.so"
    import glob as _glob
    # every header of /verif/drivers is an implicit input of every driver object: a NEW extension header (found through
    # __has_include, hence absent from the depfile) must trigger a rebuild too
    hdrs_all = " ".join(sorted(_glob.glob(os.path.join(VERIF, "drivers", "*.hpp")) + _glob.glob(os.path.join(VERIF, "drivers", "*.h"))))
    for name, d in sorted(DRIVERS.items()):
        srcs = [s if s.startswith("/") else os.path.join(VERIF, "drivers", s) for s in d["src"]]
        exe = os.path.join(DRV, name)
        if d["kind"] in ("cxx", "c"):
            objs = []
            for s in srcs:
                o = os.path.join(DRV, name + "." + os.path.basename(s) + ".o")
                rule = "cc" if s.endswith(".c") else "cxx"
                # only the sources that include s4u_core.hpp pick up extension headers through __has_include
                try:
                    uses_core = "s4u_core.hpp" in open(s, errors="replace").read()
                except OSError:
                    uses_core = False
                out.append(f"build {o}: {rule} {s} | {hdrs_all if uses_core else ''}\n  flags = {d['flags']}")
                objs.append(o)
            lrule = "link" if d["kind"] == "cxx" else "linkc"
            out.append(f"build {exe}: {lrule} {' '.join(objs)} | {lib}\n  libs = {d['libs']}")
        elif d["kind"] in ("smpicxx", "smpicc"):
            # smpicxx gives no depfile: depend on the sources, the library and the public smpi headers dir stamp
            hdrs = " ".join(os.path.join(VERIF, "drivers", h) for h in d.get("hdrs", []))
            out.append(f"build {exe}: {d['kind']} {' '.join(srcs)} | {lib} {REPO}/include/smpi/smpi.h {hdrs}\n  flags = {d['flags']}\n  libs = {d['libs']}")
        elif d["kind"] == "fuzz":
            out.append(f"build {exe}: fuzz {' '.join(srcs)}\n  flags = {d['flags']}\n  libs = {d['libs']}")
        else:
            raise ValueError(d["kind"])
    path = os.path.join(BUILD, "drivers.ninja")
    txt = "\n".join(out) + "\n"
    old = open(path).read() if os.path.exists(path) else None
    if old != txt:
        with open(path, "w") as f:
            f.write(txt)
    return path


def ensure_drivers(names):
    names = [n for n in names]
    if not names:
        return

    def go():
        path = _write_ninja()
        r = subprocess.run(["ninja", "-f", path, "-C", BUILD] + [os.path.join(DRV, n) for n in names],
                           env=_env(), stdout=subprocess.PIPE, stderr=subprocess.STDOUT, text=True)
        if r.returncode != 0:
            raise BuildFailed("driver build failed:\n" + r.stdout[-8000:])
    _locked(go)


def drv(name):
    return os.path.join(DRV, name)


def sg_bin(name):
    return os.path.join(SG, "bin", name)


def smpirun():
    return os.path.join(SG, "smpi_script", "bin", "smpirun")


def runtime_env(extra=None):
    e = dict(os.environ)
    e["LD_LIBRARY_PATH"] = os.path.join(SG, "lib") + ":" + e.get("LD_LIBRARY_PATH", "")
    e.pop("MALLOC_PERTURB_", None)
    if extra:
        e.update(extra)
    return e
