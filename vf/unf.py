"""Reference model (set theory over bit masks), case builder and generators for unfoldings (C44).

An unfolding is a list of events; event i = (transition spec, immediate causes among the events < i).
  e < e'        transitive closure of "is an immediate cause of"
  [e]           local configuration: e and all its causes
  direct conflict (e, e'): e != e', neither e < e' nor e' < e, and their transitions are dependent
  e # e'        some e1 in [e] and e2 in [e'] are in direct conflict              (conflict is inherited along <)
  configuration: causally closed (S = union of [e], e in S) and conflict-free set
  maximal set:   no event of the set causes another one (an antichain of <)
  e #i e'       e # e' and both [e] + [e') and [e) + [e'] are configurations      (immediate conflict, UDPOR paper)
"""
from hypothesis import strategies as st

from . import mcds

TYPE_OF_CLASS = {"syn": "UNKNOWN", "send": "COMM_ASYNC_SEND", "recv": "COMM_ASYNC_RECV", "iprobe": "COMM_IPROBE", "test": "COMM_TEST",
                 "wait": "COMM_WAIT", "join": "ACTOR_JOIN", "exit": "ACTOR_EXIT", "sleep": "ACTOR_SLEEP", "create": "ACTOR_CREATE",
                 "random": "RANDOM", "testany": "TESTANY", "waitany": "WAITANY"}


def spec_type(s):
    return s[1] if s[0] in ("mutex", "sem", "barrier", "condvar") else TYPE_OF_CLASS[s[0]]


def spec_tc(s):
    return s[2] if s[0] in ("testany", "waitany") else 0


def members(mask):
    res = []
    i = 0
    while mask:
        if mask & 1:
            res.append(i)
        mask >>= 1
        i += 1
    return res


def mask_of(lst):
    m = 0
    for i in lst:
        m |= 1 << i
    return m


class Ref:
    """Set-theoretic reference over events 0..n-1 (bit masks)."""

    def __init__(self, n):
        self.n = n
        self.lt = [0] * n       # strict causes
        self.le = [0] * n       # local configuration
        self.dep = [0] * n      # events whose transition is dependent with mine (self included or not: irrelevant)
        self.direct = [0] * n   # direct conflicts
        self.conf = [0] * n     # conflicts
        self.actor = [None] * n
        self.imm = [0] * n      # immediate causes as given to the event (may be redundant)
        self.used = 0           # events that exist (canonical ones)

    def add_event(self, i, causes, depmask, actor):
        lt = 0
        for c in causes:
            lt |= self.le[c]
        self.lt[i] = lt
        self.imm[i] = mask_of(causes)
        self.le[i] = lt | (1 << i)
        self.actor[i] = actor
        self.dep[i] = depmask
        for j in members(depmask):
            self.dep[j] |= 1 << i
        d = 0
        for j in members(self.used):
            if (depmask >> j) & 1 and not (lt >> j) & 1:      # j cannot be caused by i: i is new
                d |= 1 << j
                self.direct[j] |= 1 << i
        self.direct[i] = d
        self.used |= 1 << i
        # conflicts of the new event: everything whose local configuration meets the direct conflicts of [i]
        D = 0
        for k in members(self.le[i]):
            D |= self.direct[k]
        c = 0
        for j in members(self.used):
            if j != i and self.le[j] & D:
                c |= 1 << j
                self.conf[j] |= 1 << i
        self.conf[i] = c

    def history_conflict_free_with(self, H, c):
        """is H + [c] conflict-free, H being conflict-free and closed?"""
        return self.cfree(H | self.le[c])

    def closure(self, S):
        r = 0
        for i in members(S):
            r |= self.le[i]
        return r

    def closed(self, S):
        return self.closure(S) == S

    def cfree(self, S):
        for i in members(S):
            if self.conf[i] & S:
                return False
        return True

    def valid(self, S):
        return self.closed(S) and self.cfree(S)

    def maximal(self, S):
        r = 0
        for i in members(S):
            if not any((self.lt[j] >> i) & 1 for j in members(S)):
                r |= 1 << i
        return r

    def antichain(self, S):
        return self.maximal(S) == S

    def imm_conflict(self, i, j):
        return bool((self.conf[i] >> j) & 1) and self.valid(self.lt[i] | self.le[j]) and self.valid(self.le[i] | self.lt[j])

    def respects_causality(self, order):
        pos = {e: k for k, e in enumerate(order)}
        for e in order:
            for c in members(self.lt[e]):
                if c in pos and pos[c] > pos[e]:
                    return False
        return True

    def antichains(self, S, k=None, cap=None):
        """all antichains of S of size <= k (the empty one included); None when there are more than cap"""
        elems = members(S)
        res = []

        def rec(start, cur, curmask, blocked):
            res.append(curmask)
            if cap is not None and len(res) > cap:
                raise OverflowError
            if k is not None and len(cur) >= k:
                return
            for p in range(start, len(elems)):
                e = elems[p]
                if (blocked >> e) & 1:
                    continue
                # e must be unrelated to everything in cur
                rec(p + 1, cur + [e], curmask | (1 << e), blocked | self.le[e] | self.desc(e, S))
        try:
            rec(0, [], 0, 0)
        except OverflowError:
            return None
        return res

    def desc(self, e, S):
        r = 0
        for j in members(S):
            if (self.lt[j] >> e) & 1:
                r |= 1 << j
        return r

    def redundant_in(self, S):
        """does some event of the closure of S have an immediate cause that is also a cause of another of its immediate causes?"""
        return any(self.maximal(self.imm[i]) != self.imm[i] for i in members(self.closure(S)))

    def latest_of(self, S, actor):
        cand = [i for i in members(S) if self.actor[i] == actor]
        tops = [i for i in cand if not any((self.lt[j] >> i) & 1 for j in cand)]
        return tops


# ---------------------------------------------------------------------------------------------------------------------
# generator

@st.composite
def unf_cases(draw, max_events=15, tier="quick"):
    tabs, ts, fl = draw(mcds.transition_lists(max_len=max_events, min_len=1))
    n = len(ts)
    small = st.integers(0, 15)
    events = []
    for i, t in enumerate(ts):
        cand = draw(st.lists(small, min_size=0, max_size=3)) if i else []
        # flags: bit0 = keep redundant causes as given, bit1 = chain on the previous event (deep structures), 7 = duplicate an earlier event
        flag = draw(st.sampled_from([0, 2, 2, 0, 2, 2, 7, 0, 2, 2, 1, 3]))
        events.append([t, cand, flag])
    sets = draw(st.lists(st.lists(small, min_size=0, max_size=6), min_size=1, max_size=4))
    ks = draw(st.lists(st.sampled_from([None, None, 1, 1, 2, 3, 5]), min_size=len(sets), max_size=len(sets)))
    iters = [draw(st.integers(0, 7)), draw(st.integers(0, 8)), draw(st.integers(0, 6)),
             draw(st.lists(st.integers(0, 3), min_size=0, max_size=4))]
    case = {"syn": tabs, "events": events, "sets": sets, "ks": ks, "iters": iters}
    if tier == "thorough":
        case["allsets"] = 12       # every subset of the first 12 events (4096) instead of the first 9 (512)
    return case
