"""C47: generated S4U programs x tracing options -> scenario for drivers/s4u_wf.cpp; the Paje validator is vf/paje.py."""
import os

from hypothesis import strategies as st

from . import core, paje, s4u, syncgen

DRIVER = "s4u_wf"
EXT_VERSION = "wf-ext-v3"
HOSTS = ["h0", "h1", "h2"]
BOOL_OPTS = ["tracing/actor", "tracing/uncategorized", "tracing/categorized", "tracing/platform", "tracing/basic", "tracing/disable-destroy",
             "tracing/disable_link", "tracing/disable_power"]


@st.composite
def cases(draw):
    prog = draw(syncgen.programs(kinds=("mutex", "mailbox", "exec", "async"), max_actors=4, max_ops=8, min_actors=1,
                                 platform=s4u.small_shared_platform()))
    # most programs should terminate: serve the unmatched puts and gets of every mailbox (kills and suspensions still produce deadlocks)
    if draw(st.integers(0, 5)) > 0:
        for mb in range(prog["objects"].get("mailbox", 0)):
            np_ = sum(1 for a in prog["actors"] for o in a["ops"] if o[0] in ("put", "put_async") and o[1] == mb)
            ng = sum(1 for a in prog["actors"] for o in a["ops"] if o[0] in ("get", "get_async") and o[1] == mb)
            if np_ != ng:
                prog["actors"].append({"name": "srv%d" % mb, "host": draw(st.sampled_from(HOSTS)), "daemon": draw(st.booleans()),
                                       "ops": [["get", mb, {}] if np_ > ng else ["put", mb, 64, {}]] * abs(np_ - ng)})
    durations = st.sampled_from([0.0, 0.25, 0.5, 1.0, 2.0])
    simple = st.one_of(st.tuples(st.just("sleep"), durations), st.tuples(st.just("exec"), st.sampled_from([0.0, 256.0, 1024.0, 4096.0]), st.just({})),
                       st.tuples(st.just("set_host"), st.sampled_from(HOSTS)), st.tuples(st.just("yield")),
                       st.tuples(st.just("io"), st.just("d2"), st.sampled_from([0, 1024, 8192]), st.sampled_from(["read", "write"]), st.just({})))
    ntmpl = draw(st.sampled_from([0, 1, 1, 2]))
    prog["templates"] = [{"ops": [list(o) for o in draw(st.lists(simple, max_size=4))]} for _ in range(ntmpl)]
    names = [a["name"] for a in prog["actors"]]
    targets = names + [n + ".0" for n in names] + [n + ".1" for n in names[:1]]
    nlife = draw(st.integers(0, 6))
    for _ in range(nlife):
        a = prog["actors"][draw(st.integers(0, len(names) - 1))]
        kinds = ["migrate", "migrate", "set_host", "set_host", "suspend", "resume", "kill", "sleep", "sleep", "exec", "mark", "host_var"]
        if ntmpl:
            kinds += ["spawn"] * 6
        k = draw(st.sampled_from(kinds))
        if k == "spawn":
            op = ["spawn", draw(st.integers(0, ntmpl - 1)), draw(st.sampled_from(HOSTS))]
        elif k == "migrate":
            op = ["migrate", draw(st.sampled_from(targets)), draw(st.sampled_from(HOSTS))]
        elif k == "set_host":
            op = ["set_host", draw(st.sampled_from(HOSTS))]
        elif k in ("suspend", "resume", "kill"):
            op = [k, draw(st.sampled_from(targets))]
        elif k == "sleep":
            op = ["sleep", draw(durations)]
        elif k == "mark":
            op = ["mark", draw(st.sampled_from(["m0", "m1"])), draw(st.sampled_from(["v0", "v1"]))]
        elif k == "host_var":
            op = ["host_var", draw(st.sampled_from(HOSTS)), draw(st.sampled_from(["uv0", "uv1"])), draw(st.sampled_from(["set", "add", "sub"])),
                  draw(st.sampled_from([0.0, 1.0, 2.5]))]
        else:
            op = ["exec", draw(st.sampled_from([256.0, 1024.0])), {}]
        a["ops"].insert(draw(st.integers(0, len(a["ops"]))), op)
    # an asynchronous communication is waited for before its actor ends (most of the time): the actor's "send"/"receive" state is popped
    # when the communication completes
    for a in prog["actors"]:
        hs = [o[4] if o[0] == "put_async" else o[2] for o in a["ops"] if o[0] in ("put_async", "get_async")]
        waited = {o[1] for o in a["ops"] if o[0] == "wait"}
        if draw(st.integers(0, 7)) > 0:
            for h in hs:
                if h not in waited:
                    a["ops"].append(["wait", h, {}])
    for a in prog["actors"]:
        if "daemon" not in a and draw(st.integers(0, 7)) == 0:
            a["daemon"] = True
            a["ops"].append(["sleep", 1000.0])
    # resource utilisation of activities on different resources that start together and end at different dates (the retroactive events of
    # the later ones are older than everything still buffered): 2-3 actors on distinct hosts start with execs of different sizes
    staggered = draw(st.integers(0, 2)) == 0
    if staggered:
        k = draw(st.integers(2, 3))
        while len(prog["actors"]) < k:
            prog["actors"].append({"name": "x%d" % len(prog["actors"]), "host": "h0", "ops": []})
        flops = draw(st.permutations([256.0, 1024.0, 2560.0]))
        for i in range(k):
            a = prog["actors"][i]
            a["host"] = HOSTS[i]
            a["ops"].insert(0, ["exec", flops[i], {}])
            a["ops"].append(["sleep", draw(st.sampled_from([0.5, 4.0]))])       # stays alive: its container is not destroyed at once
    opts = {}
    if staggered:
        opts[draw(st.sampled_from(["tracing/uncategorized", "tracing/uncategorized", "tracing/categorized"]))] = "yes"
    for o in BOOL_OPTS:
        p = 4 if o in ("tracing/actor", "tracing/uncategorized") else 1
        if draw(st.integers(0, 4)) < p:
            opts[o] = "yes"
    if draw(st.integers(0, 4)) == 0:
        opts["tracing/platform/topology"] = "no"
    if draw(st.integers(0, 3)) == 0:
        opts["tracing/precision"] = str(draw(st.sampled_from([0, 1, 3, 9, 12])))
    cats = []
    if "tracing/categorized" in opts:
        cats = ["c%d" % i for i in range(draw(st.integers(1, 2)))]
        for a in prog["actors"]:
            for op in a["ops"]:
                if op[0] == "exec" and len(op) == 3 and op[2] == {} and draw(st.booleans()):
                    op[:] = ["cat_exec", op[1], draw(st.sampled_from(cats))]
                elif op[0] == "put" and len(op) == 4 and op[3] == {} and draw(st.booleans()):
                    op[:] = ["cat_put", op[1], op[2], draw(st.sampled_from(cats))]
    return {"prog": prog, "opts": opts, "categories": cats}


def scenario(case, trace_path, tracing=True):
    sc = dict(case["prog"])
    sc["quiet"] = ["adv"]
    if tracing:
        sc["args"] = ["--cfg=tracing:yes", "--cfg=tracing/filename:" + trace_path] + ["--cfg=%s:%s" % kv for kv in sorted(case["opts"].items())]
        if case.get("categories"):
            sc["trace"] = {"categories": case["categories"]}
    return sc


def run(case, cpu=20, wall=240, tracing=True):
    path = core.write_tmp("", suffix=".trace")
    try:
        log = s4u.Log(core.serve(DRIVER, scenario(case, path, tracing), cpu=cpu, wall=wall))
        try:
            with open(path, errors="replace") as f:
                text = f.read()
        except OSError:
            text = ""
    finally:
        try:
            os.unlink(path)
        except OSError:
            pass
    if log.done and log.lines[-1].get("ext") != EXT_VERSION:
        raise core.Inconclusive("stale driver: built from extension header %r, expected %r" % (log.lines[-1].get("ext"), EXT_VERSION))
    return log, text


# ------------------------------------------------------------------------------------------------ MPI programs (drivers/mpi_interp, notes/MPI_INFRA.md)
SMPI_OPTS = ["tracing/smpi/internals", "tracing/smpi/computing", "tracing/smpi/sleeping", "tracing/smpi/display-sizes", "tracing/smpi/group",
             "tracing/basic", "tracing/uncategorized", "tracing/platform", "tracing/disable-destroy"]


@st.composite
def mpi_cases(draw):
    np_ = draw(st.integers(1, 6))
    size = 64
    prog = [{"op": "buf", "name": "s", "size": size * 8 * np_, "fill": 1}, {"op": "buf", "name": "r", "size": size * 8 * np_, "fill": 0}]
    n = draw(st.integers(1, 10))
    nreq = 0
    for _ in range(n):
        k = draw(st.sampled_from(["barrier", "bcast", "reduce", "allreduce", "gather", "scatter", "allgather", "alltoall", "scan", "pair", "pair",
                                  "iring", "iring", "sleep", "sleep"] * 2 + ["ring"]))
        cnt = draw(st.sampled_from([1, 4, 16, 64]))
        root = draw(st.integers(0, np_ - 1))
        if k == "barrier":
            prog.append({"op": "barrier"})
        elif k == "bcast":
            prog.append({"op": "bcast", "buf": "s", "count": cnt, "type": "INT", "root": root})
        elif k in ("reduce", "allreduce", "scan"):
            op = {"op": k, "sbuf": "s", "rbuf": "r", "count": cnt, "type": "INT", "mop": "SUM"}
            if k == "reduce":
                op["root"] = root
            prog.append(op)
        elif k in ("gather", "scatter", "allgather", "alltoall"):
            op = {"op": k, "sbuf": "s", "scount": cnt, "stype": "INT", "rbuf": "r", "rcount": cnt, "rtype": "INT"}
            if k in ("gather", "scatter"):
                op["root"] = root
            prog.append(op)
        elif k == "ring" and np_ > 1:
            prog.append({"op": "sendrecv", "sbuf": "s", "scount": cnt, "stype": "INT", "dest": {"@": [(r + 1) % np_ for r in range(np_)]}, "stag": 3,
                         "rbuf": "r", "rcount": cnt, "rtype": "INT", "src": {"@": [(r - 1) % np_ for r in range(np_)]}, "rtag": 3})
        elif k == "pair" and np_ > 1:
            a, b = draw(st.permutations(list(range(np_))))[:2]
            mode = draw(st.sampled_from(["std", "ssend"]))
            prog.append({"op": "send", "only": [a], "buf": "s", "count": cnt, "type": "INT", "dest": b, "tag": 5, "mode": mode})
            prog.append({"op": "recv", "only": [b], "buf": "r", "count": cnt, "type": "INT", "src": a, "tag": 5})
        elif k == "iring" and np_ > 1:
            rq, sq = "rq%d" % nreq, "sq%d" % nreq
            nreq += 1
            prog.append({"op": "irecv", "buf": "r", "count": cnt, "type": "INT", "src": {"@": [(r - 1) % np_ for r in range(np_)]}, "tag": 7, "req": rq})
            prog.append({"op": "isend", "buf": "s", "count": cnt, "type": "INT", "dest": {"@": [(r + 1) % np_ for r in range(np_)]}, "tag": 7, "req": sq})
            if draw(st.booleans()):
                prog.append({"op": "sleep", "d": {"@": [draw(st.sampled_from([0.0, 0.001, 0.01])) for _ in range(np_)]}})
            prog.append({"op": "waitall", "reqs": [rq, sq]})
        else:
            prog.append({"op": "sleep", "d": {"@": [draw(st.sampled_from([0.0, 0.001, 0.01, 0.1])) for _ in range(np_)]}})
    opts = {}
    for o in SMPI_OPTS:
        if draw(st.integers(0, 3)) == 0:
            opts[o] = "yes"
    if draw(st.integers(0, 3)) == 0:
        opts["tracing/precision"] = str(draw(st.sampled_from([0, 3, 9])))
    coll = draw(st.sampled_from([None, None, "mpich", "ompi", "mvapich2"]))
    return {"mpi": {"np": np_, "prog": prog}, "opts": opts, "selector": coll}


def run_mpi(case, cpu=30, wall=300):
    from . import mpi
    path = core.write_tmp("", suffix=".trace")
    try:
        kase = dict(case["mpi"])
        kase["cfg"] = ["tracing:yes", "tracing/filename:" + path, "tracing/smpi:yes"] + ["%s:%s" % kv for kv in sorted(case["opts"].items())]
        if case.get("selector"):
            kase["cfg"].append("smpi/coll-selector:" + case["selector"])
        res = mpi.run(kase, cpu=cpu, wall=wall)
        try:
            with open(path, errors="replace") as f:
                text = f.read()
        except OSError:
            text = ""
    finally:
        try:
            os.unlink(path)
        except OSError:
            pass
    return res, text


def all_cases():
    return st.one_of(cases(), cases(), mpi_cases())
