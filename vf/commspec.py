"""Sequential specifications of S4U mailboxes (C08) and message queues (C09), replayed over the kernel-ordered log of the
S4U interpreter (drivers/s4u_core.hpp + drivers/s4u_ext_comm.hpp).  See notes/C08.md.

What the specification decides: ORDER and IDENTITY (which put a get receives, that nothing is received twice, that the payload
is intact).  Completion DATES depend on the platform model and are taken from the log: whether a wait timed out, whether a
cancelled transfer had already finished, ... are observations.  The specification only says what they may be consistent with.

Events that are not linearised by a `req` record:
 * the cancel() that Mailbox::get(timeout) / Mailbox::put(timeout) / wait_for_or_cancel() issue after a timeout is a simcall of
   its own, issued in the scheduling round where the actor resumes and logged nowhere.  Requests of other actors carrying the
   same date and logged before the `ret` record of the timed-out operation may have been handled before or after it.  When
   such a request would select the timed-out comm, both orders are tried (angelic choice): a run is accepted when at least one
   resolution explains every observation.
 * an actor that terminates cancels its pending activities from its own context (ActorImpl::cleanup_from_self), i.e. before
   the simcalls issued earlier in the same round are handled.  Generated programs finalise every handle with an explicit
   cancel; when a replayed scenario does not, the mailbox is tainted (order no longer asserted on it).
"""
import json

from . import s4u

T = s4u.T

SEND_OPS = ("put", "put_t", "put_async", "put_init", "put_detach", "fsend", "put_wait")
RECV_OPS = ("get", "get_async", "frecv", "get_wait")
MQ_SEND_OPS = ("mq_put", "mq_put_async", "mq_put_wait", "mq_put_detach")
MQ_RECV_OPS = ("mq_get", "mq_get_async", "mq_get_wait")
PAYLOAD_OPS = SEND_OPS + MQ_SEND_OPS + ("tsend",)


class Comm:
    def __init__(self, cid, kind, dom, box, actor, idx):
        self.cid = cid
        self.kind = kind          # 's' | 'r'
        self.dom = dom            # 'mb' | 'mq'
        self.box = box
        self.actor = actor
        self.idx = idx
        self.filt = None          # None | dict(id, tag, peer)
        self.payload = None       # sends: dict(from, seq, size, tag)
        self.state = "new"        # new | init | queued | paired | eager | dead
        self.peer = None
        self.detached = False
        self.arrival = None
        self.zombie = None        # (date, n_ret) of the hidden cancel that follows a timeout
        self.causes = []          # events that may make the comm fail (cancel, timeout+cancel, death of its owner)
        self.delivered = False
        self.cleaned = False
        self.reported = False     # receive: the slot was reported (and emptied) once
        self.blocking = False     # the issuing operation blocks until completion
        self.ok = False           # some operation observed its successful completion
        self.stale_slot = False   # mq get that timed out: its slot is a dead stack variable
        self.lazy = False         # mq put_init()->wait() / get_init()->wait() without start: returns at once
        self.returned = False     # the blocking operation that issued it has returned
        self.timed_out = False    # a wait on it timed out
        self.delivered_to = None
        self.buf = None           # buffer mode: bytes sent / capacity of the receive buffer
        self.copies = 0
        self.was_eager = False

    def ident(self):
        if self.kind == "s":
            return "put %s#%d (seq %d, op %d of %s)" % (self.payload["from"], self.payload["seq"], self.payload["seq"], self.idx, self.actor)
        return "get op %d of %s" % (self.idx, self.actor)


def accepts(s, r):
    """both filters; a side without filter accepts everything and is accepted by everybody"""
    if s.filt is None or r.filt is None:
        return True
    fs, fr = s.filt, r.filt
    return (fr["tag"] < 0 or fr["tag"] == fs["tag"]) and (fr["peer"] < 0 or fr["peer"] == fs["id"]) and \
           (fs["peer"] < 0 or fs["peer"] == fr["id"])


class NeedChoice(Exception):
    pass


class Spec:
    """one replay of the log under a given resolution of the choice points"""

    def __init__(self, scenario, lines, prefix):
        self.sc = scenario
        self.lines = lines
        self.prefix = list(prefix)
        self.taken = []
        self.viol = []
        self.labels = set()
        ob = scenario.get("objects", {})
        self.mbs = [dict(q=[], done=[], perm=None, taint=None, quirk=False, late=False) for _ in range(int(ob.get("mailbox", 0)))]
        self.mqs = [dict(q=[], taint=None) for _ in range(int(ob.get("mqueue", 0)))]
        self.comms = []
        self.handles = {}
        self.fhandles = {}
        self.nput = {}
        self.sends = {}           # (from, seq) -> Comm
        self.opcomm = {}          # (actor, idx) -> Comm of a blocking operation
        self.arrival = 0
        self.ret_of = {}
        self.snap = {}            # (actor, idx) -> model snapshot taken at the request of an observation
        self.deadlocked = False
        self.ndelivered = 0
        self.ended = set()
        self.sleep_req = {}
        self.failed_wait = {}     # actor -> op index of its last operation that ended with an exception raised by the kernel
        self.busy_dates = {}      # date -> actors that issued a request at that date
        for l in lines:
            if l.get("k") == "ret":
                self.ret_of[(l["a"], l["i"])] = l
            elif l.get("k") == "req":
                self.busy_dates.setdefault(l["t"], set()).add(l["a"])

    # ------------------------------------------------------------------ helpers
    def bad(self, sig, msg, box=None):
        if box is not None and box.get("quirk"):
            sig = "fifo:late-set_receiver"
            msg = "(mailbox that got its permanent receiver while sends were already queued) " + msg
        self.viol.append((sig, msg))

    def choose(self, what):
        k = len(self.taken)
        v = self.prefix[k] if k < len(self.prefix) else False
        self.taken.append(v)
        self.labels.add("choice:" + what)
        return v

    def new_comm(self, kind, dom, box, rec):
        c = Comm(len(self.comms), kind, dom, box, rec["a"], rec["i"])
        self.comms.append(c)
        return c

    def new_send(self, dom, box, rec, size, tag=0, filt=None):
        a = rec["a"]
        seq = self.nput.get(a, 0)
        self.nput[a] = seq + 1
        c = self.new_comm("s", dom, box, rec)
        c.payload = {"from": a, "seq": seq, "size": float(size), "tag": tag}
        c.filt = filt
        self.sends[(a, seq)] = c
        return c

    def box_of(self, c):
        return self.mbs[c.box] if c.dom == "mb" else self.mqs[c.box]

    def zombie_active(self, c, rec):
        if c.zombie is None:
            return False
        if c.zombie[0] is None:      # fate unknown for good (message-queue operation whose timeout expired, see on_ret)
            return True
        return T(rec["t"]) == c.zombie[0] and rec["n"] < c.zombie[1]

    def register_zombie(self, c, rec):
        """rec: the request of an operation that cancels `c` when its wait times out"""
        ret = self.ret_of.get((rec["a"], rec["i"]))
        if ret is not None and ret.get("exc") == "Timeout":
            c.zombie = (T(ret["t"]), ret["n"])
            # known from now on: the peer's failure may be logged before the Timeout of this side
            c.causes.append("timeout-pending")

    def find(self, queue, kind, x, rec, box):
        """first comm of `kind` in queue order that both filters accept; returns (comm, n accepted, head skipped)"""
        res = None
        gone = []
        nacc = 0
        skipped = False
        seen_kind = 0
        for c in queue:
            if c.kind != kind:
                continue
            seen_kind += 1
            ok = accepts(c, x) if kind == "s" else accepts(x, c)
            if not ok:
                if res is None:
                    skipped = True
                continue
            if res is None and self.zombie_active(c, rec):
                if not self.choose("timed-out-comm-still-queued"):
                    gone.append(c)      # its cancel was handled first
                    continue
            nacc += 1
            if res is None:
                res = c
        for c in gone:
            queue.remove(c)
            c.state = "dead"
            c.causes.append("timeout")
        if res is not None:
            pre = "pending-%s" % ("sends" if kind == "s" else "recvs")
            if nacc >= 2:
                self.labels.add(pre + ">=2")
            if nacc >= 3:
                self.labels.add(pre + ">=3")
            if skipped:
                self.labels.add("filter-skips-head")
        return res

    def pair(self, s, r):
        s.peer = r
        r.peer = s
        if (s.buf is None) != (r.buf is None):
            self.box_of(s)["taint"] = "pointer and buffer payloads mixed on one mailbox (the copy function of the last comer is used)"
        if s.dom == "mq" and (s.timed_out or r.timed_out):
            self.labels.add("mq-completion-after-timed-out-wait")
        if s.state != "eager":
            s.state = "paired"
        else:
            s.state = "paired"
            s.was_eager = True
        r.state = "paired"

    # ------------------------------------------------------------------ mailbox events
    def isend(self, s, rec):
        M = self.mbs[s.box]
        self.arrival += 1
        s.arrival = self.arrival
        r = self.find(M["q"], "r", s, rec, M)
        if r is not None:
            M["q"].remove(r)
            self.pair(s, r)
            self.labels.add("send-finds-recv")
        elif M["perm"] is not None:
            s.state = "eager"
            M["done"].append(s)
            self.labels.add("perm-eager-send")
            if len(M["done"]) >= 2:
                self.labels.add("perm-done>=2")
        else:
            s.state = "queued"
            M["q"].append(s)
            if any(c.kind == "r" for c in M["q"]):
                self.labels.add("mixed-queue")

    def irecv(self, r, rec):
        M = self.mbs[r.box]
        self.arrival += 1
        r.arrival = self.arrival
        if M["done"] and M["perm"] is None and M["taint"] is None:
            M["taint"] = "receiver unset while eager messages were stored"
        # what the documentation promises: the oldest send that both filters accept
        cq = self.find(M["q"], "s", r, rec, M)
        cd = None
        nd = 0
        dskip = False
        if M["perm"] is not None:
            for c in M["done"]:
                if c.kind == "s" and accepts(c, r):
                    nd += 1
                    if cd is None:
                        cd = c
                elif cd is None:
                    dskip = True
        ideal = None
        for c in (cq, cd):
            if c is not None and (ideal is None or c.arrival < ideal.arrival):
                ideal = c
        # what MailboxImpl/CommImpl::irecv do: the stored (eager) messages first; the queue is not even looked at when
        # some eager message is stored and none of them matches
        if M["perm"] is not None and M["done"]:
            impl = cd
        else:
            impl = cq
        if impl is not ideal:
            M["quirk"] = True
            self.labels.add("late-set_receiver-divergence")
        if cd is not None:
            self.labels.add("perm-recv-from-done")
            if nd >= 2:
                self.labels.add("perm-done-accepted>=2")
            if dskip:
                self.labels.add("perm-done-filter-skips-head")
        if ideal is not None:
            (M["done"] if ideal is cd else M["q"]).remove(ideal)
            self.pair(ideal, r)
            self.labels.add("recv-finds-send")
        else:
            r.state = "queued"
            M["q"].append(r)
            if any(c.kind == "s" for c in M["q"]):
                self.labels.add("mixed-queue")

    def cancel(self, c, cause):
        B = self.box_of(c)
        if c.state == "queued":
            B["q"].remove(c)
            c.state = "dead"
            self.labels.add("cancel-unmatched-" + ("send" if c.kind == "s" else "recv"))
        elif c.state in ("init", "new"):
            c.state = "dead"
        elif c.state in ("paired", "eager"):
            self.labels.add("cancel-after-match" if c.state == "paired" else "cancel-eager")
            if c.peer is not None:
                c.peer.causes.append(cause + "-by-peer")
        c.causes.append(cause)

    def start_if_needed(self, c, rec):
        if c.state == "init":
            if c.dom == "mb":
                self.isend(c, rec)
            else:
                self.iput(c, rec)

    # ------------------------------------------------------------------ message queue events
    def mq_find(self, Q, kind, rec):
        res = None
        gone = []
        n = 0
        for c in Q["q"]:
            if c.kind != kind:
                continue
            if res is None and self.zombie_active(c, rec):
                if not self.choose("timed-out-mess-still-queued"):
                    gone.append(c)
                    continue
            n += 1
            if res is None:
                res = c
        for c in gone:
            Q["q"].remove(c)
            c.state = "dead"
        if res is not None:
            pre = "pending-%s" % ("sends" if kind == "s" else "recvs")
            if n >= 2:
                self.labels.add(pre + ">=2")
            if n >= 3:
                self.labels.add(pre + ">=3")
        return res

    def iput(self, s, rec):
        Q = self.mqs[s.box]
        self.arrival += 1
        s.arrival = self.arrival
        r = self.mq_find(Q, "r", rec)
        if r is not None:
            Q["q"].remove(r)
            self.pair(s, r)
            self.labels.add("send-finds-recv")
            if r.stale_slot:
                self.labels.add("put-meets-timed-out-get")
        else:
            s.state = "queued"
            Q["q"].append(s)

    def iget(self, r, rec):
        Q = self.mqs[r.box]
        self.arrival += 1
        r.arrival = self.arrival
        s = self.mq_find(Q, "s", rec)
        if s is not None:
            Q["q"].remove(s)
            self.pair(s, r)
            self.labels.add("recv-finds-send")
        else:
            r.state = "queued"
            Q["q"].append(r)

    def refinish(self, c):
        """finish() of a matched message is run again by this operation: MessImpl delivers the payload pointer again, into a
        buffer that is a dead local variable when the receiver was a blocking get that has returned"""
        if c is None or c.dom != "mq" or c.state != "paired":
            return
        g = c if c.kind == "r" else c.peer
        if g is not None and g.blocking and (g.returned or c.kind == "s"):
            self.labels.add("mq-refinish-after-blocking-get")
        elif g is not None and g.reported:
            # heap slot of an asynchronous get, already consumed (payload freed by the receiver): it is filled again with the stale pointer
            self.labels.add("mq-refinish-after-blocking-get")
            self.labels.add("mq-refinish-after-consumed-slot")

    # ------------------------------------------------------------------ observations
    def has_cause(self, c):
        return bool(c.causes) or (c.peer is not None and bool(c.peer.causes))

    def check_payload(self, r, p, rec):
        """receive comm r reported payload p"""
        where = "%s op %d (%s) at n=%d" % (rec["a"], rec["i"], self.op_of(rec), rec["n"])
        B = self.box_of(r)
        if not p.get("intact"):
            self.bad("payload-corrupted", "%s received a payload whose integrity check fails: %s" % (where, json.dumps(p)))
            return
        s = self.sends.get((p["from"], p["seq"]))
        if s is None:
            self.bad("payload-unknown", "%s received %s, which no put issued so far carries" % (where, json.dumps(p)))
            return
        if "len" in p and s.buf is not None and r.buf is not None:
            exp = min(s.buf, r.buf)
            if int(p["len"]) != exp or int(p.get("sent", s.buf)) != s.buf:
                self.bad("payload-length-wrong", "%s received %d bytes of a %d-byte message (header says %s) in a %d-byte buffer: expected %d"
                         % (where, p["len"], s.buf, p.get("sent"), r.buf, exp))
            self.labels.add("buffer-truncated" if r.buf < s.buf else "buffer-delivered")
        if "bufsz" in p and int(p["bufsz"]) != 8:
            self.bad("buffer-size-changed", "%s: the kernel changed the size of the pointer-sized receive buffer to %s" % (where, p["bufsz"]))
        if float(p["size"]) != s.payload["size"] or int(p["tag"]) != s.payload["tag"]:
            self.bad("payload-changed", "%s received %s but the put carried %s" % (where, json.dumps(p), json.dumps(s.payload)))
        if s.delivered:
            self.bad("payload-delivered-twice", "%s received %s, already delivered before" % (where, json.dumps(p)), B)
        s.delivered = True
        s.delivered_to = r
        self.ndelivered += 1
        if s.cleaned:
            self.bad("delivered-after-clean-up", "%s received %s whose detached comm had already called its clean-up function"
                     % (where, json.dumps(p)))
        if s.detached:
            self.labels.add("detached-delivered")
        if s.dom != r.dom or s.box != r.box:
            self.bad("payload-crossed-boxes", "%s on %s%d received %s that was put on %s%d" % (where, r.dom, r.box, json.dumps(p), s.dom, s.box))
            return
        if p["size"] == 0:
            self.labels.add("delivered-size0")
        if p["size"] >= 1e8:
            self.labels.add("delivered-size>=1e8")
        if B["taint"] is not None:
            self.labels.add("tainted-box-skipped")
            return
        if r.peer is s:
            return
        exp = r.peer
        if exp is None:
            self.bad("get-matched-nothing", "%s received %s but in the specification this receive (state %s) is matched with no put: "
                     "the put is %s" % (where, json.dumps(p), r.state, s.state), B)
        elif not accepts(s, r):
            self.bad("filter-violated", "%s received %s which its filter %s / the sender's filter %s rejects; expected %s"
                     % (where, json.dumps(p), r.filt, s.filt, exp.ident()), B)
        elif s.arrival > exp.arrival:
            self.bad("fifo-violated", "%s received %s (arrival %d) while an older acceptable put was pending: %s (arrival %d)"
                     % (where, json.dumps(p), s.arrival, exp.ident(), exp.arrival), B)
        else:
            self.bad("wrong-match", "%s received %s; the specification matched this receive with %s" % (where, json.dumps(p), exp.ident()), B)

    def recv_report(self, r, val, rec):
        """a completion of receive comm r was reported with JSON value val (payload object or None)"""
        if val is None:
            if r.reported:
                self.labels.add("recv-reported-again-empty")
                return
            if self.has_cause(r):
                return
            if r.lazy:
                return
            self.bad("recv-completed-without-payload", "%s op %d (%s): the receive completed successfully but its buffer holds nothing"
                     % (rec["a"], rec["i"], self.op_of(rec)), self.box_of(r))
            return
        if r.reported:
            self.bad("payload-reported-twice", "%s op %d (%s): the receive buffer was filled again after its payload had been consumed: %s"
                     % (rec["a"], rec["i"], self.op_of(rec), json.dumps(val)), self.box_of(r))
            return
        r.reported = True
        r.ok = True
        self.check_payload(r, val, rec)

    def send_ok(self, s, rec):
        s.ok = True
        B = self.box_of(s)
        if s.state not in ("paired", "eager") and B["taint"] is None and not s.lazy and not s.causes:   # test() of a cancelled comm answers true
            self.bad("send-completed-unmatched", "%s op %d (%s) completed successfully but in the specification its put is %s "
                     "(no receive took it, no permanent receiver)" % (rec["a"], rec["i"], self.op_of(rec), s.state), B)

    def op_of(self, rec):
        a = next((x for x in self.sc["actors"] if x["name"] == rec["a"]), None)
        try:
            return json.dumps(a["ops"][rec["i"]])
        except Exception:
            return "?"

    # ------------------------------------------------------------------ dumps
    def model_dump(self, dom, box, rec):
        B = (self.mbs if dom == "mb" else self.mqs)[box]

        def ent(c):
            return ("s", c.payload["from"], c.payload["seq"]) if c.kind == "s" else ("r", c.actor)
        q = [(ent(c), self.zombie_active(c, rec)) for c in B["q"]]
        d = [ent(c) for c in B.get("done", [])]
        return dict(q=q, done=d, perm=B.get("perm"), taint=B["taint"], quirk=B.get("quirk"))

    def compare_dump(self, snap, real, where, dom, box):
        B = (self.mbs if dom == "mb" else self.mqs)[box]
        if snap["taint"] is not None or B["taint"] is not None:
            return

        def rent(e):
            return (e[0], e[1], e[2]) if e[0] == "s" else (e[0], e[1])
        rq = [rent(e) for e in real["q"]]
        firm = [e for e, z in snap["q"] if not z]
        maybe = [e for e, z in snap["q"] if z]
        rq2 = [e for e in rq if e not in maybe]
        if rq2 != firm:
            self.bad("queue-differs", "%s: the queue of %s%d holds %s, the specification says %s%s" %
                     (where, dom, box, rq, [e for e, z in snap["q"]], " (timed-out entries optional)" if maybe else ""), B)
        if dom == "mb":
            rd = [rent(e) for e in real["done"]]
            if rd != snap["done"]:
                self.bad("done-queue-differs", "%s: the stored (eager) messages of mb%d are %s, the specification says %s" %
                         (where, box, rd, snap["done"]), B)
            if real["perm"] != snap["perm"]:
                self.bad("receiver-differs", "%s: permanent receiver of mb%d is %s, expected %s" % (where, box, real["perm"], snap["perm"]))

    # ------------------------------------------------------------------ main loop
    def run(self):
        for rec in self.lines:
            k = rec.get("k")
            if k == "req":
                self.on_req(rec)
            elif k == "ret":
                self.on_ret(rec)
            elif k == "detach_clean":
                s = self.sends.get((rec["payload"]["from"], rec["payload"]["seq"]))
                if s is None:
                    self.bad("clean-up-unknown", "clean-up function called for an unknown payload %s" % rec["payload"])
                    continue
                if s.cleaned:
                    self.bad("clean-up-twice", "the clean-up function of the detached %s ran twice" % s.ident())
                s.cleaned = True
                self.labels.add("detached-cleaned")
                if s.delivered:
                    self.bad("clean-up-after-delivery", "the clean-up function of the detached %s ran although its payload had been "
                             "delivered (the receiver owns it)" % s.ident())
                if not s.detached:
                    self.bad("clean-up-of-attached", "clean-up function called for %s, which is not detached" % s.ident())
            elif k == "copy":
                s = self.sends.get((rec.get("from"), rec.get("seq")))
                if s is None:
                    if any(M["taint"] is not None for M in self.mbs):
                        continue
                    self.bad("copy-of-unknown-payload", "the copy function was called on a buffer that is no known message: %s" % json.dumps(rec))
                    continue
                s.copies += 1
                if s.copies > 1:
                    self.bad("payload-copied-twice", "the data of %s was copied %d times" % (s.ident(), s.copies), self.box_of(s))
                if s.peer is not None and s.peer.buf is not None and s.buf is not None and int(rec["bytes"]) != min(s.buf, s.peer.buf) \
                        and self.box_of(s)["taint"] is None:
                    self.bad("payload-length-wrong", "%d bytes of %s (%d bytes) copied into the %d-byte buffer of %s"
                             % (rec["bytes"], s.ident(), s.buf, s.peer.buf, s.peer.ident()), self.box_of(s))
            elif k == "match_misuse":
                self.bad("filter-args-swapped", "a match function was called with (mine role=%s, other role=%s): the contract is "
                         "fun(data of the comm owning the function, data of the other side)" % (rec.get("mine_role"), rec.get("other_role")))
            elif k == "body_end":
                self.on_end(rec)
            elif k == "deadlock":
                self.deadlocked = True
            elif k == "final_dump":
                if rec["when"] == "deadlock" or not self.deadlocked:
                    for i, real in enumerate(rec.get("mb", [])):
                        self.compare_dump(self.model_dump("mb", i, rec), real, "at the " + rec["when"], "mb", i)
                    for i, real in enumerate(rec.get("mq", [])):
                        self.compare_dump(self.model_dump("mq", i, rec), real, "at the " + rec["when"], "mq", i)
        self.at_end()

    def filt_of(self, opts, role):
        if role == "s":
            return dict(id=int(opts.get("id", 0)), tag=int(opts.get("tag", 0)), peer=int(opts.get("dst", -1)))
        return dict(id=int(opts.get("id", 0)), tag=int(opts.get("tag", -1)), peer=int(opts.get("src", -1)))

    def on_req(self, rec):
        op = rec["op"]
        o = op[0]
        a = rec["a"]
        key = (a, rec["i"])

        def opts(k):
            return op[k] if len(op) > k and isinstance(op[k], dict) else {}
        if o == "sleep":
            self.sleep_req[key] = (T(rec["t"]), float(op[1]))
        # ---------------- mailbox sends
        elif o in ("put", "put_t", "put_async", "put_init", "put_detach", "put_wait"):
            s = self.new_send("mb", op[1], rec, op[2])
            if o in ("put", "put_t", "put_wait"):
                s.blocking = True
                self.opcomm[key] = s
            if o == "put" and "timeout" in opts(3):
                # the interpreter's put with a timeout never cancels and drops its handle: outside the specification
                self.mbs[op[1]]["taint"] = "core put with timeout"
            if o in ("put_async", "put_init"):
                self.handles[op[4]] = s
            if o == "put_detach":
                s.detached = True
            if o == "put_init":
                s.state = "init"
            else:
                self.isend(s, rec)
            if o == "put_t":
                self.register_zombie(s, rec)
                self.labels.add("put-with-timeout")
            if op[2] == 0:
                self.labels.add("size0")
            if op[2] >= 1e8:
                self.labels.add("size>=1e8")
            if "rate" in opts(3):
                self.labels.add("rate")
        elif o == "fsend":
            op3 = opts(3)
            s = self.new_send("mb", op[1], rec, op[2], tag=int(op3.get("tag", 0)), filt=self.filt_of(op3, "s"))
            if "buf" in op3:
                s.buf = int(op3["buf"])
                self.labels.add("buffer-mode")
            if op3.get("detach"):
                s.detached = True
            elif "h" in op3:
                self.fhandles[op3["h"]] = s
            else:
                s.blocking = True
                self.opcomm[key] = s
            self.isend(s, rec)
            self.labels.add("filtered-send")
        # ---------------- mailbox receives
        elif o in ("get", "get_async", "get_wait"):
            r = self.new_comm("r", "mb", op[1], rec)
            if o == "get_async":
                self.handles[op[2]] = r
                if "rate" in opts(3):
                    self.labels.add("rate")
            else:
                r.blocking = True
                self.opcomm[key] = r
            self.irecv(r, rec)
            if o == "get" and "timeout" in opts(2):
                self.register_zombie(r, rec)
                self.labels.add("get-with-timeout")
        elif o == "frecv":
            op2 = opts(2)
            r = self.new_comm("r", "mb", op[1], rec)
            r.filt = self.filt_of(op2, "r")
            if "cap" in op2:
                r.buf = int(op2["cap"])
            if "h" in op2:
                self.fhandles[op2["h"]] = r
            else:
                r.blocking = True
                self.opcomm[key] = r
            self.irecv(r, rec)
            self.labels.add("filtered-recv")
        # ---------------- handles
        elif o in ("start", "wait", "test", "cancel", "fwait", "ftest", "fcancel"):
            c = (self.fhandles if o[0] == "f" else self.handles).get(op[1])
            if c is None:
                return
            if o in ("start", "wait", "test"):
                self.start_if_needed(c, rec)
            if o in ("wait", "test"):
                self.refinish(c)
            if o == "wait" and opts(2).get("or_cancel") and "timeout" in opts(2):
                self.register_zombie(c, rec)
            if o in ("cancel", "fcancel"):
                self.cancel(c, "cancel")
        elif o in ("wait_any", "test_any"):
            for h in op[1]:
                self.refinish(self.handles.get(h))
            if a in self.failed_wait:
                # the observer of the failed simcall dangles until the next simcall; the constructor of the waitany/testany observer reads it
                self.labels.add("waitany-after-failed-wait")
        elif o == "set_receiver":
            M = self.mbs[op[1]]
            unset = len(op) > 2 and op[2] is False
            if unset:
                M["perm"] = None
                if M["done"]:
                    M["taint"] = "receiver unset while eager messages were stored"
                self.labels.add("unset-receiver")
            else:
                M["perm"] = a
                self.labels.add("set-receiver")
                if any(c.kind == "s" for c in M["q"]):
                    M["late"] = True
                    self.labels.add("late-set_receiver")
        elif o == "mb_dump":
            self.snap[key] = self.model_dump("mb", op[1], rec)
        elif o == "mq_dump":
            self.snap[key] = self.model_dump("mq", op[1], rec)
        elif o == "iprobe":
            self.snap[key] = self.probe(op, rec)
        # ---------------- message queues
        elif o in ("mq_put", "mq_put_async", "mq_put_wait", "mq_put_detach"):
            s = self.new_send("mq", op[1], rec, 0)
            if o == "mq_put":
                s.blocking = True
                self.opcomm[key] = s
                if "timeout" in opts(2):
                    self.labels.add("mq-put-with-timeout")
            elif o == "mq_put_async":
                self.handles[op[2]] = s
            elif o == "mq_put_wait":
                s.lazy = True         # put_init()->wait() without start: returns at once, queued or not
                self.opcomm[key] = s
                if "h" in opts(2):
                    self.handles[opts(2)["h"]] = s
                self.labels.add("mq-put_init-wait")
            else:
                s.detached = True
            self.iput(s, rec)
            if o == "mq_put":
                self.refinish(s)      # put = put_async + wait: the wait runs finish() again
                if "timeout" in opts(2):
                    self.register_zombie(s, rec)      # put(payload, timeout) cancels the message when the timeout expires
        elif o in ("mq_get", "mq_get_async", "mq_get_wait"):
            r = self.new_comm("r", "mq", op[1], rec)
            if o == "mq_get":
                r.blocking = True
                self.opcomm[key] = r
                if "timeout" in opts(2):
                    self.labels.add("mq-get-with-timeout")
            elif o == "mq_get_async":
                self.handles[op[2]] = r
            else:
                r.lazy = True
                self.handles[op[2]] = r
                self.opcomm[key] = r
                self.labels.add("mq-get_init-wait")
            self.iget(r, rec)
            if o == "mq_get" and "timeout" in opts(2):
                self.register_zombie(r, rec)          # get(timeout) cancels the message when the timeout expires

    def probe(self, op, rec):
        """expected answer of Mailbox::iprobe: the comm a matching operation posted now would take"""
        M = self.mbs[op[1]]
        o3 = op[3] if len(op) > 3 and isinstance(op[3], dict) else {}
        as_recv = op[2] == "recv"
        x = Comm(-1, "r" if as_recv else "s", "mb", op[1], rec["a"], rec["i"])
        if not o3.get("nofilter"):
            x.filt = self.filt_of(o3, "r" if as_recv else "s")
        kind = "s" if as_recv else "r"
        cands = []
        unsure = False
        for c in M["q"]:
            if c.kind == kind and (accepts(c, x) if kind == "s" else accepts(x, c)):
                if self.zombie_active(c, rec):
                    unsure = True
                cands.append(c)
        if as_recv and M["perm"] is not None:
            cands += [c for c in M["done"] if accepts(c, x)]
        ideal = min(cands, key=lambda c: c.arrival) if cands else None
        # the implementation looks at the stored messages first
        impl = None
        if as_recv and M["perm"] is not None and M["done"]:
            impl = next((c for c in M["done"] if accepts(c, x)), None)
        if impl is None:
            impl = next((c for c in M["q"] if c.kind == kind and (accepts(c, x) if kind == "s" else accepts(x, c))), None)
        if impl is not ideal:
            M["quirk"] = True
        self.labels.add("iprobe-hit" if ideal is not None else "iprobe-miss")
        return dict(unsure=unsure or M["taint"] is not None, exp=ideal, box=M)

    def on_ret(self, rec):
        a = rec["a"]
        key = (a, rec["i"])
        act = next((x for x in self.sc["actors"] if x["name"] == a), None)
        if act is None or rec["i"] >= len(act["ops"]):
            return
        op = act["ops"][rec["i"]]
        o = op[0]
        exc = rec.get("exc")
        val = rec.get("r")
        if exc in ("NetworkFailure", "Cancel", "HostFailure"):
            self.failed_wait[a] = rec["i"]
        elif a in self.failed_wait and o not in ("now", "put_init", "mq_peek", "test"):     # those may not perform any simcall
            del self.failed_wait[a]       # any later simcall that returns normally resets the pointer

        def opts(k):
            return op[k] if len(op) > k and isinstance(op[k], dict) else {}
        if o == "sleep" and key in self.sleep_req and exc is None:
            t0, d = self.sleep_req[key]
            if T(rec["t"]) < t0 + d - 1e-9:
                self.bad("sleep-returned-early", "%s op %d: sleep(%g) requested at %.17g returned at %.17g" % (a, rec["i"], d, t0, T(rec["t"])))
        elif o in ("put", "put_t", "put_wait", "mq_put", "mq_put_wait") or (o == "fsend" and key in self.opcomm):
            s = self.opcomm[key]
            if exc is None:
                self.send_ok(s, rec)
            elif exc == "Timeout":
                if o == "put_t":
                    self.hidden_cancel(s)
                    self.labels.add("timeout-put-" + ("unmatched" if s.state == "dead" else "matched"))
                elif o == "mq_put":
                    self.hidden_cancel(s)
                    s.timed_out = True
                    self.labels.add("mq-put-timed-out")
            self.check_exc(s, exc, rec)
        elif o in ("get", "get_wait", "mq_get", "mq_get_wait") or (o == "frecv" and key in self.opcomm):
            r = self.opcomm[key]
            r.returned = True
            if exc is None:
                self.recv_report(r, val, rec)
            elif exc == "Timeout":
                if o == "mq_get":
                    self.hidden_cancel(r)
                    r.timed_out = True
                if o == "get":
                    self.hidden_cancel(r)
                    self.labels.add("timeout-get-" + ("unmatched" if r.state == "dead" else "matched"))
                elif o == "mq_get":
                    if r.state == "queued":
                        r.stale_slot = True     # only when the cancel that must follow the timeout did not remove it
                    self.labels.add("mq-get-timed-out")
            self.check_exc(r, exc, rec)
        elif o in ("wait", "test", "fwait", "ftest", "mq_peek"):
            c = (self.fhandles if o[0] == "f" else self.handles).get(op[1])
            if c is None:
                return
            if exc is None:
                if o in ("test", "ftest") and val is False:
                    return
                if c.kind == "r":
                    if o == "mq_peek" and val is None:
                        return
                    self.recv_report(c, val, rec)
                else:
                    self.send_ok(c, rec)
            elif exc == "Timeout":
                if o == "wait" and opts(2).get("or_cancel"):
                    self.hidden_cancel(c)
                c.timed_out = True
                self.labels.add("wait-timed-out")
            self.check_exc(c, exc, rec)
        elif o in ("wait_any", "test_any"):
            if exc is None and isinstance(val, dict):
                c = self.handles.get(val["h"])
                if c is not None:
                    self.labels.add(o + "-hit")
                    if c.kind == "r":
                        self.recv_report(c, val["r"], rec)
                    else:
                        self.send_ok(c, rec)
        elif o in ("mb_dump", "mq_dump"):
            if exc is None and key in self.snap:
                self.compare_dump(self.snap[key], val, "%s op %d (%s)" % (a, rec["i"], o), "mb" if o == "mb_dump" else "mq", op[1])
        elif o == "iprobe":
            sn = self.snap.get(key)
            if sn is None or exc is not None or sn["unsure"]:
                return
            exp = sn["exp"]
            if exp is None:
                if val is not None:
                    self.bad("iprobe-differs", "%s op %d %s found %s, the specification says nothing matches" % (a, rec["i"], json.dumps(op), val), sn["box"])
            else:
                e = ["s", exp.payload["from"], exp.payload["seq"]] if exp.kind == "s" else ["r", exp.actor]
                if val is None or val[:len(e)] != e:
                    self.bad("iprobe-differs", "%s op %d %s found %s, the specification says %s" % (a, rec["i"], json.dumps(op), val, e), sn["box"])

    def hidden_cancel(self, c):
        if c.state == "queued":
            self.box_of(c)["q"].remove(c)
            c.state = "dead"
        elif c.peer is not None:
            c.peer.causes.append("timeout-by-peer")
        c.causes.append("timeout")
        c.zombie = None

    def check_exc(self, c, exc, rec):
        if exc in ("NetworkFailure", "Cancel") and not self.has_cause(c) and self.box_of(c)["taint"] is None:
            self.bad("comm-failed-without-cause", "%s op %d (%s) failed with %s although nobody cancelled this communication or its peer"
                     % (rec["a"], rec["i"], self.op_of(rec), exc), self.box_of(c))
        if exc is not None and exc not in ("NetworkFailure", "Cancel", "Timeout"):
            self.bad("unexpected-exception", "%s op %d (%s) raised %s" % (rec["a"], rec["i"], self.op_of(rec), exc))

    def on_end(self, rec):
        a = rec["a"]
        self.ended.add(a)
        for c in self.comms:
            if c.actor != a or c.detached:
                continue
            if c.state == "queued":
                B = self.box_of(c)
                B["q"].remove(c)
                c.state = "dead"
                c.causes.append("owner-ended")
                self.labels.add("end-cleans-queued-comm")
                if B["taint"] is None and self.busy_dates.get(rec["t"], set()) - {a}:
                    B["taint"] = "an actor ended with a queued comm while others were active (that cancellation is not linearised)"
            elif c.state in ("paired", "eager") and not c.ok:
                c.causes.append("owner-ended")
                if c.peer is not None:
                    c.peer.causes.append("peer-ended")

    def at_end(self):
        # a matched communication that nobody cancelled completes: the operation blocked on it must have returned
        for (a, i), c in sorted(self.opcomm.items()):
            if (a, i) in self.ret_of or not c.blocking:
                continue
            if c.state in ("paired", "eager") and not self.has_cause(c) and self.box_of(c)["taint"] is None:
                if c.state == "eager" or c.peer is not None:
                    self.bad("matched-comm-never-completed", "%s op %d (%s) never returned although its communication was matched (%s) and "
                             "never cancelled" % (a, i, self.op_of(dict(a=a, i=i)),
                                                  c.peer.ident() if c.peer is not None else "eager send to the permanent receiver"), self.box_of(c))
        # independent of the matching rules above: the unfiltered messages of one sender to one box are taken by the receives in
        # the order they were sent (receives ordered by their own request order, sends by theirs)
        per = {}
        for c in self.comms:
            if c.kind == "s" and c.delivered and c.filt is None and c.delivered_to.filt is None and c.dom == c.delivered_to.dom \
                    and c.box == c.delivered_to.box and c.arrival is not None and c.delivered_to.arrival is not None:
                per.setdefault((c.dom, c.box, c.actor), []).append((c.delivered_to.arrival, c.arrival, c))
        for (dom, box, actor), lst in sorted(per.items()):
            lst.sort(key=lambda x: x[0])
            for (ra, sa, c), (rb, sb, d) in zip(lst, lst[1:]):
                if sb < sa:
                    B = (self.mbs if dom == "mb" else self.mqs)[box]
                    self.bad("sender-order-violated", "%s%d: %s (sent later) was taken by an earlier receive (%s) than %s (taken by %s)"
                             % (dom, box, c.ident(), c.delivered_to.ident(), d.ident(), d.delivered_to.ident()), B)
                    break
            if len(lst) >= 3:
                self.labels.add("sender-order-checked>=3")
        if self.ndelivered == 0:
            self.labels.add("delivered=0")
        elif self.ndelivered <= 2:
            self.labels.add("delivered=1-2")
        elif self.ndelivered <= 5:
            self.labels.add("delivered=3-5")
        else:
            self.labels.add("delivered>=6")
        self.labels.add("deadlock" if self.deadlocked else "all-actors-finished")


ROOT_CAUSES = ("fifo:late-set_receiver",)


def badness(sp):
    """among resolutions that all show violations, report the one that is explained best: fewest violations outside the
    root-cause classes the specification recognises, then fewest violations"""
    return (sum(1 for sig, _ in sp.viol if not sig.startswith(ROOT_CAUSES)), len(sp.viol))


def replay(scenario, lines, budget=48):
    """angelic search over the resolutions of the choice points.  Returns (violations, labels, n resolutions tried) or
    (None, labels, n) when the budget was exhausted before a verdict."""
    todo = [[]]
    best = None
    tried = 0
    while todo:
        if tried >= budget:
            return None, (best.labels if best else set()), tried
        prefix = todo.pop()
        sp = Spec(scenario, lines, prefix)
        sp.run()
        tried += 1
        if not sp.viol:
            return [], sp.labels, tried
        if best is None or badness(sp) < badness(best):
            best = sp
        for k in range(len(prefix), len(sp.taken)):
            if not sp.taken[k]:
                todo.append(sp.taken[:k] + [True])
    return best.viol, best.labels, tried


def all_labels(scenario, lines, budget=32):
    """labels met under any resolution of the choice points (used to attribute a crash: the log stops at the crash)"""
    todo = [[]]
    labels = set()
    tried = 0
    while todo and tried < budget:
        prefix = todo.pop()
        sp = Spec(scenario, lines, prefix)
        try:
            sp.run()
        except Exception:
            pass
        tried += 1
        labels |= sp.labels
        for k in range(len(prefix), len(sp.taken)):
            if not sp.taken[k]:
                todo.append(sp.taken[:k] + [True])
    return labels
