"""C22 (builder "fault"): availability profiles (speed / bandwidth / latency / state), their reference semantics and the workloads that
observe them.  See notes/C22.md.

Reference (docs/source/XML_reference.rst "availability_file", "bandwidth_file", "latency_file", "state_file"; Modeling_howtos.rst "churn"):
a profile is a list of (date, value) points; the value set by a point holds until the next point; before the first point the resource
has its nominal value; a speed value is a RATIO of the nominal speed, bandwidth and latency values are absolute, a state value of 0
means OFF; a periodic profile restarts `loop delay` seconds after its last point (the interpreter's "period" P is the PERIODICITY of
ProfileBuilder::from_string: loop delay = P - last date, i.e. the k-th repetition of point (d, v) happens at k*P + d).
"""
import math

from hypothesis import strategies as st

from . import core, s4u

T = s4u.T
DRIVER = "s4u_fault"
TOL = 1e-9


# ------------------------------------------------------------------------------------------------ reference semantics
def events(prof, until):
    """[(date, value)] of every event of the profile up to date `until` (inclusive), repetitions included, in firing order"""
    pts = prof["points"]
    P = prof.get("period", -1)
    out = []
    if not pts:
        return out
    k = 0
    while True:
        base = k * P if P > 0 else 0.0
        for d, v in pts:
            if base + d > until:
                return out
            out.append((base + d, v))
        if not P > 0:
            return out
        k += 1


def value_at(evs, nominal, t, tol=0.0):
    """value in force at date t (the latest event <= t wins); with tol > 0: the set of admissible values when t is within tol of an event"""
    v = nominal
    adm = None
    for d, x in evs:
        if d <= t:
            v = x
        else:
            break
    if tol > 0:
        adm = {v}
        prev = nominal
        for d, x in evs:
            if abs(d - t) <= tol:
                adm.add(x)
                adm.add(prev)
            prev = x
            if d > t + tol:
                break
        return v, adm
    return v


def solve_integral(t0, amount, rate0, changes, horizon=1e9):
    """date t at which the integral of the piecewise-constant rate from t0 reaches `amount`; `rate0` = rate in force at t0,
    `changes` = [(date > t0, new rate)] sorted; math.inf when it never does (rate 0 for ever)"""
    t, rate, left = t0, rate0, amount
    for d, r in changes:
        if d <= t:
            rate = r
            continue
        if rate > 0 and left <= rate * (d - t):
            return t + left / rate
        left -= rate * (d - t)
        t, rate = d, r
    if rate > 0:
        return t + left / rate
    return math.inf


# ------------------------------------------------------------------------------------------------ generators
def dates(n, lo=0.0, hi=12.0, den=8):
    return st.lists(st.integers(int(lo * den), int(hi * den)), min_size=n, max_size=n).map(lambda l: sorted(x / den for x in l))


@st.composite
def profiles(draw, values, max_points=20, periodic=None, first_at_zero=None, dyadic=True, min_points=1):
    """{"points": [[date, value], ...], "period": P or -1}; dates are multiples of 1/8 (exact arithmetic) unless dyadic=False"""
    n = draw(st.one_of(st.integers(min_points, 4), st.integers(min_points, max_points)))
    ds = draw(dates(n))
    if not dyadic:
        f = draw(st.sampled_from([0.7, 1 / 3, 1.1, 0.9, 0.1]))
        ds = [d * f for d in ds]        # dates that are not representable: the kernel accumulates deltas, the reference multiplies
    if first_at_zero is True or (first_at_zero is None and draw(st.integers(0, 3)) == 0):
        ds[0] = 0.0
    elif first_at_zero is False and ds[0] == 0.0:
        ds = [d + 0.125 for d in ds]
    pts = [[d, draw(values)] for d in ds]
    per = draw(st.booleans()) if periodic is None else periodic
    P = -1
    if per:
        delta = draw(st.sampled_from([0.0, 0.125, 0.5, 1.0, 2.0, 4.0]))
        P = ds[-1] + delta
        if P < 0.25:
            P = 0.25
    return {"points": pts, "period": P}


SPEED_VALUES = st.sampled_from([0.5, 0.25, 1.0, 0.75, 0.125, 2.0])
BW_VALUES = st.sampled_from([512.0, 1024.0, 2048.0, 4096.0, 256.0])
LAT_VALUES = st.sampled_from([0.25, 0.5, 1.0, 0.0, 2.0, 0.125])
STATE_VALUES = st.sampled_from([0, 1])
FLOPS = st.sampled_from([512.0, 1024.0, 2048.0, 4096.0, 256.0, 8192.0])
SIZES = st.sampled_from([512.0, 1024.0, 2048.0, 4096.0, 8192.0])
QUART = st.integers(0, 12).map(lambda k: k / 4)


@st.composite
def scenarios(draw, tier="quick"):
    cpu = draw(st.sampled_from(["Lazy", "Lazy", "Full", "TI"]))
    net = draw(st.sampled_from(["Lazy", "Lazy", "Full"]))
    kinds = draw(st.lists(st.sampled_from(["speed", "speed", "bw", "bw", "lat", "hstate", "hstate", "lstate"]), min_size=1, max_size=3, unique=True))
    dy = draw(st.integers(0, 3)) > 0          # 1 scenario in 4 uses dates that are not multiples of 1/8
    h0 = {"name": "h0", "speed": 1024.0, "cores": 1 if cpu == "TI" else 2}
    l0 = {"name": "l0", "bw": 1024.0, "lat": 0.5, "policy": "SHARED"}
    nominal_lat = draw(st.sampled_from([0.5, 0.0, 1.0]))
    l0["lat"] = nominal_lat
    if "speed" in kinds:
        # TI: repeating profiles only (asserted by the model); with a single point CpuTi::get_speed_ratio segfaults (known finding of C19)
        h0["speed_profile"] = draw(profiles(SPEED_VALUES, dyadic=dy, periodic=True if cpu == "TI" else None, min_points=2 if cpu == "TI" else 1))
    if "hstate" in kinds:
        h0["state_profile"] = draw(profiles(STATE_VALUES, max_points=8, dyadic=dy))
    if "bw" in kinds:
        l0["bw_profile"] = draw(profiles(BW_VALUES, dyadic=dy))
    if "lat" in kinds:
        l0["lat_profile"] = draw(profiles(LAT_VALUES, max_points=8, dyadic=dy))
    if "lstate" in kinds:
        l0["state_profile"] = draw(profiles(STATE_VALUES, max_points=8, dyadic=dy))
    oc_ = 1 if cpu == "TI" else 2
    plat = {"hosts": [h0, {"name": "h1", "speed": 1024.0, "cores": oc_}, {"name": "h2", "speed": 1024.0, "cores": oc_}],
            "links": [l0, {"name": "l1", "bw": 1024.0, "lat": 0.5, "policy": "SHARED"}],
            "routes": [{"src": "h1", "dst": "h2", "links": ["l0"], "sym": True}, {"src": "h0", "dst": "h1", "links": ["l1"], "sym": True}]}
    actors = []
    # w0: isolated executions on the profiled host, observations of its speed
    ops = []
    for _ in range(draw(st.integers(2, 6))):
        k = draw(st.sampled_from(["exec", "exec", "exec", "sleep", "info"]))
        if k == "exec":
            ops.append(["exec", draw(FLOPS), {}])
        elif k == "sleep":
            ops.append(["sleep", draw(QUART)])
        else:
            ops.append(["speed_info", "h0"])
    ops.append(["speed_info", "h0"])
    if cpu == "TI" and "speed" not in kinds:      # Host::get_available_speed() segfaults there (known finding of C19): not called
        ops = [o for o in ops if o[0] != "speed_info"] or [["sleep", 1.0]]
    actors.append({"name": "w0", "host": "h0", "on_exit": 1, "ops": ops, "auto_restart": draw(st.booleans()) if ("hstate" in kinds and not h0["state_profile"]["period"] > 0) else False})
    # r0: remote executions on the profiled host from h1 (second core), observations
    ops = []
    for _ in range(draw(st.integers(1, 5))):
        k = draw(st.sampled_from(["exec", "exec", "sleep", "info"]))
        if k == "exec" and cpu != "TI":
            ops.append(["exec", draw(FLOPS), {"host": "h0"}])
        elif k == "sleep" or k == "exec":
            ops.append(["sleep", draw(QUART)])
        else:
            ops.append(["speed_info", "h0"])
    if cpu == "TI" and "speed" not in kinds:
        ops = [o for o in ops if o[0] != "speed_info"] or [["sleep", 1.0]]
    actors.append({"name": "r0", "host": "h1", "on_exit": 1, "ops": ops})
    # s1 -> g2: isolated communications over the profiled link, observations
    sops, gops = [], []
    for _ in range(draw(st.integers(1, 4))):
        if draw(st.integers(0, 2)) == 0:
            sops.append(["sleep", draw(QUART)])
        if draw(st.integers(0, 3)) == 0:
            gops.append(["sleep", draw(QUART)])
        if draw(st.integers(0, 2)) == 0:
            sops.append(["link_info", "l0"])
        sops.append(["xput", 0, draw(SIZES), {}])
        gops.append(["xget", 0, {}])
    gops.append(["link_info", "l0"])
    actors.append({"name": "s1", "host": "h1", "on_exit": 1, "ops": sops})
    actors.append({"name": "g2", "host": "h2", "on_exit": 1, "ops": gops})
    cfg = ["network/model:CM02", "network/crosstraffic:0", "network/TCP-gamma:0", "cpu/optim:" + cpu, "network/optim:" + net]
    sample = {"bw": ["l0"]}
    if not (cpu == "TI" and "speed" not in kinds):
        sample["speed"] = ["h0"]
    return {"cfg": cfg, "platform": plat, "objects": {"mailbox": 1}, "actors": actors, "sample": sample, "dyadic": dy}


def _other(draw, values, prev, up):
    """a value of `values` different from prev, larger when `up` (if there is one), smaller otherwise (if there is one)"""
    cands = [v for v in values if (v > prev if up else v < prev)] or [v for v in values if v != prev]
    return draw(st.sampled_from(cands))


@st.composite
def restart_scenarios(draw):
    """A resource that carries a value profile (speed; bandwidth and/or latency) AND goes off and on again (state profile, or turn_off / turn_on
    called by an actor of another host), with value events (increases and decreases) INSIDE the off intervals, and probes (isolated executions /
    communications, getters) right after the restart and before the next value event.  The documented value at date t is the last point <= t
    whatever the state in between."""
    cpu = draw(st.sampled_from(["Lazy", "Lazy", "Full"]))
    net = draw(st.sampled_from(["Lazy", "Full"]))
    target = draw(st.sampled_from(["host", "host", "host", "link", "link"]))
    manual = draw(st.integers(0, 2)) == 0
    eighth = lambda lo, hi: st.integers(int(lo * 8), int(hi * 8)).map(lambda k: k / 8)
    # off intervals
    nint = draw(st.integers(1, 2))
    ivs, t = [], 0.0
    for _ in range(nint):
        a = t + draw(eighth(0.5, 3.0))
        b = a + draw(eighth(0.5, 3.0))
        ivs.append((a, b))
        t = b + draw(eighth(2.0, 5.0))
    shift = 1 / 16 if manual else 0.0            # manual switches fall between the dates of everything else
    # value events: some before the first interval, 1-2 inside every interval, the next one well after the restart (or none)

    def value_profile(values, nominal):
        pts, prev, t0 = [], nominal, 0.0
        for (a, b) in ivs:
            for _ in range(draw(st.integers(0, 1)) if pts else draw(st.integers(0, 3)) > 0):
                d = draw(eighth(t0, a))
                prev = _other(draw, values, prev, draw(st.integers(0, 3)) == 0)       # mostly a decrease: leaves room for an increase while off
                pts.append([d, prev])
            n_in = draw(st.integers(1, 2))
            ds = sorted(draw(st.lists(st.integers(int(a * 8) + 1, int(b * 8) - 1), min_size=n_in, max_size=n_in)))
            for k, d8 in enumerate(ds):
                up = draw(st.integers(0, 3)) > 0 if k == len(ds) - 1 else draw(st.booleans())      # the last one mostly raises the value
                prev = _other(draw, values, prev, up)
                pts.append([d8 / 8, prev])
            gap = draw(st.sampled_from([1.0, 2.0, 1.5, None]))
            t0 = b
            if gap is not None:
                prev = _other(draw, values, prev, draw(st.booleans()))
                pts.append([b + gap, prev])
                t0 = b + gap
        pts.sort(key=lambda x: x[0])
        return {"points": pts, "period": -1}
    h0 = {"name": "h0", "speed": 1024.0, "cores": 2}
    l0 = {"name": "l0", "bw": 1024.0, "lat": draw(st.sampled_from([0.5, 0.25, 0.0])), "policy": "SHARED"}
    state = {"points": [p for (a, b) in ivs for p in ([a, 0], [b, 1])], "period": -1}
    man = {}
    if target == "host":
        h0["speed_profile"] = value_profile([0.25, 0.5, 1.0, 0.125, 0.75, 2.0], 1.0)
        if manual:
            man["host"] = [[a + shift, 0] if v == 0 else [a + shift, 1] for a, v in state["points"]]
        else:
            h0["state_profile"] = state
    else:
        which = draw(st.sampled_from(["bw", "bw", "lat", "both"]))
        if which in ("bw", "both"):
            l0["bw_profile"] = value_profile([512.0, 1024.0, 2048.0, 4096.0, 256.0], 1024.0)
        if which in ("lat", "both"):
            l0["lat_profile"] = value_profile([0.25, 0.5, 1.0, 0.125, 0.0], l0["lat"])
        if manual:
            man["link"] = [[a + shift, v] for a, v in state["points"]]
        else:
            l0["state_profile"] = state
    plat = {"hosts": [h0, {"name": "h1", "speed": 1024.0, "cores": 2}, {"name": "h2", "speed": 1024.0, "cores": 2}],
            "links": [l0, {"name": "l1", "bw": 1024.0, "lat": 0.5, "policy": "SHARED"}],
            "routes": [{"src": "h1", "dst": "h2", "links": ["l0"], "sym": True}, {"src": "h0", "dst": "h1", "links": ["l1"], "sym": True}]}
    small = st.sampled_from([128.0, 256.0, 512.0, 64.0])
    delay = st.sampled_from([1 / 8, 1 / 4, 1 / 2, 0.0] if not manual else [1 / 8, 1 / 4, 1 / 2])
    w, r, sp, gp = [], [], [], []
    if target == "host":
        # w0 restarts with the host (auto-restart) and probes at once; r0 probes from h1 shortly after every restart
        for _ in range(draw(st.integers(1, 3))):
            w.append(draw(st.sampled_from([["exec", draw(small), {}], ["speed_info", "h0"], ["sleep", draw(st.sampled_from([0.25, 0.5]))]])))
        w += [["exec", draw(small), {}], ["speed_info", "h0"]]
        if draw(st.booleans()):
            r.append(["exec", draw(FLOPS), {"host": "h0"}])          # possibly in flight when the host goes off
        for (a, b) in ivs:
            r += [["sleep_until", b + shift + draw(delay)], ["speed_info", "h0"], ["exec", draw(small), {"host": "h0"}], ["speed_info", "h0"]]
            if draw(st.booleans()):
                r.append(["exec", draw(FLOPS), {"host": "h0"}])      # may span the next speed event
        sp, gp = [["xput", 0, 512.0, {}]], [["xget", 0, {}]]
    else:
        w, r = [["exec", 512.0, {}], ["speed_info", "h0"]], [["sleep", 1.0]]
        if draw(st.booleans()):
            sp.append(["xput", 0, draw(SIZES), {}])                  # possibly in flight when the link goes off
            gp.append(["xget", 0, {}])
        for (a, b) in ivs:
            sp += [["sleep_until", b + shift + draw(delay)], ["link_info", "l0"], ["xput", 0, draw(st.sampled_from([256.0, 512.0, 1024.0])), {}], ["link_info", "l0"]]
            gp.append(["xget", 0, {}])
            if draw(st.booleans()):
                sp.append(["xput", 0, draw(SIZES), {}])
                gp.append(["xget", 0, {}])
        gp.append(["link_info", "l0"])
    actors = [{"name": "w0", "host": "h0", "on_exit": 1, "ops": w, "auto_restart": target == "host"},
              {"name": "r0", "host": "h1", "on_exit": 1, "ops": r},
              {"name": "s1", "host": "h1", "on_exit": 1, "ops": sp}, {"name": "g2", "host": "h2", "on_exit": 1, "ops": gp}]
    if man:
        kind = "host" if "host" in man else "link"
        cops = []
        for d, v in man[kind]:
            cops += [["sleep_until", d], ["turn_on" if v else "turn_off", kind, "h0" if kind == "host" else "l0"]]
        actors.append({"name": "ctl", "host": "h2", "ops": cops})
    cfg = ["network/model:CM02", "network/crosstraffic:0", "network/TCP-gamma:0", "cpu/optim:" + cpu, "network/optim:" + net]
    return {"cfg": cfg, "platform": plat, "objects": {"mailbox": 1}, "actors": actors, "sample": {"bw": ["l0"], "speed": ["h0"]},
            "dyadic": True, "manual": man}


def all_scenarios(tier="quick"):
    return st.one_of(scenarios(tier), scenarios(tier), scenarios(tier), restart_scenarios(), restart_scenarios())


# ------------------------------------------------------------------------------------------------ oracle
def close(a, b, tol=TOL):
    if a == b:
        return True
    if math.isinf(a) or math.isinf(b):
        return False
    return abs(a - b) <= tol * max(1.0, abs(a), abs(b))


class Ref:
    """reference functions of one scenario up to date `until`"""

    def __init__(self, case, until):
        p = case["platform"]
        h0 = [h for h in p["hosts"] if h["name"] == "h0"][0]
        l0 = [l for l in p["links"] if l["name"] == "l0"][0]
        self.peak = h0["speed"]
        self.bw0 = l0["bw"]
        self.lat0 = l0.get("lat", 0.0)
        until = until + 1.0
        self.speed_ev = events(h0["speed_profile"], until) if "speed_profile" in h0 else []
        self.hstate_ev = events(h0["state_profile"], until) if "state_profile" in h0 else []
        man = case.get("manual") or {}
        self.hstate_ev = sorted(self.hstate_ev + [(d, v) for d, v in man.get("host", [])], key=lambda x: x[0])   # switches by hand (turn_off / turn_on)
        self.bw_ev = events(l0["bw_profile"], until) if "bw_profile" in l0 else []
        self.lat_ev = events(l0["lat_profile"], until) if "lat_profile" in l0 else []
        self.lstate_ev = events(l0["state_profile"], until) if "state_profile" in l0 else []
        self.lstate_ev = sorted(self.lstate_ev + [(d, v) for d, v in man.get("link", [])], key=lambda x: x[0])
        self.until = until

    @staticmethod
    def switches(evs):
        """the events of a state profile that change the state: [(date, on)]"""
        out, on = [], True
        for d, v in evs:
            new = v > 0
            if new != on:
                out.append((d, new))
                on = new
        return out

    @staticmethod
    def next_off(evs, t):
        """first date > t at which the resource goes from on to off, math.inf when none (within the horizon)"""
        for d, on in Ref.switches(evs):
            if d > t and not on:
                return d
        return math.inf

    @staticmethod
    def is_on(evs, t):
        return value_at(evs, 1, t) > 0

    @staticmethod
    def on_states(evs, t):
        """the admissible states at date t: both when t is within rounding distance of a switch"""
        v, adm = value_at(evs, 1, t, tol=TOL * max(1.0, t))
        return {x > 0 for x in adm}


def check_c22(case, log, oc, labels):
    cfg = case["cfg"]
    ti = "cpu/optim:TI" in cfg
    advs = [T(l["t"]) for l in log.of("adv")]
    t_end = max(advs) if advs else 0.0
    ref = Ref(case, t_end)
    p = case["platform"]
    h0 = [h for h in p["hosts"] if h["name"] == "h0"][0]
    l0 = [l for l in p["links"] if l["name"] == "l0"][0]
    # root-cause classes of the TI model come first in the signature (known findings match on prefixes)
    pre = ""
    if ti:
        pre = "cpu-TI:"
        if "speed_profile" in h0:
            ds = [d for d, _ in h0["speed_profile"]["points"]]
            P0 = h0["speed_profile"].get("period", -1)
            if len(set(ds)) < len(ds) or (P0 > 0 and P0 == ds[-1] and ds[0] == 0):
                pre += "zero-length-segment:"
            elif ds[0] > 0:
                pre += "profile-first-point-not-at-0:"

    # ---- (1) every event of every profile fires at its date with its value, up to the last date the clock reached
    def fired(kind, name, field):
        return [(T(l["t"]), T(l[field]) if isinstance(l[field], str) else l[field]) for l in log.lines
                if l.get("k") == kind and l.get("name") == name]

    def compare(what, obs, exp, sig):
        tol_end = TOL * max(1.0, t_end)
        exp = [e for e in exp if e[0] <= t_end + tol_end]
        while len(exp) > len(obs) and exp and exp[-1][0] > t_end - tol_end:
            exp = exp[:-1]          # an event within rounding distance of the last date may or may not have fired
        if len(obs) != len(exp) or any(not close(o[0], e[0]) or o[1] != e[1] for o, e in zip(obs, exp)):
            k = 0
            while k < min(len(obs), len(exp)) and close(obs[k][0], exp[k][0]) and obs[k][1] == exp[k][1]:
                k += 1
            oc.bad(sig, "%s: the events observed differ from the profile from position %d on: observed %r, expected %r (%d observed, %d expected up to the last date %r)"
                   % (what, k, obs[k:k + 3], exp[k:k + 3], len(obs), len(exp), t_end))
            return False
        return True
    if "speed_profile" in h0 and not ti:
        compare("speed of h0 (ratio)", fired("speed_change", "h0", "avail"), ref.speed_ev, "speed-events-differ")
    if "bw_profile" in l0:
        compare("bandwidth of l0", fired("bw_change", "l0", "bw"), ref.bw_ev, "bandwidth-events-differ")
    if ref.hstate_ev:
        obs = [(T(l["t"]), l["on"]) for l in log.of("onoff") if l["res"] == "host" and l["name"] == "h0"]
        compare("state of h0", obs, Ref.switches(ref.hstate_ev), "host-state-events-differ")
    if ref.lstate_ev:
        obs = [(T(l["t"]), l["on"]) for l in log.of("onoff") if l["res"] == "link" and l["name"] == "l0"]
        compare("state of l0", obs, Ref.switches(ref.lstate_ev), "link-state-events-differ")

    # ---- (2) samples at every date the clock stops, (3) observations of the actors
    def expect_value(what, t, obs, evs, nominal, scale, sig):
        v, adm = value_at(evs, nominal, t, tol=TOL * max(1.0, t))
        if t == 0.0:
            adm.add(nominal)        # at date 0 the first slice of the actors runs before the events of date 0 are applied
        if obs not in {x * scale for x in adm}:
            oc.bad(sig, "%s at date %r is %r, the profile says %r" % (what, t, obs, v * scale))
            return False
        return True
    nsamp = 0
    for l in log.of("s"):
        t = T(l["t"])
        nsamp += 1
        if "speed_profile" in h0 and "speed" in l:
            if not expect_value("sampled speed of h0", t, T(l["speed"]["h0"]), ref.speed_ev, 1.0, ref.peak, pre + "sampled-speed-differs"):
                break
        if "bw_profile" in l0 and not expect_value("sampled bandwidth of l0", t, T(l["bw"]["l0"]), ref.bw_ev, ref.bw0, 1.0, "sampled-bandwidth-differs"):
            break
        if "lat_profile" in l0 and not expect_value("sampled latency of l0", t, T(l["lat"]["l0"]), ref.lat_ev, ref.lat0, 1.0, "sampled-latency-differs"):
            break
        if ref.hstate_ev and "on" in l and l["on"]["h0"] not in Ref.on_states(ref.hstate_ev, t):
            oc.bad("sampled-host-state-differs", "h0 is %s at date %r, the profile says %s" % (l["on"]["h0"], t, Ref.is_on(ref.hstate_ev, t)))
            break
        if ref.lstate_ev and l["lon"]["l0"] not in Ref.on_states(ref.lstate_ev, t):
            oc.bad("sampled-link-state-differs", "l0 is %s at date %r, the profile says %s" % (l["lon"]["l0"], t, Ref.is_on(ref.lstate_ev, t)))
            break

    # ---- per actor: walk its records in order
    per = {}
    for l in log.lines:
        if l.get("k") in ("req", "ret", "on_exit", "actor_new", "actor_end", "body_end") and "a" in l:
            per.setdefault(l["a"], []).append(l)
    deadlock = bool(log.of("deadlock"))
    end_n = min([l["n"] for l in log.lines if l.get("k") in ("deadlock", "end")] or [1 << 60])

    def speed_changes():
        return [(d, v * ref.peak) for d, v in ref.speed_ev]

    def off_windows(state_ev, value_ev, nominal, what):
        """[(restart date, next value event after it)] of the off intervals that contain a value event; labels what happened while off"""
        sw = Ref.switches(state_ev)
        res = []
        for k, (d, on) in enumerate(sw):
            if on or d > t_end:
                continue
            back = sw[k + 1][0] if k + 1 < len(sw) else math.inf
            inside = [(x, v) for x, v in value_ev if d < x < back and x <= t_end]
            if not inside:
                continue
            labels.add(what + "-event-while-off")
            before = value_at(value_ev, nominal, d)
            after = inside[-1][1]
            labels.add(what + ("-increase" if after > before else "-decrease" if after < before else "-unchanged") + "-while-off")
            if back < math.inf:
                nxt = min([x for x, _ in value_ev if x > back] or [math.inf])
                res.append((back, nxt))
        return res
    host_windows = off_windows(ref.hstate_ev, ref.speed_ev, 1.0, "speed")
    bw_windows = off_windows(ref.lstate_ev, ref.bw_ev, ref.bw0, "bandwidth")
    lat_windows = off_windows(ref.lstate_ev, ref.lat_ev, ref.lat0, "latency")

    # at date 0 the first slice of the actors runs before the events of date 0 are applied (first solve): what is requested at date 0 before the
    # first time step sees the nominal state and is hit by the events of date 0, what is requested after it sees their result
    n_first = min([l["n"] for l in log.of("adv")] or [1 << 60])

    def since(t0, n):
        """the date from which (exclusive) events can hit something requested at (t0, line n)"""
        return -1.0 if (t0 == 0.0 and n < n_first) else t0

    def exec_expect(t0, flops, local, n):
        """(kind, date): 'done' | 'fail' (HostFailure for a remote waiter, death for a local one) | 'tie'"""
        if not Ref.is_on(ref.hstate_ev, t0) and since(t0, n) == t0:
            return ("fail", t0)
        rate0 = value_at(ref.speed_ev, 1.0, t0) * ref.peak
        fin = solve_integral(t0, flops, rate0, [c for c in speed_changes() if c[0] > t0])
        off = Ref.next_off(ref.hstate_ev, since(t0, n))
        if close(fin, off):
            return ("tie", fin)
        return ("done", fin) if fin < off else ("fail", off)

    for an in ("w0", "r0"):
        recs = per.get(an, [])
        local = an == "w0"
        k = 0
        while k < len(recs):
            l = recs[k]
            k += 1
            if l["k"] == "actor_new" and local and T(l["t"]) > 0:
                # auto-restart at reboot: exactly at a date the host comes back
                ons = [d for d, on in Ref.switches(ref.hstate_ev) if on]
                if not any(close(T(l["t"]), d) for d in ons):
                    oc.bad(pre + "restart-at-wrong-date", "w0 restarted at %r, h0 comes back at %r" % (T(l["t"]), ons[:5]))
                labels.add("auto-restart-at-reboot")
            if l["k"] != "req":
                continue
            t0, op = T(l["t"]), l["op"]
            nxt = recs[k] if k < len(recs) else None
            # at date 0 the first slice of the actors runs before the events of date 0 are applied
            death = Ref.next_off(ref.hstate_ev, since(t0, l["n"])) if local else math.inf
            if op[0] == "speed_info":
                if nxt is not None and nxt["k"] == "ret" and "r" in nxt:
                    r = nxt["r"]
                    if "speed_profile" in h0:
                        expect_value("Host::get_available_speed of h0 seen by %s" % an, t0, T(r["avail"]), ref.speed_ev, 1.0, 1.0, pre + "observed-speed-differs")
                    if ref.hstate_ev and r["on"] not in Ref.on_states(ref.hstate_ev, t0) and t0 > 0:
                        oc.bad(pre + "observed-host-state-differs", "%s sees h0 %s at %r" % (an, "on" if r["on"] else "off", t0))
                continue
            if op[0] == "sleep":
                want = ("done", t0 + max(op[1], 0.0)) if t0 + op[1] < death or math.isinf(death) else (("tie", death) if close(t0 + op[1], death) else ("fail", death))
            elif op[0] == "exec":
                want = exec_expect(t0, op[1], local, l["n"])
                if any(b <= t0 < nxt for b, nxt in host_windows) and Ref.is_on(ref.hstate_ev, t0):
                    labels.add("probe-after-restart-before-next-event")
                    if want[0] == "done" and all(not (t0 < d < want[1]) for d, _ in ref.speed_ev):
                        labels.add("probe-after-restart-before-next-event:closed-form")
                inside = [d for d, _ in ref.speed_ev if t0 < d < want[1]]
                if inside:
                    labels.add("speed-event-inside-exec")
                if want[0] == "fail":
                    labels.add("host-off-during-exec" + ("" if local else ":remote"))
            else:
                continue
            if nxt is None or nxt["n"] > end_n:
                if math.isinf(want[1]) or deadlock and math.isinf(want[1]):
                    labels.add("never-ends-by-profile")
                    continue
                oc.bad(pre + "operation-never-ends", "%s %s started at %r never ended (expected %s at %r)" % (an, op, t0, want[0], want[1]))
                continue
            t1 = T(nxt["t"])
            if nxt["k"] == "ret":
                ok = "exc" not in nxt
                if want[0] == "tie":
                    labels.add("tie")
                    if not close(t1, want[1]):
                        oc.bad(pre + "wrong-end-date", "%s %s started at %r ended at %r, expected %r" % (an, op, t0, t1, want[1]))
                elif want[0] == "done":
                    if not ok:
                        oc.bad(pre + "unexpected-failure", "%s %s started at %r got %s at %r, expected completion at %r" % (an, op, t0, nxt["exc"], t1, want[1]))
                    elif not close(t1, want[1]):
                        oc.bad(pre + ("exec" if op[0] == "exec" else "sleep") + "-end-date-differs",
                               "%s %s started at %r ended at %r, the integral of the speed profile gives %r" % (an, op, t0, t1, want[1]))
                else:
                    if local:
                        oc.bad(pre + "dead-actor-goes-on", "w0 %s started at %r returned at %r although h0 goes off at %r" % (op, t0, t1, want[1]))
                    elif nxt.get("exc") == "Cancel" and any(close(d, want[1]) and on for d, on in Ref.switches(ref.hstate_ev)):
                        oc.bad("zero-length-outage:cancel-instead-of-host-failure", "r0 %s started at %r got Cancel at %r: h0 goes off and comes back at the very same date %r, the execution "
                               "is failed by the outage but the exception is chosen from the state of the host afterwards" % (op, t0, t1, want[1]))
                    elif ok or nxt.get("exc") != "HostFailure":
                        oc.bad(pre + "failure-not-reported", "r0 %s started at %r returned %s at %r although h0 goes off at %r" % (op, t0, nxt.get("exc", "normally"), t1, want[1]))
                    elif not close(t1, want[1]):
                        oc.bad(pre + "failure-at-wrong-date", "r0 %s started at %r got HostFailure at %r, h0 goes off at %r" % (op, t0, t1, want[1]))
            elif nxt["k"] == "on_exit" and local:
                if want[0] == "done":
                    oc.bad(pre + "killed-without-cause", "w0 %s started at %r: on_exit at %r (failed=%s), expected completion at %r" % (op, t0, t1, nxt["failed"], want[1]))
                elif not close(t1, want[1]) or not nxt["failed"]:
                    oc.bad(pre + "kill-at-wrong-date", "w0 %s started at %r: on_exit(failed=%s) at %r, h0 goes off at %r" % (op, t0, nxt["failed"], t1, want[1]))
                else:
                    labels.add("killed-by-state-profile")

    # ---- communications s1 -> g2 over l0 (k-th put with k-th get)
    puts = [l for l in per.get("s1", []) if l["k"] == "req" and l["op"][0] == "xput"]
    gets = [l for l in per.get("g2", []) if l["k"] == "req" and l["op"][0] == "xget"]
    rets = {(l["a"], l["i"]): l for l in log.of("ret")}
    for pl, gl in zip(puts, gets):
        t0 = max(T(pl["t"]), T(gl["t"]))
        size = pl["op"][2]
        pr, gr = rets.get(("s1", pl["i"])), rets.get(("g2", gl["i"]))
        in_lat, in_tr, amb0 = [], [], False
        want_capped, cap = [], None
        if not Ref.is_on(ref.lstate_ev, t0) and since(t0, max(pl["n"], gl["n"])) == t0:
            want = ("fail", t0)
            L = 0.0
        else:
            if any(b <= t0 < nxt for b, nxt in bw_windows + lat_windows):
                labels.add("comm-after-restart-before-next-event")
            L = value_at(ref.lat_ev, ref.lat0, t0)
            amb0 = t0 == 0.0 and any(d == 0.0 for d, _ in ref.lat_ev)    # created before or after the event of date 0? not specified
            in_lat = [(d, v) for d, v in ref.lat_ev if t0 < d < t0 + L]
            if amb0:
                L = ref.lat0
                in_lat = [(d, v) for d, v in ref.lat_ev if t0 <= d < t0 + L]
            cur, noop = L, True
            for d, v in in_lat:
                if v != cur:
                    noop = False
                cur = v
            if in_lat:
                labels.add("latency-event-during-latency-phase" + (":no-op" if noop else ""))
            rate0 = value_at(ref.bw_ev, ref.bw0, t0 + L)
            fin = solve_integral(t0 + L, size, rate0, [c for c in ref.bw_ev if c[0] > t0 + L])
            # as implemented: the flow is bounded for ever by the bandwidth in force when it was created (at date 0: before or after the events of date 0)
            caps = {value_at(ref.bw_ev, ref.bw0, t0)} | ({ref.bw0} if t0 == 0.0 else set())
            fin_capped = [solve_integral(t0 + L, size, min(rate0, cap), [(d, min(v, cap)) for d, v in ref.bw_ev if d > t0 + L]) for cap in caps]
            cap = sorted(caps)
            if [d for d, _ in ref.bw_ev if t0 + L < d < fin]:
                labels.add("bandwidth-event-inside-transfer")
            # (as implemented the flow may be slower than the reference: capped by the bandwidth at its creation, see comm-ignores-bandwidth-increase)
            fin_max = max([fin] + [f for f in fin_capped if not math.isinf(f)])
            in_tr = [d for d, _ in ref.lat_ev if t0 + L <= d and (d < fin_max or close(d, fin_max)) and d > t0]
            if in_tr:
                labels.add("latency-event-inside-transfer")
            off = Ref.next_off(ref.lstate_ev, since(t0, max(pl["n"], gl["n"])))
            want = ("tie", fin) if close(fin, off) else (("done", fin) if fin < off else ("fail", off))
            want_capped = []
            for f in fin_capped:
                if close(f, off):
                    want_capped += [("done", f), ("fail", off)]
                else:
                    want_capped.append(("done", f) if f < off else ("fail", off))
            if (in_lat and not noop) or amb0:
                want = ("unspecified", fin)
            if want[0] == "fail":
                labels.add("link-off-during-comm")
        for who, r in (("s1", pr), ("g2", gr)):
            if r is None:
                if want[0] != "unspecified" or True:
                    oc.bad("latency-event-disturbs-comm:never-completes" if (in_lat or in_tr or amb0) else "comm-never-completes",
                           "%s: the communication of %r bytes started at %r never ended (expected %s at %r; latency %r)" % (who, size, t0, want[0], want[1], L))
                break
            t1 = T(r["t"])
            ok = "exc" not in r
            if want[0] == "unspecified":
                continue
            got = ("done" if ok else "fail", t1)
            matches_want = want[0] in ("tie", got[0]) and close(t1, want[1]) and (ok or r.get("exc") == "NetworkFailure")
            if not matches_want and want[0] != "unspecified" and any(w[0] == got[0] and close(t1, w[1]) for w in want_capped) and (ok or r.get("exc") == "NetworkFailure"):
                oc.bad("comm-ignores-bandwidth-increase", "%s: communication of %r bytes started at %r (latency %r) %s at %r: it never went faster than the bandwidth in force "
                       "when it was created (%r B/s) although the profile raised it meanwhile; latency + the integral of the bandwidth profile give: %s at %r"
                       % (who, size, t0, L, "ended" if ok else "failed", t1, cap, want[0], want[1]))
                continue
            if want[0] == "tie":
                labels.add("tie")
                if not close(t1, want[1]):
                    oc.bad("comm-end-date-differs", "%s: communication started at %r ended at %r, expected %r" % (who, t0, t1, want[1]))
            elif want[0] == "done":
                if not ok:
                    oc.bad("unexpected-failure:comm", "%s: communication started at %r got %s at %r, expected completion at %r" % (who, t0, r["exc"], t1, want[1]))
                elif not close(t1, want[1]):
                    sig = "comm-end-date-differs"
                    if in_lat or in_tr:
                        sig = "latency-event-disturbs-comm:" + ("in-latency-phase" if in_lat else "in-transfer") + (":early" if t1 < want[1] else ":late")
                    oc.bad(sig, "%s: communication of %r bytes started at %r (latency %r) ended at %r, latency + the integral of the bandwidth profile give %r"
                           % (who, size, t0, L, t1, want[1]))
            else:
                if ok or r.get("exc") != "NetworkFailure":
                    oc.bad("failure-not-reported:comm", "%s: communication started at %r returned %s at %r although l0 goes off at %r" % (who, t0, r.get("exc", "normally"), t1, want[1]))
                elif not close(t1, want[1]):
                    oc.bad("failure-at-wrong-date:comm", "%s: communication started at %r got NetworkFailure at %r, l0 goes off at %r" % (who, t0, t1, want[1]))
    # link_info observations
    for an in ("s1", "g2"):
        recs = per.get(an, [])
        for k, l in enumerate(recs):
            if l["k"] == "req" and l["op"][0] == "link_info" and k + 1 < len(recs) and recs[k + 1]["k"] == "ret" and "r" in recs[k + 1]:
                r, t0 = recs[k + 1]["r"], T(l["t"])
                if "bw_profile" in l0:
                    expect_value("Link::get_bandwidth of l0 seen by %s" % an, t0, T(r["bw"]), ref.bw_ev, ref.bw0, 1.0, "observed-bandwidth-differs")
                if "lat_profile" in l0:
                    expect_value("Link::get_latency of l0 seen by %s" % an, t0, T(r["lat"]), ref.lat_ev, ref.lat0, 1.0, "observed-latency-differs")
                if ref.lstate_ev and r["on"] not in Ref.on_states(ref.lstate_ev, t0) and t0 > 0:
                    oc.bad("observed-link-state-differs", "%s sees l0 %s at %r" % (an, "on" if r["on"] else "off", t0))
    # classification
    for name, prof in (("speed", h0.get("speed_profile")), ("hstate", h0.get("state_profile")), ("bw", l0.get("bw_profile")),
                       ("lat", l0.get("lat_profile")), ("lstate", l0.get("state_profile"))):
        if prof is None:
            continue
        labels.add("profile:" + name)
        P = prof.get("period", -1)
        if P > 0:
            labels.add("periodic")
            if t_end >= 2 * P:
                labels.add("period-wraps>=2")
            if prof["points"][0][0] > 0:
                labels.add("periodic:first-point-after-0")
            if prof["points"][-1][0] == P:
                labels.add("periodic:restart-at-last-point")
        if prof["points"][0][0] == 0:
            labels.add("point-at-date-0")
        ds = [d for d, _ in prof["points"]]
        if len(set(ds)) < len(ds):
            labels.add("duplicate-dates")
        if len(ds) >= 10:
            labels.add("points>=10")
    labels.add("cpu:" + [c for c in cfg if c.startswith("cpu/optim")][0].split(":")[1])
    if not case.get("dyadic", True):
        labels.add("non-dyadic-dates")
    if case.get("manual"):
        labels.add("switched-by-hand")
    oc.nontrivial = bool({"probe-after-restart-before-next-event", "comm-after-restart-before-next-event", "speed-event-inside-exec", "bandwidth-event-inside-transfer", "period-wraps>=2", "host-off-during-exec",
                          "host-off-during-exec:remote", "link-off-during-comm", "killed-by-state-profile"} & labels)
