"""C50: generators and reference models (Python list / dict) for histories on xbt_dynar and xbt_dict.

An *abstract* case (what Hypothesis generates and shrinks, what replay files hold) has position *specs* instead of indices;
`resolve_*` interprets it on the model, producing the *concrete* operation list for drivers/xbt_containers_driver.cpp together
with the expected observation of every operation.
"""
from hypothesis import strategies as st

DUMP_MAX = 48          # the driver dumps the whole content after every operation while the container holds <= this
MAPPED = 100000


# ---------------------------------------------------------------------------------------------
# element encoding (must match enc() of the driver)

def enc(v, elmsize):
    return bytes((((v >> (8 * (i & 3))) ^ (0x9e * (i >> 2))) & 0xff) for i in range(elmsize)).hex()


def pick(spec, hi):
    """index of [0,hi] chosen by the integer spec: even specs walk the boundary values, odd ones are arbitrary"""
    if hi <= 0:
        return 0
    if spec % 2 == 0:
        opts = sorted({0, hi, hi - 1, hi // 2, 1} & set(range(hi + 1)))
        return opts[(spec // 2) % len(opts)]
    return (spec // 2) % (hi + 1)


# ---------------------------------------------------------------------------------------------
# dynar

INSERTS = ("push", "push_ptr", "unshift", "insert_at", "insert_at_ptr", "set")


class DynarModel:
    """Python list model of one history.  Elements: hex strings (scalar mode) / uid or None (ptr mode)."""

    def __init__(self, case):
        self.ptr = case["mode"] == "ptr"
        self.elmsize = 8 if self.ptr else case["elmsize"]
        self.free_f = self.ptr and case.get("free_f", True)
        self.l = []
        self.nobj = 0
        self.mapped = {}

    def new(self, v):
        if self.ptr:
            self.nobj += 1
            return self.nobj - 1
        return enc(v, self.elmsize)

    def show(self, x):
        if not self.ptr:
            return x
        return -1 if x is None else x + MAPPED * self.mapped.get(x, 0)

    def freed(self, xs):
        if not self.free_f:
            return []
        return [-1 if x is None else x for x in xs]

    def content(self):
        return [self.show(x) for x in self.l]

    def apply(self, op):
        """abstract op -> (concrete op or None when it cannot be applied here, expected r, expected freed list)"""
        l = self.l
        o = op[0]
        n = len(l)
        r = None
        f = []
        if o in ("push", "push_ptr"):
            l.append(self.new(op[1]))
            return [o, op[1]], r, f
        if o == "unshift":
            l.insert(0, self.new(op[1]))
            return [o, op[1]], r, f
        if o in ("insert_at", "insert_at_ptr"):
            i = pick(op[1], n)
            l.insert(i, self.new(op[2]))
            return [o, i, op[2]], r, f
        if o == "set":
            # op[1] = spec; multiples of 7 write at or beyond the end (gap of zeroed elements)
            if n == 0 or op[1] % 7 == 0:
                i = n + (op[1] // 7) % 5
            else:
                i = pick(op[1], n - 1)
            x = self.new(op[2])
            if i >= n:
                zero = None if self.ptr else "00" * self.elmsize
                l.extend([zero] * (i - n))
                l.append(x)
            else:
                l[i] = x
            return [o, i, op[2]], r, f
        if o in ("pop", "pop_ptr", "pop_free", "shift", "shift_free", "getlast", "getfirst"):
            if n == 0:
                return None, None, None
            if o in ("pop", "pop_ptr"):
                r = self.show(l.pop())
            elif o == "pop_free":
                f = self.freed([l.pop()])
            elif o == "shift":
                r = self.show(l.pop(0))
            elif o == "shift_free":
                f = self.freed([l.pop(0)])
            elif o == "getlast":
                r = self.show(l[-1])
            else:
                r = self.show(l[0])
            return [o], r, f
        if o in ("remove_at", "remove_at_free", "get_cpy", "get_ptr"):
            if n == 0:
                return None, None, None
            i = pick(op[1], n - 1)
            if o == "remove_at":
                r = self.show(l.pop(i))
            elif o == "remove_at_free":
                f = self.freed([l.pop(i)])
            else:
                r = self.show(l[i])
            return [o, i], r, f
        if o == "member":
            if self.ptr:
                u = op[1] % (self.nobj + 1)
                return [o, u], int(u in l), f
            return [o, op[1]], int(enc(op[1], self.elmsize) in l), f
        if o == "sort":
            if self.ptr:
                l.sort(key=self.show)
            else:
                l.sort(key=bytes.fromhex)
            return [o], r, f
        if o == "map":
            if self.ptr:
                for x in l:
                    if x is not None:
                        self.mapped[x] = self.mapped.get(x, 0) + 1
            else:
                for i, x in enumerate(l):
                    l[i] = "%02x" % (int(x[:2], 16) ^ 0x5a) + x[2:]
            return [o], r, f
        if o == "reset":
            f = self.freed(l)
            del l[:]
            return [o], r, f
        if o == "length":
            return [o], [n, int(n == 0)], f
        if o == "foreach":
            return [o], r, f
        if o == "null":
            return [o], [0, 1, 0], f
        raise ValueError(o)


def values():
    return st.one_of(st.integers(0, 5), st.integers(0, 5), st.integers(0, 300), st.integers(0, 2 ** 31 - 1))


def specs():
    return st.integers(0, 40)


def dynar_op():
    v = values()
    s = specs()
    return st.one_of(
        st.tuples(st.sampled_from(["push", "push", "push_ptr", "unshift"]), v),
        st.tuples(st.sampled_from(["insert_at", "insert_at", "insert_at_ptr"]), s, v),
        st.tuples(st.just("set"), s, v),
        st.tuples(st.sampled_from(["pop", "pop_ptr", "pop_free", "shift", "shift_free", "getlast", "getfirst"])),
        st.tuples(st.sampled_from(["remove_at", "remove_at", "remove_at_free", "get_cpy", "get_ptr"]), s),
        st.tuples(st.just("member"), v),
        st.tuples(st.sampled_from(["sort", "map", "length", "foreach", "sort", "map", "sort", "map", "length", "foreach",
                                   "sort", "map", "reset", "null"])),
    ).map(list)


def grow_op():
    """insertion-heavy mix, so that long histories really grow the array over several reallocations"""
    v = values()
    return st.one_of(st.tuples(st.sampled_from(["push", "push_ptr", "unshift"]), v),
                     st.tuples(st.sampled_from(["insert_at", "insert_at_ptr"]), specs(), v)).map(list)


ABORTS = ["get_cpy", "get_ptr", "remove_at", "remove_at_neg", "insert_at_neg", "pop_empty", "pop_ptr_empty", "shift_empty",
          "getlast_empty"]


@st.composite
def dynar_case(draw, max_ops=200):
    mode = draw(st.sampled_from(["scalar", "scalar", "ptr"]))
    case = {"kind": "dynar", "mode": mode}
    if mode == "scalar":
        case["elmsize"] = draw(st.sampled_from([1, 2, 4, 4, 8, 8, 12, 24]))
    else:
        case["free_f"] = draw(st.sampled_from([True, True, True, False]))
    shape = draw(st.sampled_from(["short", "grow", "grow", "mixed", "long"]))
    if shape == "short":
        ops = draw(st.lists(dynar_op(), min_size=1, max_size=12))
    elif shape == "grow":    # grow first (several reallocations), then anything
        ops = draw(st.lists(grow_op(), min_size=8, max_size=70)) + draw(st.lists(dynar_op(), min_size=1, max_size=max_ops - 70))
    elif shape == "mixed":
        ops = draw(st.lists(st.one_of(dynar_op(), grow_op()), min_size=1, max_size=max_ops))
    else:
        ops = draw(st.lists(st.one_of(dynar_op(), grow_op()), min_size=max_ops // 2, max_size=max_ops))
    case["ops"] = ops
    case["end"] = draw(st.sampled_from(["free", "free", "free_container"]))
    if draw(st.sampled_from([False] * 39 + [True])):
        case["abort"] = [draw(st.sampled_from(ABORTS)), draw(st.integers(0, 3))]
    return case


def resolve_dynar(case):
    """-> (concrete case for the driver, expected list [(r, n, content, freed)], final freed list, abort info or None)"""
    m = DynarModel(case)
    ops = []
    exp = []
    for op in case["ops"]:
        c, r, f = m.apply(op)
        if c is None:
            continue
        ops.append(c)
        exp.append((r, len(m.l), m.content(), f))
    conc = {"kind": "dynar", "mode": case["mode"], "ops": ops, "end": case.get("end", "free")}
    if "elmsize" in case:
        conc["elmsize"] = case["elmsize"]
    if "free_f" in case:
        conc["free_f"] = case["free_f"]
    abort = None
    if case.get("abort"):
        what, k = case["abort"]
        n = len(m.l)
        if what.endswith("_empty"):
            if n == 0:
                last = [what[:-6]]
            else:
                what, last = "get_ptr", ["get_ptr", n + k]
        elif what == "remove_at_neg":
            last = ["remove_at", -1]
        elif what == "insert_at_neg":
            last = ["insert_at", -1 - k, 1]
        else:
            last = [what, n + k]
        conc["ops"] = ops + [last]
        conc["fork"] = True
        abort = {"op": last, "class": what}
    final = m.freed(m.l) if conc["end"] == "free" else []
    return conc, exp, final, abort


# ---------------------------------------------------------------------------------------------
# dict

def djb2(key):
    h = 5381
    for b in key.encode("utf-8"):
        c = b - 256 if b >= 128 else b       # `int c = *str++` with a signed char
        h = (h * 33 + c) & 0xFFFFFFFF
    return h


# keys whose full 32-bit hashes collide: the two-character blocks "aa" and "b@" hash alike (97*33+97 == 98*33+64)
_BLOCKS = ["aa", "b@"]
COLLIDING = [a + b + c for a in _BLOCKS for b in _BLOCKS for c in _BLOCKS]
# same bucket modulo 128 but not modulo 256 ("ae"/"ea": 33*4-4 = 128), modulo 256 but not 512 ("ai"/"ia")
BUCKET = ["ae", "ea", "ai", "ia", "aq", "qa", "ei", "ie"]
PLAIN = ["", "a", "b", "ab", "abc", "abd", "key", "key0", "key1", "x" * 100, "x" * 101, "é", "aé", "\x7f", "\x01"]
BINARY = ["\x00", "\x00aa", "\x00b@", "a\x00", "a\x00aa", "a\x00b@", "aa\x00", "b@\x00", "\x00\x00"]


def keys(binary):
    base = st.one_of(st.sampled_from(COLLIDING), st.sampled_from(BUCKET), st.sampled_from(PLAIN),
                     st.text(alphabet="ab@e", min_size=0, max_size=4))
    if binary:
        return st.one_of(base, st.sampled_from(BINARY), st.sampled_from(BINARY))
    return base


CURSOR_ACTS = ["step", "step", "step", "step", "rewind"]


def dict_op(binary):
    k = keys(binary)
    ck = keys(False)      # keys for the functions that take a null-terminated string
    has = st.sampled_from([True, True, True, False])
    sp = st.integers(0, 60)
    pre = st.sampled_from(["", "p", "aa", "b@"])
    return st.one_of(
        st.tuples(st.just("set"), ck, has),
        st.tuples(st.just("set_ext"), k, has),
        st.tuples(st.just("set_ext"), k, has),
        st.tuples(st.sampled_from(["get", "get_elm"]), ck),
        st.tuples(st.just("get_ext"), k),
        st.tuples(st.just("remove"), k),
        # the same on a key that is present (spec -> one of the present keys; falls back to the drawn key on an empty dict)
        st.tuples(st.sampled_from(["set@", "get@", "get_elm@", "remove@", "remove@", "remove@"]), sp, k, has),
        st.tuples(st.just("fill"), pre, st.integers(1, 100), st.integers(1, 27)),
        st.tuples(st.just("drain"), pre, st.integers(1, 100), st.integers(1, 27)),
        st.tuples(st.sampled_from(["length", "foreach", "foreach", "null"])),
        st.tuples(st.just("cursor"), st.lists(st.sampled_from(CURSOR_ACTS), min_size=1, max_size=12)),
    ).map(list)


def big_fill():
    """enough distinct buckets to push the fill factor over 80 %: this is what triggers a rehash"""
    return st.tuples(st.just("fill"), st.sampled_from(["", "p", "aa"]), st.integers(1, 8), st.integers(100, 119)).map(list)


@st.composite
def dict_case(draw, max_ops=200):
    binary = draw(st.sampled_from([False, False, False, True]))
    case = {"kind": "dict", "free_f": draw(st.sampled_from([True, True, False])), "binary": binary}
    shape = draw(st.sampled_from(["short", "rehash", "rehash", "mixed", "long"]))
    op = dict_op(binary)
    if shape == "short":
        ops = draw(st.lists(op, min_size=1, max_size=12))
    elif shape == "rehash":   # some operations, a rehash, more operations (possibly a second rehash)
        ops = draw(st.lists(op, min_size=0, max_size=20)) + [draw(big_fill())] + \
            draw(st.lists(st.one_of(op, op, op, big_fill()), min_size=1, max_size=60))
    elif shape == "mixed":
        ops = draw(st.lists(op, min_size=1, max_size=max_ops))
    else:
        ops = draw(st.lists(st.one_of(op, op, op, op, op, big_fill()), min_size=max_ops // 2, max_size=max_ops))
    case["ops"] = ops
    return case


class DictModel:
    def __init__(self, case):
        self.free_f = case["free_f"]
        self.d = {}
        self.nobj = 0

    def data(self, has):
        if not has:
            return None
        self.nobj += 1
        return self.nobj - 1

    @staticmethod
    def show(x):
        return -1 if x is None else x

    def content(self):
        return sorted([k, self.show(v)] for k, v in self.d.items())

    def _set(self, k, has, f):
        new = self.data(has)
        if k in self.d and self.d[k] is not None and self.free_f:
            f.append(self.d[k])
        self.d[k] = new

    def _remove(self, k, f):
        if k not in self.d:
            return False
        v = self.d.pop(k)
        if v is not None and self.free_f:
            f.append(v)
        return True

    def apply(self, op):
        o = op[0]
        d = self.d
        f = []
        r = None
        if o in ("set", "set_ext"):
            self._set(op[1], op[2], f)
        elif o in ("get", "get_ext"):
            r = self.show(d.get(op[1]))
        elif o == "get_elm":
            r = [op[1], len(op[1].encode("utf-8")), self.show(d[op[1]]), True] if op[1] in d else None
        elif o == "remove":
            r = "ok" if self._remove(op[1], f) else "throw"
        elif o == "fill":
            for i in range(op[3]):
                self._set(op[1] + chr(op[2] + i), True, f)
        elif o == "drain":
            r = 0
            for i in range(op[3]):
                if not self._remove(op[1] + chr(op[2] + i), f):
                    r += 1
        elif o == "length":
            r = [len(d), len(d), int(len(d) == 0)]
        elif o == "null":
            r = [0, 1, 0, True]
        elif o in ("foreach", "cursor"):
            pass
        else:
            raise ValueError(o)
        return r, f


def resolve_dict(case):
    m = DictModel(case)
    exp = []
    ops = []
    for op in case["ops"]:
        if op[0].endswith("@"):      # ["set@", spec, fallback key, has-data] -> the same operation on a present key
            present = sorted(m.d)
            k = present[op[1] % len(present)] if present else op[2]
            name = op[0][:-1]
            if "\x00" in k or name == "remove":
                name = {"set": "set_ext", "get": "get_ext", "get_elm": "get_ext"}.get(name, name)
            op = [name, k, op[3]] if name in ("set", "set_ext") else [name, k]
        ops.append(op)
        r, f = m.apply(op)
        exp.append((r, len(m.d), m.content(), f))
    conc = {"kind": "dict", "free_f": case["free_f"], "ops": ops}
    final = sorted(v for v in m.d.values() if v is not None) if m.free_f else []
    return conc, exp, final


def cases(max_ops=200):
    return st.one_of(dynar_case(max_ops), dict_case(max_ops))
