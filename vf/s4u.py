"""Python side of the S4U scenario interpreter (drivers/s4u_interp.cpp; format: notes/S4U_INTERP.md)."""
import json

from hypothesis import strategies as st

from . import build, core


def T(x):
    """hex-float string -> float"""
    return float.fromhex(x) if isinstance(x, str) else float(x)


class Log:
    def __init__(self, r):
        self.r = r
        self.rc = r.rc
        self.err = r.err
        self.lines = r.json_lines()
        self.done = bool(self.lines) and self.lines[-1].get("k") == "done"
        self.wall_exceeded = r.wall_exceeded
        self.cpu_exceeded = r.cpu_exceeded

    def of(self, *kinds):
        return [l for l in self.lines if l.get("k") in kinds]

    def crash_text(self):
        return "rc=%s cpu_exceeded=%s; stderr tail: %s" % (self.rc, self.cpu_exceeded, self.err[-1500:])

    def ops(self):
        """list of per-operation records {a, i, op, n_req, t_req, n_ret, t_ret, r | exc} in request order; n_ret None when the
        operation never returned."""
        res = {}
        order = []
        for l in self.lines:
            k = l.get("k")
            if k == "req":
                rec = dict(a=l["a"], i=l["i"], op=l["op"], n_req=l["n"], t_req=T(l["t"]), n_ret=None, t_ret=None)
                res[(l["a"], l["i"])] = rec
                order.append(rec)
            elif k == "ret":
                rec = res.get((l["a"], l["i"]))
                if rec is not None:
                    rec["n_ret"] = l["n"]
                    rec["t_ret"] = T(l["t"])
                    if "exc" in l:
                        rec["exc"] = l["exc"]
                    else:
                        rec["r"] = l.get("r")
        return order


def run(scenario, cpu=20, wall=180):
    return Log(core.serve("s4u_interp", scenario, cpu=cpu, wall=wall))


def run_mc(scenario, cfg, cpu=60, wall=600):
    """Run the scenario as an application of simgrid-mc.  Returns RunResult: .out holds the OUTCOME lines of the application, .err the checker's log."""
    import os
    path = core.write_tmp(json.dumps(scenario))
    try:
        cmd = [build.sg_bin("simgrid-mc"), build.drv("s4u_interp"), "--mc", path, "--log=no_loc"] + ["--cfg=" + c for c in cfg]
        r = core.run(cmd, cpu=cpu, wall=wall, env=build.runtime_env())
    finally:
        os.unlink(path)
    return r


# ---------------------------------------------------------------------------------------------
# generators

def dyadic(lo, hi, den=1024):
    """k/den with lo <= k/den <= hi: exactly representable, sums are exact for moderate magnitudes"""
    return st.integers(int(lo * den), int(hi * den)).map(lambda k: k / den)


def sync_platform(n_hosts=1, cores=8):
    """hosts only: for programs that only synchronise and sleep"""
    return {"hosts": [{"name": "h%d" % i, "speed": 1024.0, "cores": cores} for i in range(n_hosts)]}


def sharing_free_platform(n_hosts, cores=16, speed=1024.0, bw=1024.0, lat=0.5):
    """Every pair of hosts has its own FATPIPE link and hosts have more cores than actors: every activity proceeds at its
    nominal rate whatever else runs (use with cfg SHARING_FREE_CFG)."""
    hosts = [{"name": "h%d" % i, "speed": speed, "cores": cores} for i in range(n_hosts)]
    links, routes = [], []
    for i in range(n_hosts):
        for j in range(i + 1, n_hosts):
            name = "l%d_%d" % (i, j)
            links.append({"name": name, "bw": bw, "lat": lat, "policy": "FATPIPE"})
            routes.append({"src": "h%d" % i, "dst": "h%d" % j, "links": [name]})
    return {"hosts": hosts, "links": links, "routes": routes}


SHARING_FREE_CFG = ["network/model:CM02", "network/crosstraffic:0", "network/TCP-gamma:0"]
