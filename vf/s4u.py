"""Python side of the S4U scenario interpreter (drivers/s4u_interp.cpp; format: notes/S4U_INTERP.md)."""
import json

from hypothesis import strategies as st

from . import build, core


def T(x):
    """hex-float string -> float"""
    return float.fromhex(x) if isinstance(x, str) else float(x)


class Log:
    def __init__(self, r):
        self.r = r
        self.rc = r.rc
        self.err = r.err
        self.lines = r.json_lines()
        # records may follow `done` (detach_clean at engine destruction)
        self.done = any(l.get("k") == "done" for l in self.lines[-20:])
        self.wall_exceeded = r.wall_exceeded
        self.cpu_exceeded = r.cpu_exceeded

    def of(self, *kinds):
        return [l for l in self.lines if l.get("k") in kinds]

    def crash_text(self):
        return "rc=%s cpu_exceeded=%s; stderr tail: %s" % (self.rc, self.cpu_exceeded, self.err[-1500:])

    def ops(self):
        """list of per-operation records {a, i, op, n_req, t_req, n_ret, t_ret, r | exc} in request order; n_ret None when the
        operation never returned."""
        res = {}
        order = []
        for l in self.lines:
            k = l.get("k")
            if k == "req":
                rec = dict(a=l["a"], i=l["i"], op=l["op"], n_req=l["n"], t_req=T(l["t"]), n_ret=None, t_ret=None)
                res[(l["a"], l["i"])] = rec
                order.append(rec)
            elif k == "ret":
                rec = res.get((l["a"], l["i"]))
                if rec is not None:
                    rec["n_ret"] = l["n"]
                    rec["t_ret"] = T(l["t"])
                    if "exc" in l:
                        rec["exc"] = l["exc"]
                    else:
                        rec["r"] = l.get("r")
        return order


def run(scenario, cpu=20, wall=180):
    return Log(core.serve("s4u_interp", scenario, cpu=cpu, wall=wall))


def run_mc(scenario, cfg, cpu=60, wall=600):
    """Run the scenario as an application of simgrid-mc.  Returns RunResult: .out holds the OUTCOME lines of the application, .err the checker's log."""
    import os
    path = core.write_tmp(json.dumps(scenario))
    try:
        cmd = [build.sg_bin("simgrid-mc"), build.drv("s4u_interp"), "--mc", path, "--log=no_loc"] + ["--cfg=" + c for c in cfg]
        r = core.run(cmd, cpu=cpu, wall=wall, env=build.runtime_env())
    finally:
        os.unlink(path)
    return r


# ---------------------------------------------------------------------------------------------
# generators

def dyadic(lo, hi, den=1024):
    """k/den with lo <= k/den <= hi: exactly representable, sums are exact for moderate magnitudes"""
    return st.integers(int(lo * den), int(hi * den)).map(lambda k: k / den)


def sync_platform(n_hosts=1, cores=8):
    """hosts only: for programs that only synchronise and sleep"""
    return {"hosts": [{"name": "h%d" % i, "speed": 1024.0, "cores": cores} for i in range(n_hosts)]}


def sharing_free_platform(n_hosts, cores=16, speed=1024.0, bw=1024.0, lat=0.5):
    """Every pair of hosts has its own FATPIPE link and hosts have more cores than actors: every activity proceeds at its
    nominal rate whatever else runs (use with cfg SHARING_FREE_CFG)."""
    hosts = [{"name": "h%d" % i, "speed": speed, "cores": cores} for i in range(n_hosts)]
    links, routes = [], []
    for i in range(n_hosts):
        for j in range(i + 1, n_hosts):
            name = "l%d_%d" % (i, j)
            links.append({"name": name, "bw": bw, "lat": lat, "policy": "FATPIPE"})
            routes.append({"src": "h%d" % i, "dst": "h%d" % j, "links": [name]})
    return {"hosts": hosts, "links": links, "routes": routes}


SHARING_FREE_CFG = ["network/model:CM02", "network/crosstraffic:0", "network/TCP-gamma:0"]


def small_shared_platform():
    """3 hosts, shared links with latency, one common backbone: real sharing (used by the metamorphic checks C01/C02)"""
    hosts = [{"name": "h0", "speed": 1024.0, "cores": 2}, {"name": "h1", "speed": 2048.0, "cores": 1},
             {"name": "h2", "speed": [512.0, 1024.0], "cores": 4, "disks": [{"name": "d2", "read_bw": 4096.0, "write_bw": 2048.0}]}]
    links = [{"name": "l0", "bw": 10000.0, "lat": 0.001}, {"name": "l1", "bw": 5000.0, "lat": 0.01},
             {"name": "l2", "bw": 20000.0, "lat": 0.0005, "policy": "FATPIPE"}, {"name": "bb", "bw": 8000.0, "lat": 0.002}]
    routes = [{"src": "h0", "dst": "h1", "links": ["l0", "bb", "l1"]}, {"src": "h0", "dst": "h2", "links": ["l0", "bb", "l2"]},
              {"src": "h1", "dst": "h2", "links": ["l1", "l2"]}]
    return {"hosts": hosts, "links": links, "routes": routes}


def run_exec(scenario, prefix=(), env=None, cpu=20, wall=180):
    """Run the scenario in a brand-new process (own address-space layout), optionally behind a command prefix (setarch -R)."""
    import os
    path = core.write_tmp(json.dumps(scenario))
    try:
        r = core.run(list(prefix) + [build.drv("s4u_interp"), path], cpu=cpu, wall=wall, env=build.runtime_env(env))
    finally:
        os.unlink(path)
    return Log(r)
