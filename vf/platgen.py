"""Generator of flat platforms with real sharing for the S4U scenario interpreter (format: notes/S4U_INTERP.md, key "platform").

    platforms(...)   Hypothesis strategy -> platform dict {"hosts": [...], "links": [...], "routes": [...]}
    Plat(platform)   read-only view used by oracles: resolved routes, latencies, capacities, LMM weights of a flow

What is generated (all valid by construction, nothing is rejected):
  * 1-6 hosts "h0".."h5": 1-3 pstates (`speed` is then the list of the peak speeds; pstate 0 is in force at start: change it with the
    interpreter operation ["set_pstate", host, p] -- the platform key "pstate" is NOT emitted, the interpreter would apply it before the host
    is sealed, which SimGrid does not support), 1-8 cores, 0-2 disks "dh<i>_<k>" with read and write bandwidths;
  * a pool of links "l0".."lN": bandwidth, latency (0 allowed), policy SHARED / FATPIPE / SPLITDUPLEX.  A SPLITDUPLEX link "lK" is two
    SHARED links "lK_UP" and "lK_DOWN" inside SimGrid; a route names the direction it takes: "lK:UP" / "lK:DOWN";
  * one route per ordered pair of distinct hosts (so that every pair can communicate and the reverse route that cross-traffic needs always
    exists): for each unordered pair either ONE symmetric declaration ("sym": true: SimGrid derives the reverse route: same links, reverse order,
    the opposite direction of every split-duplex link) or TWO one-way declarations drawn independently (asymmetric reverse route);
    routes are 1-8 distinct links taken from the pool, so different routes share links;
  * no route from a host to itself: such communications take SimGrid's implicit loopback link (FATPIPE, network/loopback-bw, network/loopback-lat).

Numbers: every quantity is drawn from the strategy given for it (defaults below: a few "round" values first, so that shrunk cases are readable,
then log-uniform doubles over the whole range).  Pass `dyadic=True` to get powers of two only (exactly representable products and quotients).
"""
import math

from hypothesis import strategies as st

POLICIES = ("SHARED", "FATPIPE", "SPLITDUPLEX")


# ------------------------------------------------------------------------------------------------ numbers
def loguniform(lo, hi):
    """doubles whose logarithm is uniform over [log lo, log hi]; trimmed to 6 significant digits half of the time (readable replays)"""
    a, b = math.log10(lo), math.log10(hi)
    raw = st.floats(a, b, allow_nan=False, allow_infinity=False).map(lambda e: min(hi, max(lo, 10.0 ** e)))
    return st.one_of(raw.map(lambda x: float("%.6g" % x)).map(lambda x: min(hi, max(lo, x))), raw)


def pow2(lo_exp, hi_exp):
    return st.integers(lo_exp, hi_exp).map(lambda e: math.ldexp(1.0, e))


def speeds(dyadic=False):
    """flop/s, 1e3 .. 1e12"""
    if dyadic:
        return pow2(10, 40)
    return st.one_of(st.sampled_from([1e9, 1e6, 1e3, 1e12, 98.095e6, 76.296e6]), pow2(10, 40), loguniform(1e3, 1e12))


def bandwidths(dyadic=False):
    """B/s, 1e3 .. 1e11"""
    if dyadic:
        return pow2(10, 36)
    return st.one_of(st.sampled_from([1.25e8, 1.25e9, 1e6, 1e3, 1e11, 12.5e6]), pow2(10, 36), loguniform(1e3, 1e11))


def latencies(dyadic=False):
    """seconds, 0 or 1e-7 .. 10"""
    if dyadic:
        return st.one_of(st.just(0.0), pow2(-23, 3))
    return st.one_of(st.sampled_from([0.0, 1e-4, 1e-3, 5e-5, 0.01, 0.1, 1.0, 10.0]), pow2(-23, 3), loguniform(1e-7, 10.0))


def disk_bandwidths(dyadic=False):
    """B/s, 1e3 .. 1e10"""
    if dyadic:
        return pow2(10, 33)
    return st.one_of(st.sampled_from([1e8, 4e7, 1e6, 1e3, 1e10]), pow2(10, 33), loguniform(1e3, 1e10))


# ------------------------------------------------------------------------------------------------ platforms
@st.composite
def platforms(draw, n_hosts=(1, 6), cores=(1, 8), max_pstates=3, n_disks=(0, 2), policies=POLICIES, route_len=(1, 8), p_asym=0.35,
              dyadic=False, speed=None, bw=None, lat=None, disk_bw=None, max_pool=12):
    """A flat platform (see the module docstring).  `n_hosts`, `cores`, `n_disks`, `route_len` are inclusive (min, max) pairs;
    `policies` the link policies allowed; `p_asym` the share of host pairs whose two directions are declared separately;
    `speed`, `bw`, `lat`, `disk_bw` override the value strategies."""
    speed = speed or speeds(dyadic)
    bw = bw or bandwidths(dyadic)
    lat = lat or latencies(dyadic)
    disk_bw = disk_bw or disk_bandwidths(dyadic)
    nh = draw(st.integers(*n_hosts))
    hosts = []
    for i in range(nh):
        nps = draw(st.integers(1, max_pstates))
        sp = [draw(speed) for _ in range(nps)]
        h = {"name": "h%d" % i, "speed": sp if nps > 1 else sp[0], "cores": draw(st.integers(*cores))}
        nd = draw(st.integers(*n_disks))
        if nd:
            h["disks"] = [{"name": "dh%d_%d" % (i, k), "read_bw": draw(disk_bw), "write_bw": draw(disk_bw)} for k in range(nd)]
        hosts.append(h)
    links, routes = [], []
    if nh > 1:
        lo, hi = route_len
        npool = draw(st.integers(min(hi, max(lo, 1)), max(max_pool, hi)))
        for k in range(npool):
            links.append({"name": "l%d" % k, "bw": draw(bw), "lat": draw(lat), "policy": draw(st.sampled_from(list(policies)))})

        def one_route():
            n = draw(st.integers(lo, min(hi, npool)))
            idx = draw(st.lists(st.integers(0, npool - 1), min_size=n, max_size=n, unique=True))
            names = []
            for k in idx:
                if links[k]["policy"] == "SPLITDUPLEX":
                    names.append("l%d:%s" % (k, draw(st.sampled_from(["UP", "DOWN"]))))
                else:
                    names.append("l%d" % k)
            return names
        for i in range(nh):
            for j in range(i + 1, nh):
                if draw(st.floats(0, 1)) < p_asym:
                    routes.append({"src": "h%d" % i, "dst": "h%d" % j, "links": one_route(), "sym": False})
                    routes.append({"src": "h%d" % j, "dst": "h%d" % i, "links": one_route(), "sym": False})
                else:
                    routes.append({"src": "h%d" % i, "dst": "h%d" % j, "links": one_route(), "sym": True})
        used = set()
        for r in routes:
            used.update(n.split(":")[0] for n in r["links"])
        links = [l for l in links if l["name"] in used]      # SimGrid accepts unused links; dropping them keeps replays small
    p = {"hosts": hosts}
    if links:
        p["links"] = links
        p["routes"] = routes
    return p


# ------------------------------------------------------------------------------------------------ read-only view for oracles
class Plat:
    """Resolved view of a platform dict: what SimGrid builds from it, as documented (Platform docs: symmetric routes, split-duplex links)."""

    def __init__(self, platform):
        self.p = platform
        self.hosts = {h["name"]: h for h in platform["hosts"]}
        self.disks = {}
        for h in platform["hosts"]:
            for d in h.get("disks", []):
                self.disks[d["name"]] = dict(d, host=h["name"])
        self.links = {}          # resolved name -> {"bw","lat","policy"}
        for l in platform.get("links", []):
            pol = l.get("policy", "SHARED")
            if pol == "SPLITDUPLEX":
                for d in ("UP", "DOWN"):
                    self.links[l["name"] + "_" + d] = {"bw": l["bw"], "lat": l.get("lat", 0.0), "policy": "SHARED", "of": l["name"]}
            else:
                self.links[l["name"]] = {"bw": l["bw"], "lat": l.get("lat", 0.0), "policy": pol, "of": l["name"]}
        self.routes = {}         # (src, dst) -> [resolved link names]
        for r in platform.get("routes", []):
            fwd, back = [], []
            for n in r["links"]:
                if ":" in n:
                    base, d = n.split(":")
                    fwd.append(base + "_" + d)
                    back.append(base + "_" + ("DOWN" if d == "UP" else "UP"))
                else:
                    fwd.append(n)
                    back.append(n)
            self.routes[(r["src"], r["dst"])] = fwd
            if r.get("sym", True) and r["src"] != r["dst"]:
                self.routes[(r["dst"], r["src"])] = list(reversed(back))

    # hosts
    def speed(self, host, pstate=0):
        """peak speed of `pstate`"""
        sp = self.hosts[host]["speed"]
        return sp[pstate] if isinstance(sp, list) else sp

    def n_pstates(self, host):
        sp = self.hosts[host]["speed"]
        return len(sp) if isinstance(sp, list) else 1

    def cores(self, host):
        return self.hosts[host].get("cores", 1)

    # network
    def route(self, src, dst):
        """resolved link names from src to dst, None when no route is declared (src == dst: the loopback link, not described here)"""
        return self.routes.get((src, dst))

    def latency(self, src, dst):
        """sum of the physical latencies of the route, added in route order like SimGrid does"""
        lat = 0.0
        for l in self.route(src, dst):
            lat += self.links[l]["lat"]
        return lat

    def flow_weights(self, src, dst, crosstraffic):
        """LMM consumption weight of one src->dst flow on every link it touches, as documented: 1 on the links of its route, plus 0.05 on
        the links of the reverse route when cross-traffic is on (Models.rst, LV08; Configuring_SimGrid.rst, network/crosstraffic).  On a
        FATPIPE link the two contributions do not add up (a fat pipe is not shared: each use is limited separately)."""
        w = {}
        for l in self.route(src, dst):
            w[l] = w.get(l, 0.0) + 1.0 if self.links[l]["policy"] != "FATPIPE" else max(w.get(l, 0.0), 1.0)
        if crosstraffic:
            for l in self.route(dst, src):
                w[l] = w.get(l, 0.0) + 0.05 if self.links[l]["policy"] != "FATPIPE" else max(w.get(l, 0.0), 0.05)
        return w

    def all_link_names(self):
        return sorted(self.links)
