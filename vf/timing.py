"""Shared by C03 (time is monotone, events happen exactly at their date), C12 (timed waits) and C11 (actor lifecycle):
generators of timed programs for the S4U interpreter and the date arithmetic of the oracles.  See notes/C03.md."""
import math

from hypothesis import strategies as st

from . import s4u

PREC = 1e-9                  # precision/timing (default), documented in docs/source/Configuring_SimGrid.rst "Numerical Precision"
SPEED = 1024.0               # flop/s of every host
BW = 1024.0                  # B/s of every link
LAT = 0.5
DISK_BW = float(1 << 20)     # B/s: the disk model moves rint(rate*delta) bytes per step: rate*delta must be an integer for every step

T = s4u.T
DRIVER = "s4u_time"          # drivers/s4u_time.cpp: s4u_interp with an explicit dependency on s4u_ext_time.hpp
EXT_VERSION = "time-ext-v5"  # must match drivers/s4u_ext_time.hpp: a stale binary is a harness error, not a verdict


def crash_sig(log):
    """root-cause class of a run that did not finish: the last kernel message before the abort, else the signal"""
    import re
    msg = None
    for l in log.err.splitlines():
        m = re.match(r"^\[\s*[\d.]+\] \[[^\]]*\] (.*)$", l)
        if m and not m.group(1).startswith("Configuration change") and "numerical accuracy" not in m.group(1):
            msg = m.group(1)
    if log.cpu_exceeded:
        return "run-does-not-terminate"
    m = re.search(r"Uncaught exception ([\w:]+): \S+?:\d+:(\w+):", log.err)
    if m:
        return "run-crashed:uncaught-%s-in-%s" % (m.group(1).split("::")[-1], m.group(2))
    if msg:
        return "run-crashed:" + re.sub(r"[^a-z0-9]+", "-", msg.lower())[:60].strip("-")
    return "run-crashed:signal-%d" % (-log.rc) if log.rc < 0 else "run-crashed:rc-%d" % log.rc


def run(scenario, cpu=20, wall=240):
    from . import core
    log = s4u.Log(core.serve(DRIVER, scenario, cpu=cpu, wall=wall))
    if log.done and log.lines[-1].get("ext") != EXT_VERSION:
        raise core.Inconclusive("stale driver: built from extension header %r, expected %r" % (log.lines[-1].get("ext"), EXT_VERSION))
    return log


def is_grid(x):
    """multiple of 2^-30 below 2^20: sums and differences of such values are exact in double precision"""
    return abs(x) < 1048576.0 and (x * 1073741824.0) == math.floor(x * 1073741824.0)


def ulp(x):
    return math.ulp(x)


# ------------------------------------------------------------------------------------------------ durations
SUBP = st.sampled_from([1e-12, 1e-10, 5e-10, 9.999999e-10, 1e-9, 1.0000000000000002e-9, 1.5e-9, 2e-9])
QUART = st.integers(0, 8).map(lambda k: k / 4)
DYAD = st.integers(0, 4096).map(lambda k: k / 1024)
ARB = st.one_of(st.sampled_from([0.1, 0.2, 0.3, 1 / 3, 0.7, 3.3333333333, 123456.789, 1e-7, 1e-6, 0.30000000000000004]),
                st.floats(0, 8, allow_nan=False, allow_infinity=False))


def durations(grid):
    if grid:
        return st.one_of(st.just(0.0), QUART, QUART, DYAD)
    return st.one_of(st.just(0.0), SUBP, QUART, QUART, DYAD, ARB)


def platform(n_hosts):
    p = s4u.sharing_free_platform(n_hosts, cores=16, speed=SPEED, bw=BW, lat=LAT)
    for h in p["hosts"]:
        # concurrent I/Os on one disk share its bandwidth: one disk per concurrent activity
        h["disks"] = [{"name": "d_" + h["name"] + ("_%d" % k if k else ""), "read_bw": DISK_BW, "write_bw": DISK_BW} for k in range(3)]
    return p


# ------------------------------------------------------------------------------------------------ C03 programs
@st.composite
def c03_programs(draw, max_actors=5, max_ops=8):
    grid = draw(st.booleans())
    D = durations(grid)
    nh = draw(st.integers(1, 3))
    nact = draw(st.integers(1, max_actors))
    actors = []
    nh_ = [0]
    kinds = ["sleep", "sleep", "sleep", "sleep_until", "exec", "exec_to", "timer", "now", "yield",
             "acq_to", "cv_to", "get_to", "io", "killtime", "join_to", "mq_to", "mq_put"]

    def handle():
        nh_[0] += 1
        return nh_[0]
    for ai in range(nact):
        ops = []
        killset = False
        for _ in range(draw(st.integers(1, max_ops))):
            k = draw(st.sampled_from(kinds))
            if k == "sleep":
                ops.append(["sleep", draw(D)])
            elif k == "sleep_until":
                ops.append(["sleep_until", draw(D) * draw(st.sampled_from([1, 1, 2, 4]))])
            elif k == "exec":
                ops.append(["exec", float(draw(st.integers(0, 4096)))])
            elif k == "exec_to":
                # timed wait on an activity the program keeps a handle on (dropping a running activity is a documented user error)
                h = handle()
                ops += [["exec_async", float(draw(st.integers(1, 4096))), {}, h], ["wait", h, {"timeout": draw(D)}]]
            elif k == "timer":
                ops.append(["timer", draw(D)])
            elif k in ("now", "yield"):
                ops.append([k])
            elif k == "acq_to":
                t = draw(D)
                if t > 0:      # 0 means "no timeout" for semaphores (see notes/C04-C07.md)
                    ops.append(["acquire_timeout", 0, t])
            elif k == "cv_to":
                t = draw(D)
                if t > 0:
                    ops += [["lock", 0], ["cv_wait_for", 0, t], ["unlock", 0]]
            elif k == "mq_to":
                ops.append(["mq_get", 0, {"timeout": draw(D)}])
            elif k == "mq_put":
                ops.append(["mq_put", 0, {"timeout": draw(D)}])
            elif k == "get_to":
                ops.append(["get", nact, {"timeout": draw(D)}])       # mailbox nobody writes to
            elif k == "io":
                ops.append(["io", "d_h%d" % draw(st.integers(0, nh - 1)), float(draw(st.integers(0, 4)) * 262144),
                            draw(st.sampled_from(["read", "write"]))])
            elif k == "killtime" and (not killset or draw(st.integers(0, 3)) == 0):      # a later kill time replaces the earlier one
                killset = True
                ops.append(["set_kill_time", draw(D) * draw(st.sampled_from([1, 2, 4]))])
            elif k == "join_to" and nact > 1:
                ops.append(["join", "a%d" % draw(st.integers(0, nact - 1).filter(lambda x: x != ai)), draw(D)])
        spec = {"name": "a%d" % ai, "host": "h%d" % draw(st.integers(0, nh - 1)), "ops": ops,
                "on_exit": draw(st.integers(0, 2))}
        if (not killset or draw(st.integers(0, 3)) == 0) and draw(st.integers(0, 3)) == 0:
            spec["kill_time"] = draw(D) * draw(st.sampled_from([1, 2, 4]))
        if draw(st.integers(0, 7)) == 0:
            spec["daemon"] = True
        actors.append(spec)
    # messages: a put in the sender's program and a get in the receiver's, at random positions, mailbox = receiver's index
    if nact > 1:
        for _ in range(draw(st.integers(0, 3))):
            i = draw(st.integers(0, nact - 1))
            j = draw(st.integers(0, nact - 1).filter(lambda x: x != i))
            size = float(draw(st.integers(0, 16)) * 256)
            go = {"timeout": draw(D)} if draw(st.integers(0, 3)) == 0 else {}
            oi, oj = actors[i]["ops"], actors[j]["ops"]
            at = draw(st.integers(0, len(oi)))
            if draw(st.integers(0, 3)) == 0:
                h = handle()
                oi[at:at] = [["put_async", j, size, {}, h], ["wait", h, {"timeout": draw(D), "or_cancel": draw(st.booleans())}]]
            else:
                oi.insert(at, ["put", j, size, {}])
            oj.insert(draw(st.integers(0, len(oj))), ["get", j, go])
    cfg = list(s4u.SHARING_FREE_CFG)
    if draw(st.integers(0, 5)) == 0:
        cfg += ["cpu/optim:Full", "network/optim:Full"]       # the other update algorithm of the models (same dates expected)
    return {"cfg": cfg, "platform": platform(nh),
            "objects": {"mutex": [{"recursive": False}], "sem": [0], "cond": [0], "mailbox": nact + 1, "mqueue": 1},
            "actors": actors}


# ------------------------------------------------------------------------------------------------ C03 oracle
def _clamp(d):
    """the documented clamp of CpuCas01::sleep: a positive duration below precision/timing lasts precision/timing"""
    return max(d, PREC) if d > 0 else d


class Timeline:
    """what the log says about the clock"""

    def __init__(self, log, full=False):
        self.lines = log.lines
        self.full = full             # cpu/optim:Full: remaining durations are decremented at every step, each step may round
        self.adv = [(l["n"], T(l["t"]), T(l["dt"])) for l in log.lines if l.get("k") == "adv"]
        self.nongrid_from = None            # line number of the first advance to a non-grid date
        for n, t, _ in self.adv:
            if not is_grid(t):
                self.nongrid_from = n
                break

    def slack(self, n, x):
        """rounding slack of a date x observed at line n (dates off the grid only): 1 ulp with lazy updates, 1 ulp per time advance
        with full updates"""
        if not self.full:
            return ulp(x)
        return ulp(x) * (1 + sum(1 for m, _, _ in self.adv if m < n))

    def exact_at(self, n):
        """True when every date the clock took before line n is on the grid: all the kernel's date arithmetic was exact"""
        return self.nongrid_from is None or n < self.nongrid_from


def check_clock(log, oc, labels):
    """(a) advances are non-negative, the clock is the running sum of the advances, every record bears the current clock"""
    clock = 0.0
    nadv = 0
    for l in log.lines:
        if "t" not in l:
            continue
        t = T(l["t"])
        if l.get("k") == "adv":
            dt = T(l["dt"])
            nadv += 1
            if dt < 0:
                oc.bad("negative-time-advance", "line %d: on_time_advance(%r) at %r" % (l["n"], dt, t))
            if t != clock + dt:
                oc.bad("clock-not-sum-of-advances", "line %d: clock %r after an advance of %r from %r (expected %r)"
                       % (l["n"], t, dt, clock, clock + dt))
            if t < clock:
                oc.bad("clock-decreases", "line %d: clock goes from %r to %r" % (l["n"], clock, t))
            if dt == 0:
                labels.add("zero-advance")
            clock = t
        elif l.get("k") in ("done", "end") and t != clock:
            # after the last actor ended the engine may still advance (pending sleep actions): adv records precede them
            oc.bad("record-not-at-current-clock", "line %d (%s) bears date %r but the clock is %r" % (l["n"], l.get("k"), t, clock))
        elif t != clock:
            oc.bad("record-not-at-current-clock", "line %d (%s of %s) bears date %r but the clock is %r"
                   % (l["n"], l.get("k"), l.get("a", l.get("name")), t, clock))
    return nadv


def check_activities(log, oc, labels, ops_by_key):
    """(b) creation <= start <= finish for every activity that completed"""
    for l in log.of("act_end"):
        st_, fi = T(l["start"]) if "start" in l else None, T(l["finish"]) if "finish" in l else None
        if st_ is None:
            continue
        name = l.get("name", "")
        if st_ >= 0 and fi >= 0 and fi < st_:
            oc.bad("activity-finishes-before-start", "%s %s: start %r finish %r" % (l["type"], name, st_, fi))
        if fi >= 0 and fi > T(l["t"]):
            oc.bad("activity-finish-in-the-future", "%s %s: finish date %r reported at %r" % (l["type"], name, fi, T(l["t"])))
        if "#" in name:
            a, _, i = name.rpartition("#")
            rec = ops_by_key.get((a, int(i))) if i.isdigit() else None
            if rec is not None and st_ >= 0 and st_ < rec["t_req"]:
                oc.bad("activity-starts-before-creation", "%s %s created at %r has start date %r" % (l["type"], name, rec["t_req"], st_))
            if rec is not None:
                labels.add("activity-checked-" + l["type"])
    for l in log.of("act_start"):
        name = l.get("name", "")
        if "#" in name:
            a, _, i = name.rpartition("#")
            rec = ops_by_key.get((a, int(i))) if i.isdigit() else None
            if rec is not None and T(l["t"]) < rec["t_req"]:
                oc.bad("activity-starts-before-creation", "%s %s created at %r started at %r" % (l["type"], name, rec["t_req"], T(l["t"])))


INSTANT = {"now", "yield", "timer", "set_kill_time", "exec_async", "put_async", "put_init", "get_async", "mq_put_async", "mq_get_async",
           "io_async", "unlock", "release", "notify_one", "notify_all", "test", "act_info", "put_detach", "start", "cancel", "daemonize",
           "owner", "capacity", "would_block", "try_lock", "unlock_if", "spawn", "kill", "kill_all", "suspend", "resume"}
CLOSED_FORM = {"sleep", "sleep_until", "acquire_timeout", "cv_wait_for", "join"}
ASYNC_CREATORS = {"exec_async", "put_async", "get_async", "mq_put_async", "mq_get_async", "io_async", "put_init"}


def expected_events(case, ops):
    """dates at which something is EXPECTED to happen, from closed forms only (never from the observed return date of the same
    operation): list of (actor, op index or None, date, overlaps) where `overlaps` tells that the event may occur while the actor is
    blocked in another operation (timers, kill times).  Used to recognise the documented merge of events closer than precision/timing."""
    ev = []
    for r in ops:
        op, t0 = r["op"], r["t_req"]
        o = op[0]
        if o == "sleep":
            ev.append((r["a"], r["i"], t0 + _clamp(op[1]), False))
        elif o == "sleep_until" and op[1] > t0:
            ev.append((r["a"], r["i"], t0 + _clamp(op[1] - t0), False))
        elif o in ("acquire_timeout", "cv_wait_for"):
            ev.append((r["a"], r["i"], t0 + _clamp(op[2]), False))
        elif o == "join" and len(op) > 2 and isinstance(op[2], (int, float)):
            ev.append((r["a"], r["i"], t0 + _clamp(op[2]), False))
        elif o == "timer":
            ev.append((r["a"], r["i"], t0 + op[1], True))
        elif o == "set_kill_time":
            ev.append((r["a"], r["i"], op[1], True))
        elif o == "exec" and not isinstance(op[1], list):
            ev.append((r["a"], r["i"], t0 + op[1] / SPEED, False))
        elif o == "exec_async" and not isinstance(op[1], list) and not (isinstance(op[2], dict) and op[2].get("nostart")):
            # runs in the background: its completion is an event even if nobody waits for it (no completion signal is logged then)
            ev.append((r["a"], r["i"], t0 + op[1] / SPEED, True))
        elif o == "io_async":
            ev.append((r["a"], r["i"], t0 + op[2] / DISK_BW, True))
        if o in ("wait", "get", "mq_get", "mq_put", "wait_any", "wait_all") and isinstance(op[-1], dict) and "timeout" in op[-1]:
            ev.append((r["a"], r["i"], t0 + op[-1]["timeout"], False))
    for a in case["actors"]:
        if a.get("kill_time", -1) >= 0:
            ev.append((a["name"], None, a["kill_time"], True))
    return ev


def other_dates(ev, ops, log, me, idx=None):
    """dates of events that can coincide with operation `idx` of actor `me` without being that operation: the expected events of the
    other actors, the observed completions of the other actors' operations that have no closed form here (communications, I/O,
    matches), and the actor's own timers, kill time and asynchronous activities."""
    res = set()
    for a, i, d, overlaps in ev:
        if a != me or (overlaps and i != idx):
            res.add(d)
    asyncs = set()
    for r in ops:
        if r["a"] == me and r["op"][0] in ASYNC_CREATORS:
            asyncs.add("%s#%d" % (me, r["i"]))
        if r["a"] != me and r["t_ret"] is not None and r["op"][0] not in CLOSED_FORM and r["op"][0] not in INSTANT:
            res.add(r["t_ret"])
    for l in log.lines:
        if l.get("k") in ("act_end", "act_start"):
            name = l.get("name", "")
            if not name.startswith(me + "#") or name in asyncs:
                res.add(T(l["t"]))
    return res


def match_date(oc, labels, tl, what, n_ret, got, exp, others, action, sig):
    """`got` must be `exp`.  Tolerances, all derived from documented behaviour:
       - 0 when every date the clock took so far is on the dyadic grid (the kernel's arithmetic is exact);
       - otherwise 1 ulp: the clock is advanced by `now += (date - now)`, which may round;
       - `action` (events carried by a model action: sleeps, semaphore/condvar/join time-outs): the models finish every action whose date
         is within precision/timing AFTER the current date ("epsilon used to compare timings"): accepted iff the current date is the
         date of another actor's event."""
    if got == exp:
        return True
    if not tl.exact_at(n_ret) and abs(got - exp) <= tl.slack(n_ret, exp):
        labels.add("one-ulp-rounding")
        return True
    if action and got < exp and exp - got < PREC * (1 + 1e-6) and any(abs(got - d) <= ulp(got) for d in others):
        labels.add("merged-within-precision")
        return True
    oc.bad(sig, "%s: observed %r (%s), expected %r (%s), difference %g" % (what, got, got.hex(), exp, exp.hex(), got - exp))
    return False


def check_c03(case, log, oc, labels):
    full = any(c.startswith("cpu/optim:Full") for c in case.get("cfg", []))
    if full:
        labels.add("cpu-full-update")
    tl = Timeline(log, full)
    nadv = check_clock(log, oc, labels)
    ops = log.ops()
    by_key = {(r["a"], r["i"]): r for r in ops}
    check_activities(log, oc, labels, by_key)
    ev = expected_events(case, ops)
    others_cache = {}

    def others(a):
        if a not in others_cache:
            others_cache[a] = other_dates(ev, ops, log, a)
        return others_cache[a]

    # (e) nothing returns before it was called; (c) sleeps; time-outs fire at their date
    for r in ops:
        op, t0, t1 = r["op"], r["t_req"], r["t_ret"]
        o = op[0]
        if t1 is None:
            continue
        what = "%s op %d %s called at %r" % (r["a"], r["i"], op, t0)
        if t1 < t0:
            oc.bad("returns-before-call", what + " returned at %r" % t1)
            continue
        if o == "sleep":
            d = op[1]
            if d == 0:
                labels.add("sleep-zero")
            elif d < PREC:
                labels.add("sleep-sub-precision")
            else:
                labels.add("sleep")
            match_date(oc, labels, tl, what, r["n_ret"], t1, t0 + _clamp(d), others(r["a"]), True,
                       "sleep-wrong-date" if d >= PREC or d == 0 else "sub-precision-sleep-wrong-date")
        elif o == "sleep_until":
            if op[1] <= t0:
                labels.add("sleep_until-past")
                match_date(oc, labels, tl, what, r["n_ret"], t1, t0, others(r["a"]), True, "sleep_until-past-date-blocks")
            else:
                # sleep_until(t) is sleep_for(t - now): the target is fl(now + fl(t - now)), within 1 ulp of t
                labels.add("sleep_until")
                d = op[1] - t0
                exp = t0 + _clamp(d)
                match_date(oc, labels, tl, what, r["n_ret"], t1, exp, others(r["a"]), True, "sleep_until-wrong-date")
                if d >= PREC and abs(exp - op[1]) > ulp(op[1]):
                    oc.bad("harness-sleep_until-arith", "fl(now+fl(t-now)) is not within 1 ulp of t: %r %r" % (exp, op[1]))
        elif o == "now":
            if T(r["r"]) != t1:
                oc.bad("get_clock-differs-from-record", what + ": get_clock() = %r, record at %r" % (T(r["r"]), t1))
        elif o == "yield":
            if t1 != t0:
                oc.bad("yield-takes-time", what + " returned at %r" % t1)
        # time-outs
        timed_out = r.get("exc") == "Timeout" or (o in ("acquire_timeout", "cv_wait_for") and r.get("r") is True)
        if timed_out:
            if o in ("acquire_timeout", "cv_wait_for"):
                d = op[2]
                labels.add("sync-timeout" + ("-sub-precision" if d < PREC else ""))
                lo = t0 + d
                if o == "cv_wait_for":
                    # a timed-out condition wait returns once the mutex is re-acquired: only "not before its date" here (C06 has the rest)
                    early = t1 < lo and (tl.exact_at(r["n_ret"]) or lo - t1 > tl.slack(r["n_ret"], lo))     # (same rounding slack as match_date)
                    if early and not (lo - t1 < PREC * (1 + 1e-6) and any(abs(t1 - x) <= ulp(t1) for x in others(r["a"]))):
                        oc.bad("sync-timeout-too-early", what + " timed out at %r" % t1)
                elif d < PREC:
                    # the statement does not say whether the clamp applies to these: accept the whole range
                    hi = t0 + PREC
                    merged = t1 < lo and hi - t1 < PREC * (1 + 1e-6) and any(abs(t1 - x) <= ulp(t1) for x in others(r["a"]))
                    if merged:
                        labels.add("merged-within-precision")
                    elif not (lo <= t1 <= hi + ulp(hi)):
                        oc.bad("sync-timeout-wrong-date", what + " timed out at %r" % t1)
                else:
                    match_date(oc, labels, tl, what, r["n_ret"], t1, lo, others(r["a"]), True, "sync-timeout-wrong-date")
            elif isinstance(op[-1], dict) and "timeout" in op[-1]:
                d = op[-1]["timeout"]
                labels.add("activity-timeout" + ("-zero" if d == 0 else "-sub-precision" if d < PREC else ""))
                # a kernel timer: never early, exactly at its date
                match_date(oc, labels, tl, what, r["n_ret"], t1, t0 + d, (), False, "activity-timeout-wrong-date")
        elif o == "join" and len(op) > 2 and "r" in r:
            # a join never lasts longer than its time-out (lifecycle semantics are C11's)
            d = op[2]
            if d > 0 and t1 > t0 + _clamp(d) and t1 - (t0 + _clamp(d)) > (0 if tl.exact_at(r["n_ret"]) else ulp(t1)):
                oc.bad("join-outlasts-timeout", what + " returned at %r" % t1)
    # (f) timers
    fired = {}
    for l in log.of("timer"):
        key = (l["a"], l["i"])
        fired[key] = fired.get(key, 0) + 1
        date, t = T(l["date"]), T(l["t"])
        labels.add("timer")
        if t < date:
            oc.bad("timer-fires-early", "timer of %s op %d set for %r fired at %r" % (l["a"], l["i"], date, t))
        else:
            match_date(oc, labels, tl, "timer of %s op %d" % key, l["n"], t, date, (), False, "timer-fires-late")
    for r in ops:
        if r["op"][0] == "timer" and r["t_ret"] is not None and log.done:
            if fired.get((r["a"], r["i"]), 0) != 1:
                oc.bad("timer-fired-%d-times" % fired.get((r["a"], r["i"]), 0), "timer of %s op %d armed at %r for +%r"
                       % (r["a"], r["i"], r["t_req"], r["op"][1]))
    # (d) kill times
    check_kill_times(case, log, oc, labels, tl, ops)
    # coinciding dates: >= 2 actors with a record at the same positive date
    seen = {}
    for r in ops:
        if r["t_ret"] is not None and r["t_ret"] > 0 and r["t_ret"] > r["t_req"]:
            seen.setdefault(r["t_ret"], set()).add(r["a"])
    if any(len(v) >= 2 for v in seen.values()):
        labels.add("coinciding-dates")
    labels.add("grid-run" if tl.nongrid_from is None else "nongrid-run")
    return nadv


def kill_times_of(case, ops):
    """{actor: (date armed, kill date)} for kill times that were armed (the date must be in the future when it is set: documented
    in ActorImpl::set_kill_time: a date in the past is ignored)"""
    res = {}
    for a in case["actors"]:
        if a.get("kill_time", -1) > 0:
            res[a["name"]] = (0.0, a["kill_time"], False)
    for r in ops:
        if r["op"][0] == "set_kill_time" and r["t_ret"] is not None and r["op"][1] > r["t_req"]:
            if r["a"] in res:
                res[r["a"]] = (r["t_req"], r["op"][1], True)      # replaces the kill time set earlier (fix 6bf89374c4)
            else:
                res[r["a"]] = (r["t_req"], r["op"][1], False)
    return res


def check_kill_times(case, log, oc, labels, tl, ops):
    ends = {}
    body_end = {}
    exits = {}
    last = {}
    for l in log.lines:
        k = l.get("k")
        if k == "actor_end":
            ends.setdefault(l["a"], (l["n"], T(l["t"])))
        elif k == "body_end":
            body_end[l["a"]] = T(l["t"])
        elif k == "on_exit":
            exits.setdefault(l["a"], []).append((l["cb"], l["failed"], T(l["t"])))
        if k in ("req", "ret", "body_end", "on_exit") and "a" in l:
            last[l["a"]] = (l["n"], T(l["t"]), k)
    deadlock = bool(log.of("deadlock"))
    spec = {a["name"]: a for a in case["actors"]}
    nondaemon_end = max([ends[a][1] for a in ends if not spec.get(a, {}).get("daemon")], default=None)
    for a, (t_set, kt, replaced) in kill_times_of(case, ops).items():
        if replaced:
            labels.add("kill-time-replaced")
        if a not in ends:
            if log.done:
                oc.bad("actor-never-ends", "%s has no termination record" % a)
            continue
        n_end, t_end = ends[a]
        if a in body_end:
            labels.add("kill-time-after-natural-end")
            if body_end[a] > kt and body_end[a] - kt > (0 if tl.exact_at(n_end) else ulp(kt)):
                oc.bad("actor-outlives-kill-time", "%s (kill time %r) ran its body until %r" % (a, kt, body_end[a]))
            continue
        if t_end < kt:
            if deadlock or (spec.get(a, {}).get("daemon") and (nondaemon_end is None or t_end >= nondaemon_end)):
                labels.add("kill-time-preempted")
                continue
            oc.bad("killed-before-kill-time", "%s (kill time %r set at %r) was terminated at %r" % (a, kt, t_set, t_end))
            continue
        labels.add("killed-at-kill-time")
        match_date(oc, labels, tl, "termination of %s (kill time set at %r)" % (a, t_set), n_end, t_end, kt, (), False, "kill-time-wrong-date")
        for cb, failed, t in exits.get(a, []):
            if t != t_end:
                oc.bad("on_exit-not-at-death", "%s: on_exit %d ran at %r, termination at %r" % (a, cb, t, t_end))
            if not failed:
                oc.bad("on_exit-flag-wrong-after-kill-time", "%s: on_exit %d reports failed=false although the actor was killed by its kill time" % (a, cb))
        if len(exits.get(a, [])) != spec.get(a, {}).get("on_exit", 0):
            oc.bad("on_exit-count-after-kill-time", "%s: %d on_exit records for %d callbacks" % (a, len(exits.get(a, [])), spec.get(a, {}).get("on_exit", 0)))
        if a in last and last[a][1] > t_end:
            oc.bad("actor-acts-after-kill-time", "%s: %s record at %r after its death at %r" % (a, last[a][2], last[a][1], t_end))


# ================================================================================================ C12: timed waits
INF = float("inf")
OFFS = [-1.0, -2.0 ** -10, -2.0 ** -20, 0.0, 2.0 ** -20, 2.0 ** -10, 1.0]


def _g10(lo, hi):
    return st.integers(int(lo * 1024), int(hi * 1024)).map(lambda k: k / 1024)


@st.composite
def c12_programs(draw, mess_weight=1):
    """1-3 activities (exec, I/O, communication, message) whose completion date c has a closed form, and timed waits whose deadline is
    c + off, off in OFFS.  All dates are multiples of 2^-20.  The plan below is only used to AIM the deadlines: the oracle recomputes
    every date from the log."""
    nh = draw(st.integers(2, 3))
    nacts = draw(st.integers(1, 3))
    prog = {}      # actor -> {"host", "ops", "now"}
    order = []
    acts = []      # planned: {"h": [handles], "c", "created": date from which other actors may use the handles, "started"}
    nhandle = [0]

    def new_handle():
        nhandle[0] += 1
        return nhandle[0]

    def actor(name, host):
        prog[name] = {"host": "h%d" % host, "ops": [], "now": 0.0}
        order.append(name)
        return prog[name]

    def sleep(a, d):
        if d > 0:
            a["ops"].append(["sleep", d])
            a["now"] += d

    def add_wait(a, act, h, may_cancel=True):
        if draw(st.integers(0, 2)) == 0:
            sleep(a, draw(_g10(0, 0.5)) if draw(st.booleans()) else draw(st.sampled_from([2.0 ** -20, 2.0 ** -10, 0.25])))
        now = a["now"]
        if not act["started"]:          # the first wait of the owner starts it
            act["started"] = True
            act["created"] = max(act["created"], now)
            act["c"] = max(now, act.get("peer_date", 0.0)) + act["dur"] if act["dur"] is not None else INF
        c = act["c"]
        offs = [o for o in OFFS if c + o >= now] if c < INF else []
        if offs:
            D = c + draw(st.sampled_from(offs))
        else:
            D = now + draw(st.sampled_from([0.0, 2.0 ** -20, 2.0 ** -10, 0.25, 1.0]))
        mode = draw(st.sampled_from(["for", "for", "until", "cancel"] if may_cancel else ["for", "for", "until"]))
        if mode == "until" and D > now:
            opts = {"until": D}
        else:
            opts = {"timeout": D - now}
            if mode == "cancel":
                opts["or_cancel"] = True
        a["ops"].append(["twait", h, opts])
        a["now"] = max(now, c) if c <= D else D
        if draw(st.integers(0, 2)) == 0:
            a["ops"].append(["tinfo", h])

    kinds = ["exec", "exec", "exec_nostart", "io", "io", "comm", "comm", "comm_init"] + ["mess"] * mess_weight
    for j in range(nacts):
        kind = draw(st.sampled_from(kinds))
        ho = draw(st.integers(0, nh - 1))
        o = actor("o%d" % j, ho)
        sleep(o, draw(_g10(0, 1)))
        h = new_handle()
        act = {"h": [h], "started": True, "dur": None, "kind": kind}
        if kind in ("exec", "exec_nostart"):
            w = draw(st.integers(1, 3072))
            act["dur"] = w / SPEED
            o["ops"].append(["exec_async", float(w), {"nostart": True} if kind == "exec_nostart" else {}, h])
            act["started"] = kind == "exec"
            act["c"] = o["now"] + act["dur"]
        elif kind == "io":
            k = draw(st.integers(1, 3072))
            act["dur"] = k / 1024
            o["ops"].append(["io_async", "d_h%d%s" % (draw(st.integers(0, nh - 1)), "_%d" % j if j else ""), float(k * 1024),
                             draw(st.sampled_from(["read", "write"])), h, {}])
            act["c"] = o["now"] + act["dur"]
        else:
            hp = draw(st.integers(0, nh - 2))
            hp = hp if hp < ho else hp + 1          # the peer lives on another host (same-host transfers use the 10 GB/s loopback: not dyadic)
            p = actor("p%d" % j, hp)
            sleep(p, draw(_g10(0, 1.5)))
            h2 = new_handle()
            act["h"].append(h2)
            if kind == "mess":
                o["ops"].append(["mq_put_async", j, h])
                p["ops"].append(["mq_get_async", j, h2])
                act["dur"] = 0.0
            else:
                size = draw(st.integers(0, 2048))
                o["ops"].append(["put_init" if kind == "comm_init" else "put_async", j, float(size), {}, h])
                p["ops"].append(["get_async", j, h2])
                act["dur"] = LAT + size / BW
                act["started"] = kind == "comm"
            act["peer_date"] = p["now"]
            act["c"] = max(o["now"], p["now"]) + act["dur"]
            act["peer"] = p
        act["owner"] = o
        act["created"] = max(o["now"], act.get("peer_date", 0.0))
        acts.append(act)
    # the owners' (and peers') own timed waits
    for act in acts:
        o = act["owner"]
        if not act["started"] and draw(st.booleans()):
            sleep(o, draw(_g10(0, 0.5)))
        for _ in range(draw(st.integers(0 if act["started"] else 1, 2))):
            add_wait(o, act, act["h"][0])
        if "peer" in act and act["started"]:
            for _ in range(draw(st.integers(0, 2))):
                add_wait(act["peer"], act, act["h"][1])
    # other waiters: single waits and wait_any on activities that exist (strictly) before they call
    started = [a for a in acts if a["started"]]
    for wi in range(draw(st.integers(0, 3)) if started else 0):
        w = actor("w%d" % wi, draw(st.integers(0, nh - 1)))
        targets = draw(st.lists(st.sampled_from(range(len(started))), min_size=1, max_size=3, unique=True))
        tacts = [started[t] for t in targets]
        sleep(w, max(a["created"] for a in tacts) + draw(st.sampled_from([2.0 ** -20, 2.0 ** -10, 0.25, 0.5, 1.0])))
        for _ in range(draw(st.integers(1, 3))):
            if draw(st.integers(0, 2)) == 0:
                hs = [draw(st.sampled_from(a["h"])) for a in tacts]
                first = min(a["c"] for a in tacts)
                offs = [o_ for o_ in OFFS if first + o_ >= w["now"]] if first < INF else []
                D = first + draw(st.sampled_from(offs)) if offs else w["now"] + draw(st.sampled_from([0.0, 2.0 ** -10, 1.0]))
                w["ops"].append(["twait_any", hs, {"timeout": D - w["now"]}])
                w["now"] = max(w["now"], first) if first < D else D
            else:
                a = draw(st.sampled_from(tacts))
                add_wait(w, a, draw(st.sampled_from(a["h"])))
    # owners and peers normally stay until the end of their activity (an activity is cancelled when its actor ends)
    for act in acts:
        for who, h in [(act["owner"], act["h"][0])] + ([(act["peer"], act["h"][1])] if "peer" in act else []):
            if draw(st.integers(0, 7)) > 0:
                who["ops"].append(["twait", h, {}])
    cfg = list(s4u.SHARING_FREE_CFG)
    if draw(st.integers(0, 5)) == 0:
        cfg += ["cpu/optim:Full", "network/optim:Full"]       # the other update algorithm of the models: same dates (all dyadic)
    return {"cfg": cfg, "platform": platform(nh), "objects": {"mailbox": nacts, "mqueue": nacts},
            "actors": [{"name": n, "host": prog[n]["host"], "ops": prog[n]["ops"]} for n in order]}


class Invalid(Exception):
    pass


def c12_model(case, log):
    """natural completion dates from the closed forms.  Returns (handles, groups)."""
    ops = log.ops()
    host = {a["name"]: a["host"] for a in case["actors"]}
    H = {}
    for r in ops:
        op, o = r["op"], r["op"][0]
        if r["t_ret"] is None or "exc" in r:
            continue
        info = None
        if o == "exec_async" and not isinstance(op[1], list):
            info = dict(h=op[3], kind="exec", dur=op[1] / SPEED, started=not op[2].get("nostart", False), rate=SPEED, amount=op[1])
        elif o == "io_async":
            info = dict(h=op[4], kind="io", dur=op[2] / DISK_BW, started=True, rate=DISK_BW, amount=op[2])
        elif o in ("put_async", "put_init"):
            info = dict(h=op[4], kind="comm_send", chan=("mb", op[1]), size=op[2], started=o == "put_async")
        elif o == "get_async":
            info = dict(h=op[2], kind="comm_recv", chan=("mb", op[1]), started=True)
        elif o == "mq_put_async":
            info = dict(h=op[2], kind="mess_put", chan=("mq", op[1]), started=True)
        elif o == "mq_get_async":
            info = dict(h=op[2], kind="mess_get", chan=("mq", op[1]), started=True)
        if info is None:
            continue
        if info["h"] in H:
            raise Invalid("handle %d created twice" % info["h"])
        info.update(creator=r["a"], i=r["i"], t_create=r["t_req"], n_create=r["n_req"])
        H[info["h"]] = info
    # start dates
    for h, x in H.items():
        x["t_start"] = x["t_create"] if x["started"] else None
    for r in ops:
        o = r["op"][0]
        if o in ("twait", "twait_any", "start") and r.get("r") != "no-handle":
            hs = r["op"][1] if isinstance(r["op"][1], list) else [r["op"][1]]
            for h in hs:
                x = H.get(h)
                if x is not None and x["t_start"] is None and r["n_req"] > x["n_create"]:
                    if r["a"] != x["creator"] or o == "twait_any":
                        raise Invalid("activity %d started by somebody else's wait" % h)
                    x["t_start"] = r["t_req"]
    # groups: a communication / a message is one activity seen through two handles
    groups = {}
    chans = {}
    for h, x in H.items():
        if "chan" in x:
            chans.setdefault(x["chan"], []).append(h)
        else:
            groups[h] = dict(hs=[h], c=(x["t_start"] + x["dur"]) if x["t_start"] is not None else INF, kind=x["kind"])
            x["g"] = h
    for chan, hs in chans.items():
        snd = [h for h in hs if H[h]["kind"] in ("comm_send", "mess_put")]
        rcv = [h for h in hs if H[h]["kind"] in ("comm_recv", "mess_get")]
        if len(snd) > 1 or len(rcv) > 1:
            raise Invalid("channel %r used by more than one pair" % (chan,))
        g = dict(hs=hs, c=INF, kind="comm" if chan[0] == "mb" else "mess")
        if snd and rcv:
            s, r_ = H[snd[0]], H[rcv[0]]
            if s["t_start"] is not None and r_["t_start"] is not None:
                m = max(s["t_start"], r_["t_start"])
                g["m"] = m
                if chan[0] == "mq":
                    g["c"] = m
                else:
                    if host[s["creator"]] == host[r_["creator"]]:
                        raise Invalid("same-host communication")
                    g["c"] = m + LAT + s["size"] / BW
                    g["size"] = s["size"]
        for h in hs:
            H[h]["g"] = hs[0]
        groups[hs[0]] = g
    # the death of a creator cancels its activities: nothing is asserted beyond that date
    death = {l["a"]: T(l["t"]) for l in log.of("actor_end")}
    # cancellation requests, per handle: wait_for_or_cancel (effective only if it times out) and explicit cancels
    cand = {h: [] for h in H}
    for r in ops:
        op, o = r["op"], r["op"][0]
        if r.get("r") == "no-handle":
            continue
        if o == "twait" and isinstance(op[-1], dict) and op[-1].get("or_cancel") and "timeout" in op[-1] and op[1] in H:
            cand[op[1]].append((r["t_req"] + op[-1]["timeout"], r["a"], r["i"]))
        elif o == "tcancel" and op[1] in H:
            cand[op[1]].append((r["t_req"], r["a"], r["i"]))
    # the view of every handle: natural completion c, cancellation X (< c), end E = min(c, X)
    V = {}
    for g in groups.values():
        deaths = {H[h]["creator"]: death.get(H[h]["creator"], INF) for h in g["hs"]}
        base = dict(kind=g["kind"], size=g.get("size"), hs=g["hs"], deaths=deaths, limit=min(deaths.values()), uncertain=False)
        m = g.get("m", None)
        allc = [c_ for h in g["hs"] for c_ in cand[h]]
        if m is not None and m < INF and any(d == m for d, _, _ in allc):
            base["uncertain"] = True      # a cancellation at the very date of the match: order of two requests of the same date
        if m is not None and m < INF and any(d < m for d, _, _ in allc):
            # cancelled by one side before the other side arrived: no match; the other side waits for ever
            for h in g["hs"]:
                X = min([d for d, _, _ in cand[h]], default=INF)
                V[h] = dict(base, c=INF, X=X, E=X, cancellers=[c_ for c_ in cand[h] if c_[0] == X], unmatched=True)
        else:
            c = g["c"]
            cs = [c_ for c_ in allc if c_[0] < c]
            X = min([d for d, _, _ in cs], default=INF)
            for h in g["hs"]:
                V[h] = dict(base, c=c, X=X, E=min(c, X), cancellers=cs)
    return H, V, ops


def check_c12(case, log, oc, labels):
    H, V, ops = c12_model(case, log)
    near = False
    # known defect (known_findings.json (C12)): a 0-byte communication whose latency ends exactly at a deadline times out although it completes then;
    # when that wait is a wait_for_or_cancel the communication is moreover cancelled: the rest of what happens to it is a consequence
    tainted = set()
    for r in ops:
        op = r["op"]
        if op[0] == "twait" and op[1] in V and isinstance(op[-1], dict) and "timeout" in op[-1] and r.get("exc") == "Timeout":
            v = V[op[1]]
            if v["kind"] == "comm" and v["size"] == 0 and r["t_req"] + op[-1]["timeout"] == v["c"]:
                tainted.update(v["hs"])
    for r in ops:
        op, o = r["op"], r["op"][0]
        if r.get("r") == "no-handle":
            raise Invalid("wait on a handle that does not exist yet")
        if r.get("r") == "received-before":
            continue        # the interpreter does not wait twice on a reception it already reported (it owns the payload)
        t0, t1 = r["t_req"], r["t_ret"]
        what = "%s op %d %s called at %r" % (r["a"], r["i"], op, t0)
        opts = op[-1] if isinstance(op[-1], dict) else {}
        if o == "twait":
            if op[1] not in H:
                raise Invalid("wait on an unknown handle")
            x = H[op[1]]
            g = V[op[1]]
            c, X, E = g["c"], g["X"], g["E"]
            if g["uncertain"]:
                labels.add("cancel-at-match-date(not asserted)")
                continue
            if op[1] in tainted and not (r.get("exc") == "Timeout" and "timeout" in opts and t0 + opts["timeout"] == c):
                labels.add("after-zero-byte-tie(known defect)")
                continue
            kind = g["kind"]
            if "timeout" in opts:
                D = t0 + opts["timeout"]
                api = "wait_for_or_cancel" if opts.get("or_cancel") else "wait_for"
            elif "until" in opts:
                api = "wait_until"
                if opts["until"] <= t0:
                    labels.add("wait_until-past")
                    if t1 is not None and t1 != t0:
                        oc.bad("wait_until-past-blocks", what + " returned at %r" % t1)
                    continue
                D = opts["until"]
            else:
                D, api = INF, "wait"
            # the death of a creator BEFORE the completion cancels the activity (an actor cannot die inside its own wait: there are no
            # kills here; a creator that ends at the completion date ends after the completion, except for a Mess, which completes
            # inside an actor round)
            L = min([d for a, d in g["deaths"].items() if a != r["a"]], default=INF)
            if (L < c or (L == c and kind == "mess")) and L <= min(D, E):
                labels.add("creator-died-first")
                continue
            if x["t_start"] is None or t0 < x["t_start"]:
                raise Invalid("wait before the start")
            if D < INF and c < INF and abs(D - c) <= 2.0 ** -10:
                near = True
            cls = "%s/%s/" % (api, kind)
            normal = t1 is not None and "exc" not in r
            exc = r.get("exc")
            me_cancels = (D, r["a"], r["i"]) in g["cancellers"]
            if E <= t0:
                # already over when the wait is called: answered at once
                labels.add(cls + "already-over")
                if t1 is None:
                    oc.bad("wait-on-ended-activity-blocks", what + ": the activity ended at %r" % E)
                elif t1 != t0:
                    oc.bad("wait-on-ended-activity-delayed", what + ": the activity ended at %r, the wait returned at %r" % (E, t1))
                elif E == c and not normal:
                    oc.bad("wait-on-completed-activity-raises", what + ": the activity completed at %r, the wait raised %s" % (c, exc))
                elif E == X and normal and r.get("r") not in (None, "done"):
                    # (what a wait on a cancelled activity raises is not stated: Exec raises CancelException, Mess returns; but nothing may be delivered)
                    oc.bad("cancelled-activity-delivers", what + ": the activity was cancelled at %r, the wait returned %r" % (X, r.get("r")))
                continue
            if D < E:
                labels.add(cls + "deadline-before")
                if D - c >= -(2.0 ** -10):
                    labels.add(cls + "deadline-just-before")
                if t1 is None:
                    oc.bad("timed-wait-never-returns", what + ": deadline %r, completion %r" % (D, c))
                elif exc != "Timeout":
                    oc.bad("no-timeout-before-completion", what + ": deadline %r precedes the end of the activity (%r) but the wait %s at %r"
                           % (D, E, "returned normally" if normal else "raised " + str(exc), t1))
                elif t1 != D:
                    oc.bad("timeout-at-wrong-date", what + ": deadline %r, time-out raised at %r" % (D, t1))
                continue
            if D == E and E == X:
                # my own cancellation, or somebody else's cancellation exactly at my deadline (order of two timers of the same date: open)
                labels.add(cls + ("cancels" if me_cancels else "deadline-at-foreign-cancel"))
                if t1 is None:
                    oc.bad("timed-wait-never-returns", what + ": deadline %r" % D)
                elif t1 != D or normal or (me_cancels and exc != "Timeout" and len([1 for d, _, _ in g["cancellers"] if d == X]) == 1):
                    oc.bad("timeout-at-wrong-date" if t1 != D else "no-timeout-before-completion",
                           what + ": deadline %r (completion %r): outcome %s at %r" % (D, c, "normal" if normal else exc, t1))
                continue
            # D >= E: the activity ends first (or exactly at the deadline: counts as completed)
            if E == c and D == c and kind == "mess":
                # a Mess completes when the second party posts its request: a request issued at the very date of the deadline is a race
                # between two events of the same date that the statement does not order
                labels.add(cls + "tie(open: request at the deadline)")
                if t1 is None or t1 != D:
                    oc.bad("timeout-at-wrong-date", what + ": deadline and match %r, outcome at %r" % (D, t1))
                continue
            if E == c:
                labels.add(cls + ("tie" if D == c else "deadline-after" if D < INF else "untimed"))
                if D < INF and D - c <= 2.0 ** -10 and D > c:
                    labels.add(cls + "deadline-just-after")
                if t1 is None:
                    if c < INF and log.done:
                        oc.bad("wait-never-returns", what + ": the activity completes at %r" % c)
                elif exc == "Timeout" and D == c and kind == "comm" and g.get("size") == 0:
                    oc.bad("tie-timeout-zero-byte-comm", what + ": the communication (0 byte: latency only) completes at %r = deadline, the wait raised Timeout" % c)
                elif not normal:
                    oc.bad("timeout-although-completed-by-deadline" if exc == "Timeout" else "wait-raises-on-completion",
                           what + ": completion %r <= deadline %r but the wait raised %s at %r" % (c, D, exc, t1))
                elif t1 != c:
                    oc.bad("wait-returns-at-wrong-date", what + ": completion %r, the wait returned at %r" % (c, t1))
            else:
                labels.add(cls + "cancelled-by-other")
                if t1 is None:
                    oc.bad("wait-never-returns", what + ": the activity is cancelled at %r" % X)
                elif t1 != X or exc == "Timeout" or (normal and r.get("r") not in (None, "done")):
                    oc.bad("wait-on-cancelled-activity-wrong", what + ": cancelled at %r; the wait %s at %r" % (X, "returned %r" % (r.get("r"),) if normal else "raised " + str(exc), t1))
        elif o == "twait_any":
            hs = op[1]
            if any(h not in H for h in hs):
                raise Invalid("wait_any on an unknown handle")
            gs = [V[h] for h in hs]
            if any(g["uncertain"] for g in gs) or any(h in tainted for h in hs):
                continue
            if any(H[h]["t_start"] is None or t0 < H[h]["t_start"] for h in hs):
                raise Invalid("wait_any before the start")
            D = t0 + opts["timeout"] if "timeout" in opts and opts["timeout"] >= 0 else INF
            first = min(g["c"] for g in gs)
            horizon = min(D, max(first, t0))
            if any(g["X"] <= horizon or ((g["limit"] < g["c"] or g["kind"] == "mess") and g["limit"] <= horizon) for g in gs):
                labels.add("wait_any/with-cancel-or-death(not asserted)")
                continue
            if D < INF and first < INF and abs(D - first) <= 2.0 ** -10:
                near = True
            res = r.get("r")
            got_h = res.get("h") if isinstance(res, dict) else None
            if first < D:
                labels.add("wait_any/completion-before-deadline" + ("-just" if D - first <= 2.0 ** -10 else ""))
                exp_t = max(t0, first)
                if t1 is None:
                    if log.done:
                        oc.bad("wait_any-never-returns", what + ": first completion %r, deadline %r" % (first, D))
                elif got_h is None:
                    oc.bad("wait_any-timeout-although-completed-before-deadline", what + ": an activity completes at %r < deadline %r, outcome %s at %r"
                           % (first, D, r.get("exc", res), t1))
                elif V[got_h]["c"] > exp_t:
                    oc.bad("wait_any-returns-unfinished-activity", what + ": returned handle %d (completion %r) at %r" % (got_h, V[got_h]["c"], t1))
                elif t1 != exp_t:
                    oc.bad("wait_any-returns-at-wrong-date", what + ": first completion %r, returned at %r" % (first, t1))
            elif first == D:
                labels.add("wait_any/tie(open)")
                if t1 is None or t1 != D:
                    oc.bad("wait_any-returns-at-wrong-date", what + ": completion and deadline %r, returned at %r" % (D, t1))
            else:
                labels.add("wait_any/deadline-before" + ("-just" if first - D <= 2.0 ** -10 else ""))
                if t1 is None:
                    oc.bad("wait_any-never-returns", what + ": deadline %r" % D)
                elif r.get("exc") != "Timeout":
                    oc.bad("wait_any-no-timeout", what + ": no activity completes before the deadline %r (first: %r), outcome %s at %r" % (D, first, res, t1))
                elif t1 != D:
                    oc.bad("wait_any-timeout-at-wrong-date", what + ": deadline %r, time-out at %r" % (D, t1))
        elif o == "tinfo" and op[1] in H and "r" in r and isinstance(r["r"], dict):
            x = H[op[1]]
            g = V[op[1]]
            if g["limit"] <= t0 or x["t_start"] is None or g["uncertain"] or op[1] in tainted:
                continue
            state = r["r"]["state"]
            if t0 < g["E"]:
                labels.add("info/still-running")
                if state in ("FINISHED", "CANCELED", "FAILED"):
                    oc.bad("activity-not-running-before-its-end", what + ": state %s although the activity ends at %r" % (state, g["E"]))
                elif x["kind"] in ("exec", "io") and t0 >= x["t_start"]:
                    rem = T(r["r"]["remaining"])
                    exp = x["amount"] - (t0 - x["t_start"]) * x["rate"]
                    if rem != exp:
                        oc.bad("timed-wait-disturbs-progress", what + ": remaining %r, expected %r" % (rem, exp))
            elif g["E"] == g["X"] and any(a == r["a"] for d, a, _ in g["cancellers"] if d == g["X"]) and x["creator"] == r["a"]:
                labels.add("info/cancelled")
                # The s4u state is a field of the shared s4u::Activity object: cancel() writes CANCELED, but ANOTHER actor that waits for
                # the same object and is failed by the cancellation writes FAILED over it (ActivitySet::handle_failed_activities() /
                # Activity::complete(FAILED)).  FAILED is accepted only when such a foreign waiter returned with an exception at the
                # cancellation date before this observation; otherwise the state must be CANCELED.
                foreign = any(q["a"] != r["a"] and q["op"][0] in ("twait", "twait_any") and q["t_ret"] == g["X"] and q.get("exc")
                              and q["n_ret"] < r["n_ret"] and
                              (op[1] in q["op"][1] if isinstance(q["op"][1], list) else q["op"][1] == op[1])
                              for q in ops if q["t_ret"] is not None)
                if foreign and state == "FAILED":
                    labels.add("info/cancelled-state-overwritten-by-a-failed-foreign-waiter")
                elif state != "CANCELED":
                    oc.bad("wait_for_or_cancel-does-not-cancel", what + ": state %s after the cancellation at %r" % (state, g["X"]))
    # the activities themselves complete at their natural date, whatever the waits did
    for l in log.of("act_end"):
        name = l.get("name", "")
        for h, x in H.items():
            if name == "%s#%d" % (x["creator"], x["i"]):
                g = V[h]
                if g["uncertain"] or h in tainted:
                    continue
                if g["X"] == INF and g["limit"] >= g["c"] and l.get("state") != "CANCELED" and "finish" in l and T(l["finish"]) >= 0:
                    labels.add("completion-checked")
                    # (the completion SIGNAL is raised when a waiter notices the completion: only the finish date is the activity's)
                    if T(l["finish"]) != g["c"]:
                        oc.bad("completion-date-differs-from-closed-form", "%s %s: closed form %r, finish date %r (signal at %r)"
                               % (l["type"], name, g["c"], T(l["finish"]), T(l["t"])))
                elif g["X"] < INF and l.get("state") == "FINISHED":
                    oc.bad("cancelled-activity-completes", "%s %s cancelled at %r reports completion at %r" % (l["type"], name, g["X"], T(l["t"])))
    return near
