"""Shared model for C29 (collective algorithms): the algorithm list of the tree, generated buffer contents (same function as
drivers/mpi_ops_coll.cpp), the datatypes used, a sequential reference of every MPI collective on numpy arrays of words, and the
expansion of a size-independent *call description* into `coll` operations of the mpi_interp driver.

A buffer is an array of WORDS of one base kind ("i4": 32-bit integers, "f8": doubles).  A datatype is described by the word offsets
of its basic elements inside one extent (`offs`, `ext`, in words).  Values are small enough for every reduction to be exact.
"""
import zlib

import numpy as np

from . import core, mpi

NP = 17                       # ranks of the world; communicator sizes 1..NP
TAIL = 2                      # extra words at the end of every buffer (must stay untouched)
WORDSIZE = {"i4": 4, "f8": 8}
NPDT = {"i4": np.dtype("<i4"), "f8": np.dtype("<f8")}


class Type:
    def __init__(self, name, base, offs, ext, create=()):
        self.name, self.base, self.offs, self.ext, self.create = name, base, np.array(offs, dtype=np.int64), ext, list(create)
        self.n = len(offs)        # basic elements (words) per element of this type

    def idx(self, count, off=0):
        """word indices (in type-map order) of `count` elements starting at word `off`"""
        if count == 0:
            return np.zeros(0, dtype=np.int64)
        return (off + (np.arange(count, dtype=np.int64) * self.ext)[:, None] + self.offs[None, :]).ravel()

    def span(self, count):
        """words covered by `count` elements (0 for count 0)"""
        return 0 if count == 0 else (count - 1) * self.ext + int(self.offs.max()) + 1


TYPES = {t.name: t for t in [
    Type("INT", "i4", [0], 1),
    Type("DOUBLE", "f8", [0], 1),
    Type("2INT", "i4", [0, 1], 2),
    Type("VEC", "i4", [0, 1, 4, 5, 8, 9], 10, [{"kind": "vector", "count": 3, "blocklen": 2, "stride": 4, "old": "INT", "out": "VEC"}]),
    Type("CONT3", "i4", [0, 1, 2], 3, [{"kind": "contiguous", "count": 3, "old": "INT", "out": "CONT3"}]),
    Type("RSZ", "i4", [0, 1], 4, [{"kind": "contiguous", "count": 2, "old": "INT", "out": "C2"},
                                  {"kind": "resized", "lb": 0, "extent": 16, "old": "C2", "out": "RSZ"}]),
    Type("VECD", "f8", [0, 3], 4, [{"kind": "vector", "count": 2, "blocklen": 1, "stride": 3, "old": "DOUBLE", "out": "VECD"}]),
]}
# type classes of a call: (send type, recv type, words of the send type per word-signature unit, ...): see `types_of_call`
MOVE_TYPES = ["INT", "DOUBLE", "VEC", "VECD", "CONT3", "RSZ"]
MIXED_TYPES = ["VEC>INT", "INT>VEC", "CONT3>INT", "INT>RSZ"]   # send and receive types differ (same signature): optional extension
RED_TYPES = {"INT": ["SUM", "PROD", "MAX", "MIN", "BXOR", "USER"], "DOUBLE": ["SUM", "PROD", "MAX", "MIN"], "2INT": ["MAXLOC", "MINLOC"],
             "VEC": ["USER"], "CONT3": ["USER"], "RSZ": ["USER"]}
RED_PAIRS = [(t, o) for t, ops in RED_TYPES.items() for o in ops]
FILL_OF_OP = {("INT", "SUM"): "med", ("INT", "PROD"): "nz", ("INT", "MAX"): "bits", ("INT", "MIN"): "bits", ("INT", "BXOR"): "bits",
              ("DOUBLE", "SUM"): "half", ("DOUBLE", "PROD"): "nz", ("DOUBLE", "MAX"): "half", ("DOUBLE", "MIN"): "bits"}

KINDS = ["barrier", "bcast", "gather", "gatherv", "scatter", "scatterv", "allgather", "allgatherv", "alltoall", "alltoallv", "alltoallw",
         "reduce", "allreduce", "reduce_scatter", "reduce_scatter_block", "scan", "exscan"]
REDUCTIONS = {"reduce", "allreduce", "reduce_scatter", "reduce_scatter_block", "scan", "exscan"}
ROOTED = {"bcast", "gather", "gatherv", "scatter", "scatterv", "reduce"}
PBLOCK = {"gather", "gatherv", "scatter", "scatterv", "allgather", "allgatherv", "alltoall", "alltoallv", "alltoallw", "reduce_scatter",
          "reduce_scatter_block"}          # buffers hold p blocks: "large" is smaller
INPLACE_OK = {"gather", "gatherv", "scatter", "scatterv", "allgather", "allgatherv", "alltoall", "alltoallv", "alltoallw", "reduce",
              "allreduce", "reduce_scatter", "reduce_scatter_block", "scan", "exscan"}
# MPI functions whose blocking form goes through the algorithm selected by smpi/<collective>
KINDS_OF_COLL = {"allgather": ["allgather"], "allgatherv": ["allgatherv"], "allreduce": ["allreduce"], "alltoall": ["alltoall"],
                 "alltoallv": ["alltoallv"], "barrier": ["barrier"], "bcast": ["bcast"], "gather": ["gather"], "reduce": ["reduce"],
                 "reduce_scatter": ["reduce_scatter", "reduce_scatter_block"], "scatter": ["scatter"]}
COLL_OF_KIND = {k: c for c, ks in KINDS_OF_COLL.items() for k in ks}
# MPI functions with a single implementation (no selector): gatherv scatterv alltoallw scan exscan and every MPI_I* form
SINGLE = ["gatherv", "scatterv", "alltoallw", "scan", "exscan"]


# ---------------------------------------------------------------------------------------------
# the algorithm list of the tree
_ALGOS = None


def algorithms():
    """[(collective, algorithm)] parsed from the tree's own --help-coll text (through the driver: colls::get_smpi_coll_help())."""
    global _ALGOS
    if _ALGOS is None:
        r = mpi.run({"np": 1, "prog": [{"op": "coll_help"}]})
        rec = r.get(0, 0)
        if not r.ok or rec is None:
            raise core.Inconclusive("cannot read the list of collective algorithms: " + r.rr.err[-300:])
        res = []
        cur = None
        for line in rec["text"].splitlines():
            if line.startswith("Collective:"):
                cur = line.split('"')[1]
            elif line.startswith("  ") and cur and line.split():
                res.append((cur, line.split()[0]))
        if len(res) < 50:
            raise RuntimeError("cannot parse --help-coll: %r" % rec["text"][:300])
        _ALGOS = res
    return _ALGOS


# ---------------------------------------------------------------------------------------------
# generated contents (the same function as Buf::fill of mpi_ops_coll.cpp)
M32 = np.uint64(0xFFFFFFFF)
_NZ = np.array([1, 2, 3, -1, -2, -3, 1, -1], dtype=np.int64)


def _mix(seed, rank, k):
    h = (np.uint64(seed & 0xFFFFFFFF) * np.uint64(0x9E3779B1) + rank.astype(np.uint64) * np.uint64(0x85EBCA77)
         + k.astype(np.uint64) * np.uint64(0xC2B2AE3D) + np.uint64(0x27D4EB2F)) & M32
    h ^= h >> np.uint64(15)
    h = (h * np.uint64(0x2C1B3C6D)) & M32
    h ^= h >> np.uint64(12)
    h = (h * np.uint64(0x297A2D39)) & M32
    h ^= h >> np.uint64(15)
    return h


_GEN_CACHE = {}


def gen(base, mode, seed, p, nwords):
    """array [p, nwords]: word k of the buffer of communicator rank r (a function of (seed, r, k) only: computed once for NP ranks)"""
    key = (base, mode, seed)
    arr = _GEN_CACHE.get(key)
    if arr is None or arr.shape[1] < nwords:
        if len(_GEN_CACHE) > 400:
            _GEN_CACHE.clear()
        # buffers grow at most linearly with the communicator size: generate at once what the largest size will need
        arr = _gen(base, mode, seed, NP, max(64, nwords * -(-NP // p) + 8))
        _GEN_CACHE[key] = arr
    return arr[:p, :nwords].copy()


def _gen(base, mode, seed, p, nwords):
    rank = np.arange(p, dtype=np.int64)[:, None]
    k = np.arange(nwords, dtype=np.int64)[None, :]
    with np.errstate(over="ignore"):
        h = _mix(seed, rank + 0 * k, k + 0 * rank).astype(np.int64)
    kk = (k + 0 * rank)
    if mode == "bits":
        v2 = 2 * ((h ^ 0x80000000) - 0x80000000)
    elif mode == "small":
        v2 = 2 * (h % 7 - 3)
    elif mode == "nz":
        v2 = 2 * _NZ[h % 8]
    elif mode == "med":
        v2 = 2 * (h % (1 << 20) - (1 << 19))
    elif mode == "loc":
        v2 = np.where(kk % 2 == 0, 2 * (h % 5 - 2), 2 * (h % 64))
    elif mode == "pos":
        v2 = 2 * (h % (1 << 24))
    elif mode == "half":
        v2 = h % 15 - 7
    else:
        raise ValueError(mode)
    if base == "i4":
        return (v2 if mode == "half" else v2 // 2).astype(NPDT["i4"])
    return (v2.astype(np.float64) * 0.5).astype(NPDT["f8"])


def crc(arr, nwords=None):
    a = arr if nwords is None else arr[:nwords]
    return zlib.crc32(np.ascontiguousarray(a).tobytes()) & 0xFFFFFFFF


# ---------------------------------------------------------------------------------------------
# reductions on word arrays [p, n] -> prefix results [p, n] (row r = op over ranks 0..r)
def prefix_reduce(op, base, vals):
    p = vals.shape[0]
    out = np.empty_like(vals)
    if op in ("MAXLOC", "MINLOC"):
        v = vals[:, 0::2].astype(np.int64)
        i = vals[:, 1::2].astype(np.int64)
        bv, bi = v[0].copy(), i[0].copy()
        out[0] = vals[0]
        for r in range(1, p):
            better = (v[r] > bv) if op == "MAXLOC" else (v[r] < bv)
            tie = (v[r] == bv) & (i[r] < bi)
            take = better | tie
            bv = np.where(take, v[r], bv)
            bi = np.where(take, i[r], bi)
            out[r, 0::2] = bv
            out[r, 1::2] = bi
        return out
    if base == "f8":
        acc = vals[0].astype(np.float64)
        out[0] = acc
        for r in range(1, p):
            x = vals[r]
            acc = {"SUM": lambda: acc + x, "PROD": lambda: acc * x, "MAX": lambda: np.maximum(acc, x), "MIN": lambda: np.minimum(acc, x)}[op]()
            out[r] = acc
        return out
    if op == "USER":
        acc = vals[0].astype(np.int64) & 0xFFFFFFFF
        out[0] = vals[0]
        for r in range(1, p):
            x = vals[r].astype(np.int64) & 0xFFFFFFFF
            acc = (acc + x + ((acc * x) & 0xFFFFFFFF)) & 0xFFFFFFFF
            out[r] = ((acc ^ 0x80000000) - 0x80000000).astype(np.int32)
        return out
    acc = vals[0].astype(np.int64)
    out[0] = vals[0]
    for r in range(1, p):
        x = vals[r].astype(np.int64)
        acc = {"SUM": lambda: acc + x, "PROD": lambda: acc * x, "MAX": lambda: np.maximum(acc, x), "MIN": lambda: np.minimum(acc, x),
               "BXOR": lambda: acc ^ x}[op]()
        if acc.size and (acc.max() > 2 ** 31 - 1 or acc.min() < -2 ** 31):
            raise RuntimeError("generator bug: integer overflow in the reference of %s" % op)
        out[r] = acc.astype(np.int32)
    return out


# ---------------------------------------------------------------------------------------------
# small deterministic generator for the derived parameters of a call (counts/displacements of the v variants): a function of the
# call's seed and of p only, so that a case stays a short list of drawn numbers
class Det:
    def __init__(self, *key):
        self.s = 0x12345
        for x in key:
            self.s = (self.s * 1000003 + int(x) + 0x9E37) & 0xFFFFFFFF
        self.n = 0

    def next(self, m):
        self.n += 1
        x = (self.s + self.n * 0x9E3779B1) & 0xFFFFFFFF
        x ^= x >> 16
        x = (x * 0x85EBCA6B) & 0xFFFFFFFF
        x ^= x >> 13
        x = (x * 0xC2B2AE35) & 0xFFFFFFFF
        x ^= x >> 16
        return x % m

    def shuffle(self, lst):
        lst = list(lst)
        for i in range(len(lst) - 1, 0, -1):
            j = self.next(i + 1)
            lst[i], lst[j] = lst[j], lst[i]
        return lst


def count_of(cnt, p, kind, words_per_elem):
    """number of elements meant by the symbolic count `cnt` for communicator size p"""
    if isinstance(cnt, int):
        return max(0, cnt)
    if cnt == "p-1":
        return p - 1
    if cnt == "p":
        return p
    if cnt == "p+1":
        return p + 1
    if cnt in ("L", "H"):
        words = {("L", False): 4101, ("L", True): 301, ("H", False): 40003, ("H", True): 2501}[(cnt, kind in PBLOCK)]
        return -(-words // words_per_elem)
    raise ValueError("bad count %r" % (cnt,))


def types_of_call(call):
    """(send Type, recv Type, fs, fr): a block of c units is fs*c elements of the send type = fr*c elements of the recv type"""
    ty = call["ty"]
    if ">" in ty:
        a, b = ty.split(">")
        ta, tb = TYPES[a], TYPES[b]
        lcm = np.lcm(ta.n, tb.n)
        return ta, tb, int(lcm // ta.n), int(lcm // tb.n)
    return TYPES[ty], TYPES[ty], 1, 1


def vcounts(det, p, c, zeros=True):
    """p block sizes around c (some zero)"""
    choices = [c, c, c + 1, c // 2, 1, 0 if zeros else c, 2 * c]
    return [choices[det.next(len(choices))] for _ in range(p)]


def layout(det, sizes_words, gap=True):
    """non-overlapping word offsets for blocks of the given spans, in a shuffled order with small gaps -> (offsets, total words)"""
    order = det.shuffle(range(len(sizes_words)))
    offs = [0] * len(sizes_words)
    pos = 0
    for j in order:
        if gap:
            pos += det.next(3)
        offs[j] = pos
        pos += sizes_words[j]
    return offs, pos


class Plan:
    """What one call does on a communicator of size p: driver arguments, generated buffers, expected buffers."""

    def __init__(self, call, p):
        self.call, self.p = call, p
        self.common = {}          # arguments identical on every rank
        self.per = {}             # argument -> list by communicator rank
        self.S = None             # [p, sw] send buffers (words)
        self.R0 = None            # [p, rw] initial receive buffers
        self.E = None             # list by rank: expected receive buffer (array) or None (not specified by MPI)
        self.rcheck = None        # list by rank: number of leading words of the receive buffer that are specified (None = all)
        self.sig_mask = None      # list by rank: boolean array, True where MPI defines the content (type-map positions)
        self.base = None
        self.count = 0            # representative count (elements per block), for labels
        self.features = set()
        build_plan(self)


def _fill(base, mode, seed):
    return {"w": base, "m": mode, "s": int(seed) & 0x7FFFFFFF}


def build_plan(P):
    call, p = P.call, P.p
    k = call["k"]
    seed = call.get("seed", 0)
    det = Det(seed, p, KINDS.index(k))
    root = call.get("root", 0) % p
    ip = bool(call.get("ip")) and k in INPLACE_OK
    P.common.update(k=k, nb=call.get("nb", 0), root=root)
    if ip:
        P.common["inplace"] = True
    if k == "barrier":
        P.S = np.zeros((p, 0), dtype=np.int32)
        P.R0 = np.zeros((p, 0), dtype=np.int32)
        P.E = [P.R0[r] for r in range(p)]
        P.base = "i4"
        return
    if k in REDUCTIONS:
        _plan_reduction(P, k, p, seed, det, root, ip)
    else:
        _plan_move(P, k, p, seed, det, root, ip)


def _plan_move(P, k, p, seed, det, root, ip):
    call = P.call
    ts, tr, fs, fr = types_of_call(call)
    base = ts.base
    P.base = base
    c = count_of(call["cnt"], p, k, max(ts.n * fs, 1))       # units per block
    P.count = c
    mode = "bits" if base == "i4" else "pos"
    W = WORDSIZE[base]
    P.common.update(st=ts.name, rt=tr.name)

    s1, s2 = (seed * 2 + 1) & 0x7FFFFFFF, (seed * 2 + 2) & 0x7FFFFFFF

    def mk(sw, rw):
        P.S = gen(base, mode, s1, p, sw + TAIL)
        P.R0 = gen(base, mode, s2, p, rw + TAIL)
        P.common.update(sbytes=(sw + TAIL) * W, rbytes=(rw + TAIL) * W, sfill=_fill(base, mode, s1), rfill=_fill(base, mode, s2))
        P.E = [P.R0[r].copy() for r in range(p)]
        P.sig_mask = [np.zeros(rw + TAIL, dtype=bool) for _ in range(p)]

    def put(r, ridx, vals):
        P.E[r][ridx] = vals
        P.sig_mask[r][ridx] = True

    if k == "bcast":
        n = c * fr
        mk(0, tr.span(n))
        P.common.update(rc_=n)
        ridx = tr.idx(n)
        src = P.R0[root][ridx].copy()
        for r in range(p):
            put(r, ridx, src)
        return
    if k in ("gather", "allgather", "scatter", "alltoall"):
        ns, nr = c * fs, c * fr
        P.common.update(sc=ns, rc_=nr)
        if k in ("gather", "allgather"):
            mk(ts.span(ns), p * nr * tr.ext if nr else 0)
            for dst in range(p):
                if k == "gather" and dst != root:
                    continue
                for src in range(p):
                    ridx = tr.idx(nr, src * nr * tr.ext)
                    if ip and (k == "allgather" or src == root):
                        vals = P.R0[src][ridx] if k == "allgather" else P.R0[dst][ridx]
                    else:
                        vals = P.S[src][ts.idx(ns)]
                    put(dst, ridx, vals)
        elif k == "scatter":
            mk(p * ns * ts.ext if ns else 0, tr.span(nr))
            for dst in range(p):
                if ip and dst == root:
                    continue
                put(dst, tr.idx(nr), P.S[root][ts.idx(ns, dst * ns * ts.ext)])
        else:
            mk(p * ns * ts.ext if ns else 0, p * nr * tr.ext if nr else 0)
            for dst in range(p):
                for src in range(p):
                    ridx = tr.idx(nr, src * nr * tr.ext)
                    if ip:
                        vals = P.R0[src][tr.idx(nr, dst * nr * tr.ext)]
                    else:
                        vals = P.S[src][ts.idx(ns, dst * ns * ts.ext)]
                    put(dst, ridx, vals)
        return
    if k in ("gatherv", "allgatherv", "scatterv"):
        units = vcounts(det, p, c)
        ns = [u * fs for u in units]
        nr = [u * fr for u in units]
        if k in ("gatherv", "allgatherv"):
            rds, _ = layout(det, nr)                       # displacements are in extents of the receive type
            offs = [d * tr.ext for d in rds]
            total = max([o + n * tr.ext for o, n in zip(offs, nr)] + [0])
            mk(max(ts.span(n) for n in ns), total)
            P.common.update(rcs=nr, rds=rds)
            P.per["sc"] = ns
            for dst in range(p):
                if k == "gatherv" and dst != root:
                    continue
                for src in range(p):
                    ridx = tr.idx(nr[src], offs[src])
                    if ip and (k == "allgatherv" or src == root):
                        vals = P.R0[src][ridx] if k == "allgatherv" else P.R0[dst][ridx]
                    else:
                        vals = P.S[src][ts.idx(ns[src])]
                    put(dst, ridx, vals)
        else:
            sds, _ = layout(det, ns)
            offs = [d * ts.ext for d in sds]
            total = max([o + n * ts.ext for o, n in zip(offs, ns)] + [0])
            mk(total, max(tr.span(n) for n in nr))
            P.common.update(scs=ns, sds=sds)
            P.per["rc_"] = nr
            for dst in range(p):
                if ip and dst == root:
                    continue
                put(dst, tr.idx(nr[dst]), P.S[root][ts.idx(ns[dst], offs[dst])])
        return
    if k in ("alltoallv", "alltoallw"):
        # units[src][dst]; in place: symmetric
        units = [vcounts(det, p, c) for _ in range(p)]
        if ip:
            for a in range(p):
                for b in range(a):
                    units[a][b] = units[b][a]
        if k == "alltoallw":
            # one datatype per peer pair (same base): the sender side and the receiver side of a block may use different types
            names = [n for n, t in TYPES.items() if t.base == base and n != "2INT"]
            tsm = [[TYPES[names[det.next(len(names))]] for _ in range(p)] for _ in range(p)]     # tsm[src][dst]
            trm = [[TYPES[names[det.next(len(names))]] for _ in range(p)] for _ in range(p)]     # trm[dst][src]
            if ip:
                tsm = [[trm[s][d] for d in range(p)] for s in range(p)]
        else:
            tsm = [[ts] * p for _ in range(p)]
            trm = [[tr] * p for _ in range(p)]
        ns = [[0] * p for _ in range(p)]
        nr = [[0] * p for _ in range(p)]
        for s in range(p):
            for d in range(p):
                a, b = tsm[s][d], trm[d][s]
                lcm = int(np.lcm(a.n, b.n))
                ns[s][d] = units[s][d] * (lcm // a.n) if k == "alltoallw" else units[s][d] * fs
                nr[d][s] = units[s][d] * (lcm // b.n) if k == "alltoallw" else units[s][d] * fr
        soffs, roffs, stot, rtot = [], [], 0, 0
        sds, rds = [], []
        for r in range(p):
            if k == "alltoallw":
                o, t = layout(det, [tsm[r][d].span(ns[r][d]) for d in range(p)])
                sds.append([x * WORDSIZE[base] for x in o])
                o2, t2 = layout(det, [trm[r][s].span(nr[r][s]) for s in range(p)])
                rds.append([x * WORDSIZE[base] for x in o2])
            else:
                d_, _ = layout(det, ns[r])
                o = [x * ts.ext for x in d_]
                t = max([x + n * ts.ext for x, n in zip(o, ns[r])] + [0])
                sds.append(d_)
                d2, _ = layout(det, nr[r])
                o2 = [x * tr.ext for x in d2]
                t2 = max([x + n * tr.ext for x, n in zip(o2, nr[r])] + [0])
                rds.append(d2)
            soffs.append(o)
            roffs.append(o2)
            stot, rtot = max(stot, t), max(rtot, t2)
        if ip:
            soffs, sds, ns = roffs, rds, nr
        mk(stot, rtot)
        P.per.update(scs=ns, sds=sds, rcs=nr, rds=rds)
        if k == "alltoallw":
            P.per["sts"] = [[t.name for t in row] for row in tsm]
            P.per["rts"] = [[t.name for t in row] for row in trm]
            P.common.pop("st"), P.common.pop("rt")
        for dst in range(p):
            for src in range(p):
                ridx = trm[dst][src].idx(nr[dst][src], roffs[dst][src])
                if ip:
                    vals = P.R0[src][trm[src][dst].idx(nr[src][dst], roffs[src][dst])]
                else:
                    vals = P.S[src][tsm[src][dst].idx(ns[src][dst], soffs[src][dst])]
                put(dst, ridx, vals)
        return
    raise ValueError(k)


def _plan_reduction(P, k, p, seed, det, root, ip):
    call = P.call
    t = TYPES[call["ty"]]
    op = call["op"]
    base = t.base
    P.base = base
    W = WORDSIZE[base]
    mode = FILL_OF_OP.get((t.name, op)) or ("loc" if op in ("MAXLOC", "MINLOC") else "bits")
    c = count_of(call["cnt"], p, k, t.n)
    P.count = c
    P.common.update(st=t.name, mop=op)
    if k == "reduce_scatter":
        rcs = vcounts(det, p, c) if call.get("irregular", True) else [c] * p
        total = sum(rcs)
        P.common["rcs"] = rcs
    elif k == "reduce_scatter_block":
        rcs = [c] * p
        total = c * p
        P.common["rc_"] = c
    else:
        rcs = None
        total = c
        P.common["sc"] = total
    sw = t.span(total)
    inmode_r = mode if ip else "bits"
    rw = sw if (ip or rcs is None) else max(t.span(n) for n in rcs)
    s1, s2 = (seed * 2 + 1) & 0x7FFFFFFF, (seed * 2 + 2) & 0x7FFFFFFF
    P.S = gen(base, mode, s1, p, sw + TAIL)
    P.R0 = gen(base, inmode_r, s2, p, rw + TAIL)
    P.common.update(sbytes=(sw + TAIL) * W, rbytes=(rw + TAIL) * W, sfill=_fill(base, mode, s1), rfill=_fill(base, inmode_r, s2))
    idx = t.idx(total)
    if ip and k == "reduce":
        inp = np.stack([(P.R0[r] if r == root else P.S[r])[idx] for r in range(p)])
    elif ip:
        inp = np.stack([P.R0[r][idx] for r in range(p)])
    else:
        inp = np.stack([P.S[r][idx] for r in range(p)])
    pre = prefix_reduce(op, base, inp)
    P.E = [P.R0[r].copy() for r in range(p)]
    P.sig_mask = [np.zeros(rw + TAIL, dtype=bool) for _ in range(p)]
    P.rcheck = [None] * p
    for r in range(p):
        if k == "reduce":
            if r == root:
                P.E[r][idx] = pre[p - 1]
                P.sig_mask[r][idx] = True
        elif k == "allreduce":
            P.E[r][idx] = pre[p - 1]
            P.sig_mask[r][idx] = True
        elif k == "scan":
            P.E[r][idx] = pre[r]
            P.sig_mask[r][idx] = True
        elif k == "exscan":
            if r == 0:
                P.E[r] = None            # the receive buffer of rank 0 is undefined after MPI_Exscan
            else:
                P.E[r][idx] = pre[r - 1]
                P.sig_mask[r][idx] = True
        else:
            first = sum(rcs[:r])
            ridx = t.idx(rcs[r])
            P.E[r][ridx] = pre[p - 1][first * t.n:(first + rcs[r]) * t.n]
            P.sig_mask[r][ridx] = True
            if ip:
                P.rcheck[r] = t.span(rcs[r])       # in place: only the result part of the receive buffer is specified


# ---------------------------------------------------------------------------------------------
BLOCKED4 = [0, 4, 8, 12, 1, 5, 9, 13, 2, 6, 10, 14, 3, 7, 11, 15, 16]     # with nhosts=4: consecutive ranks of a communicator share a host


def members_of(case, p):
    """world ranks of the communicator of size p, in communicator-rank order: an explicit order ("members") or rot + i*step mod 17"""
    if case.get("members"):
        return list(case["members"][:p])
    rot, step = case.get("rot", 0) % NP, case.get("step", 1) % NP or 1
    return [(rot + i * step) % NP for i in range(p)]


def delays_of(call, p, root):
    """simulated delay before the call, by communicator rank"""
    dl = call.get("dl", 0)
    if dl == 0:
        return None
    if dl == 1:
        return [0.01 if r == root else 0.0 for r in range(p)]
    if dl == 2:
        return [0.0 if r == root else 0.01 for r in range(p)]
    det = Det(call.get("seed", 0), p, 77)
    if dl == 3:
        return [det.next(8) * 0.002 for _ in range(p)]
    return [0.05 if r == p - 1 else 0.0 for r in range(p)]


def per_world(members, values, null=None):
    lst = [null] * NP
    for cr, w in enumerate(members):
        lst[w] = values[cr]
    return {"@": lst}


def prologue():
    prog = [{"op": "coll_op_create", "out": "USER"}]
    for t in TYPES.values():
        for c in t.create:
            prog.append(dict(c, op="type_create"))
        if t.create and t.base == "i4":
            prog.append({"op": "coll_layout", "type": t.name, "ext": t.ext * 4, "offs": [int(o) * 4 for o in t.offs]})
    return prog
