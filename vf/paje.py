"""C47: a validator of Paje trace files (the format SimGrid's tracing writes; https://github.com/schnorr/pajeng/wiki).

    validate(text) -> (violations [(signature, message, container name or None)], stats {...})

What is checked (the statement of C47 and the Paje file format it relies on):
  * header: every event of the body is defined by a %EventDef block, with as many fields as the definition declares;
  * definitions before use: container types, variable / state / event / link types, entity values, containers (aliases);
  * timestamps never decrease along the file;
  * no event on a container after its PajeDestroyContainer, no second destruction, no creation under a destroyed parent;
  * PajePushState / PajePopState balanced per (container, state type): never a pop on an empty stack, nothing left pushed when the
    container is destroyed (or at the end of the file);
  * every link key of a link type is started exactly once and ended exactly once.
Signatures name the root cause class (the event kind is part of it).
"""
import shlex


class Trace:
    def __init__(self):
        self.defs = {}          # event id -> (name, [(field, type)])
        self.events = []        # (line number, name, {field: value})
        self.problems = []


def _split(line):
    try:
        return shlex.split(line, posix=True)
    except ValueError:
        return line.split()


def parse(text):
    tr = Trace()
    cur = None
    for ln, raw in enumerate(text.splitlines(), 1):
        line = raw.strip()
        if not line or line.startswith("#"):
            continue
        if line.startswith("%"):
            tok = line[1:].split()
            if not tok:
                continue
            if tok[0] == "EventDef":
                if len(tok) < 3:
                    tr.problems.append(("header-malformed", "line %d: %r" % (ln, raw)))
                    continue
                cur = (tok[2], tok[1], [])
            elif tok[0] == "EndEventDef":
                if cur is None:
                    tr.problems.append(("header-malformed", "line %d: EndEventDef without EventDef" % ln))
                else:
                    if cur[0] in tr.defs:
                        tr.problems.append(("header-event-id-defined-twice", "line %d: event id %s" % (ln, cur[0])))
                    tr.defs[cur[0]] = (cur[1], cur[2])
                cur = None
            elif cur is not None and len(tok) >= 2:
                cur[2].append((tok[0], tok[1]))
            else:
                tr.problems.append(("header-malformed", "line %d: %r" % (ln, raw)))
            continue
        if cur is not None:
            tr.problems.append(("header-malformed", "line %d: event inside an EventDef block" % ln))
        tok = _split(line)
        d = tr.defs.get(tok[0])
        if d is None:
            tr.problems.append(("event-not-defined-in-header", "line %d: event id %s is not defined: %r" % (ln, tok[0], raw)))
            continue
        name, fields = d
        if len(tok) - 1 != len(fields):
            tr.problems.append(("field-count-mismatch:" + name, "line %d: %s has %d fields, its definition %d: %r"
                                % (ln, name, len(tok) - 1, len(fields), raw)))
        names = [f for f, _ in fields]
        # the field names of the "basic" flavour of the format (--cfg=tracing/basic:yes)
        alt = {"ContainerType": "Type", "EntityType": "Type", "SourceContainerType": "StartContainerType", "DestContainerType": "EndContainerType",
               "SourceContainer": "StartContainer", "DestContainer": "EndContainer"}
        names = [alt[f] if f in alt and alt[f] not in names else f for f in names]
        tr.events.append((ln, name, dict(zip(names, tok[1:]))))
    return tr


class _Validator:
    def __init__(self, max_problems):
        self.max = max_problems
        self.bad = []
        self.ctypes = {"0": None}                 # container type alias -> parent type
        self.vtypes, self.stypes, self.etypes, self.ltypes = {}, {}, {}, {}      # alias -> container type (link: tuple)
        self.values = {}                          # entity value alias -> type alias
        self.cont = {"0": {"type": "0", "alive": True, "name": "0", "line": 0}}
        self.stacks = {}                          # (container, state type) -> [values]
        self.links = {}                           # (type, key) -> [n starts, n ends, first line]
        self.names = {}                           # container name -> number of containers created with it (an actor that changes host gets a new one)
        self.deferred = []                        # (sig, msg, container name): the signature depends on what happens later
        self.max_buf = self.max_create = self.max_destroy = None      # (time, line, kind): running maxima of buffered / directly written lines
        self.flushes_visible = True
        self.stats = {"events": 0, "containers": 0, "destroyed": 0, "push": 0, "pop": 0, "links": 0, "variables": 0, "kinds": set(),
                      "max_depth": 0, "created_after_start": 0, "new_events": 0, "remarks": {}}

    REMARKS = ("type-container-mismatch", "container-type-mismatch", "value-of-another-type", "container-destroyed-before-its-children",
               "container-alias-reused")

    def add(self, sig, msg, container=None):
        if sig.startswith(self.REMARKS):
            # consistency beyond what the statement of C47 demands: counted (stats["remarks"]), not a violation
            self.stats["remarks"][sig] = self.stats["remarks"].get(sig, 0) + 1
            return
        if len(self.bad) < self.max:
            self.bad.append((sig, msg, container))

    def alive(self, alias, ln, name, role="container"):
        c = self.cont.get(alias)
        if c is None:
            self.add("undefined-container:" + name, "line %d: %s uses %s %r, which was never created" % (ln, name, role, alias))
            return None
        if not c["alive"]:
            self.add("use-after-destroy:" + name, "line %d: %s uses %s %r (%s), destroyed at line %d" % (ln, name, role, alias, c["name"], c["dead_line"]))
            return None
        return c

    def check_time(self, ln, name, t):
        """Timestamps never decrease along the file.  A decrease is classified by what the writer of src/instr/instr_paje_trace.cpp can and
        cannot do (unchanged code): events wait in a buffer kept sorted by insertion; the buffer is written (a) entirely just before every
        container destruction (the PajeDestroyContainer line follows at once) and at the start / end of the simulation, (b) at every time
        advance up to the horizon H = date of the last container destruction; PajeCreateContainer / PajeDestroyContainer lines are written
        directly, at the current date.  Hence, among BUFFERED events, a line X may only follow a line Y with a larger stamp when Y was
        written by an earlier flush than X, i.e. stamp(Y) <= H(X) = the largest PajeDestroyContainer date written before X (0 if none):
          * stamp(Y) <= H(X): X was created after Y was written, with a stamp in the past: the retroactive resource-utilisation events
            (signature timestamps-decrease:retroactive-variable-event when X is a variable event);
          * stamp(Y) >  H(X): X and Y were in the buffer together and came out in the wrong order: timestamps-decrease:buffer-order
            (never with the unchanged code);
          * X only lies behind a directly written line: behind a PajeDestroyContainer -> retroactive again; behind a PajeCreateContainer ->
            timestamps-decrease:around-PajeCreateContainer.
        When the destructions are not written (tracing/disable-destroy) although containers go during the run (`flushes_visible` False), H is
        unknown: every decrease of a variable event gets the wider signature timestamps-decrease:retroactive-variable-event:flush-dates-unknown."""
        add = self.add
        var = name in ("PajeSetVariable", "PajeAddVariable", "PajeSubVariable")
        direct = name in ("PajeCreateContainer", "PajeDestroyContainer")
        mb, mc, md = self.max_buf, self.max_create, self.max_destroy
        if direct:
            worst = max([m for m in (mb, mc, md) if m is not None], default=None)
            if worst is not None and t < worst[0]:
                add("timestamps-decrease:%s-after-%s" % (name, worst[2]), "line %d: %s at %r follows line %d (%s) at %r" % ((ln, name, t) + (worst[1], worst[2], worst[0])))
            if name == "PajeCreateContainer":
                if mc is None or t >= mc[0]:
                    self.max_create = (t, ln, name)
            elif md is None or t >= md[0]:
                self.max_destroy = (t, ln, name)
            return
        horizon = md[0] if md is not None else 0.0
        if mb is not None and t < mb[0]:
            where = "line %d: %s at %r follows line %d (%s) at %r; last destruction written before: %r" % (ln, name, t, mb[1], mb[2], mb[0], horizon)
            if not self.flushes_visible and var:
                add("timestamps-decrease:retroactive-variable-event:flush-dates-unknown", where)
            elif mb[0] > horizon:
                add("timestamps-decrease:buffer-order", where + " (both events were in the buffer together)")
            elif var:
                add("timestamps-decrease:retroactive-variable-event", where)
            else:
                add("timestamps-decrease:%s-after-%s" % (name, mb[2]), where)
        elif md is not None and t < md[0]:
            where = "line %d: %s at %r follows line %d (%s) at %r" % (ln, name, t, md[1], md[2], md[0])
            add("timestamps-decrease:retroactive-variable-event" if var else "timestamps-decrease:%s-after-%s" % (name, md[2]), where)
        elif mc is not None and t < mc[0]:
            add("timestamps-decrease:around-PajeCreateContainer", "line %d: %s at %r follows line %d (%s) at %r" % (ln, name, t, mc[1], mc[2], mc[0]))
        if mb is None or t >= mb[0]:
            self.max_buf = (t, ln, name)          # the running maximum: one misplaced block is reported against the same line

    def any_type(self, alias):
        return alias in self.vtypes or alias in self.stypes or alias in self.etypes or alias in self.ltypes or alias in self.ctypes

    def one(self, ln, name, f):
        add, stats = self.add, self.stats
        stats["events"] += 1
        stats["kinds"].add(name)
        if "Time" in f:
            try:
                t = float(f["Time"])
            except ValueError:
                add("timestamp-malformed", "line %d: %r" % (ln, f["Time"]))
                return
            self.check_time(ln, name, t)
        if name == "PajeDefineContainerType":
            if f["Type"] not in self.ctypes:
                add("undefined-type:" + name, "line %d: parent type %r is not defined" % (ln, f["Type"]))
            if self.any_type(f["Alias"]):
                add("type-defined-twice", "line %d: container type alias %r" % (ln, f["Alias"]))
            self.ctypes[f["Alias"]] = f["Type"]
        elif name in ("PajeDefineVariableType", "PajeDefineStateType", "PajeDefineEventType"):
            if f["Type"] not in self.ctypes:
                add("undefined-type:" + name, "line %d: container type %r is not defined" % (ln, f["Type"]))
            table = self.vtypes if name == "PajeDefineVariableType" else self.stypes if name == "PajeDefineStateType" else self.etypes
            if self.any_type(f["Alias"]):
                add("type-defined-twice", "line %d: type alias %r" % (ln, f["Alias"]))
            table[f["Alias"]] = f["Type"]
        elif name == "PajeDefineLinkType":
            for k in ("Type", "StartContainerType", "EndContainerType"):
                if f[k] not in self.ctypes:
                    add("undefined-type:" + name, "line %d: %s %r is not defined" % (ln, k, f[k]))
            if self.any_type(f["Alias"]):
                add("type-defined-twice", "line %d: type alias %r" % (ln, f["Alias"]))
            self.ltypes[f["Alias"]] = (f["Type"], f["StartContainerType"], f["EndContainerType"])
        elif name == "PajeDefineEntityValue":
            if f["Type"] not in self.stypes and f["Type"] not in self.etypes and f["Type"] not in self.ltypes and f["Type"] not in self.vtypes:
                add("undefined-type:" + name, "line %d: type %r is not defined" % (ln, f["Type"]))
            if f["Alias"] in self.values:
                add("value-defined-twice", "line %d: value alias %r" % (ln, f["Alias"]))
            self.values[f["Alias"]] = f["Type"]
        elif name == "PajeCreateContainer":
            stats["containers"] += 1
            if f["Type"] not in self.ctypes:
                add("undefined-type:" + name, "line %d: container type %r is not defined" % (ln, f["Type"]))
            parent = self.alive(f["Container"], ln, name, "parent container")
            if parent is not None and f["Type"] in self.ctypes and self.ctypes[f["Type"]] != parent["type"]:
                add("container-type-mismatch", "line %d: container %r of type %r (child of type %r) created in a container of type %r"
                    % (ln, f["Name"], f["Type"], self.ctypes[f["Type"]], parent["type"]))
            old = self.cont.get(f["Alias"])
            if old is not None and old["alive"]:
                add("container-created-twice", "line %d: alias %r is the live container %r created at line %d" % (ln, f["Alias"], old["name"], old["line"]))
            elif old is not None:
                add("container-alias-reused", "line %d: alias %r was the container %r destroyed at line %d" % (ln, f["Alias"], old["name"], old["dead_line"]))
            self.cont[f["Alias"]] = {"type": f["Type"], "alive": True, "name": f["Name"], "line": ln, "parent": f["Container"]}
            self.names[f["Name"]] = self.names.get(f["Name"], 0) + 1
            if float(f["Time"]) > 0:
                stats["created_after_start"] += 1
        elif name == "PajeDestroyContainer":
            c = self.cont.get(f["Name"])
            if c is None:
                add("undefined-container:" + name, "line %d: container %r was never created" % (ln, f["Name"]))
                return
            if not c["alive"]:
                add("container-destroyed-twice", "line %d: container %r (%s) already destroyed at line %d" % (ln, f["Name"], c["name"], c["dead_line"]))
                return
            if c["type"] != f["Type"]:
                add("container-type-mismatch", "line %d: container %r destroyed with type %r, created with %r" % (ln, f["Name"], f["Type"], c["type"]))
            kids = [a for a, k in self.cont.items() if k.get("parent") == f["Name"] and k["alive"]]
            if kids:
                add("container-destroyed-before-its-children", "line %d: container %r (%s) still has the live children %r"
                    % (ln, f["Name"], c["name"], [self.cont[a]["name"] for a in kids]))
            for (ca, st), stack in self.stacks.items():
                if ca == f["Name"] and stack:
                    self.deferred.append(("state-left-pushed-at-destroy", "line %d: container %r (%s) is destroyed with %d state(s) %r still pushed on state type %r"
                                          % (ln, f["Name"], c["name"], len(stack), stack, st), c["name"], self.names.get(c["name"], 0)))
                    del stack[:]
            c["alive"] = False
            c["dead_line"] = ln
            stats["destroyed"] += 1
        elif name in ("PajeSetVariable", "PajeAddVariable", "PajeSubVariable"):
            stats["variables"] += 1
            if f["Type"] not in self.vtypes:
                add("undefined-type:" + name, "line %d: variable type %r is not defined" % (ln, f["Type"]))
            c = self.alive(f["Container"], ln, name)
            if c is not None and f["Type"] in self.vtypes and self.vtypes[f["Type"]] != c["type"]:
                add("type-container-mismatch:" + name, "line %d: variable type %r belongs to container type %r, container %r has type %r"
                    % (ln, f["Type"], self.vtypes[f["Type"]], c["name"], c["type"]))
            try:
                float(f["Value"])
            except ValueError:
                add("value-malformed:" + name, "line %d: %r" % (ln, f["Value"]))
        elif name in ("PajeSetState", "PajePushState", "PajePopState", "PajeResetState"):
            if f["Type"] not in self.stypes:
                add("undefined-type:" + name, "line %d: state type %r is not defined" % (ln, f["Type"]))
            c = self.alive(f["Container"], ln, name)
            if c is not None and f["Type"] in self.stypes and self.stypes[f["Type"]] != c["type"]:
                add("type-container-mismatch:" + name, "line %d: state type %r belongs to container type %r, container %r has type %r"
                    % (ln, f["Type"], self.stypes[f["Type"]], c["name"], c["type"]))
            if name in ("PajeSetState", "PajePushState"):
                if f["Value"] not in self.values:
                    add("undefined-value:" + name, "line %d: value %r is not defined" % (ln, f["Value"]))
                elif self.values[f["Value"]] != f["Type"]:
                    add("value-of-another-type:" + name, "line %d: value %r belongs to type %r, used with %r"
                        % (ln, f["Value"], self.values[f["Value"]], f["Type"]))
            stack = self.stacks.setdefault((f["Container"], f["Type"]), [])
            if name == "PajePushState":
                stats["push"] += 1
                stack.append(f["Value"])
                stats["max_depth"] = max(stats["max_depth"], len(stack))
            elif name == "PajePopState":
                stats["pop"] += 1
                if not stack:
                    moved = c is not None and self.names.get(c["name"], 0) >= 2
                    add(("host-change:" if moved else "") + "pop-on-empty-state-stack",
                        "line %d: PajePopState on container %r (%s), state type %r: nothing is pushed"
                        % (ln, f["Container"], c["name"] if c else "?", f["Type"]), c["name"] if c else None)
                else:
                    stack.pop()
            elif name == "PajeSetState":
                del stack[:]
                stack.append(f["Value"])
            else:
                del stack[:]
        elif name in ("PajeStartLink", "PajeEndLink"):
            if f["Type"] not in self.ltypes:
                add("undefined-type:" + name, "line %d: link type %r is not defined" % (ln, f["Type"]))
            self.alive(f["Container"], ln, name)
            end = self.alive(f["StartContainer"] if name == "PajeStartLink" else f["EndContainer"], ln, name, "endpoint")
            if end is not None and f["Type"] in self.ltypes:
                want = self.ltypes[f["Type"]][1 if name == "PajeStartLink" else 2]
                if want != end["type"]:
                    add("type-container-mismatch:" + name, "line %d: endpoint %r has type %r, the link type wants %r" % (ln, end["name"], end["type"], want))
            rec = self.links.setdefault((f["Type"], f["Key"]), [0, 0, ln])
            rec[0 if name == "PajeStartLink" else 1] += 1
            if rec[0] > 1 and name == "PajeStartLink":
                add("link-started-twice", "line %d: key %r of link type %r (first seen at line %d)" % (ln, f["Key"], f["Type"], rec[2]))
            if rec[1] > 1 and name == "PajeEndLink":
                add("link-ended-twice", "line %d: key %r of link type %r (first seen at line %d)" % (ln, f["Key"], f["Type"], rec[2]))
            stats["links"] += 1
        elif name == "PajeNewEvent":
            stats["new_events"] += 1
            if f["Type"] not in self.etypes:
                add("undefined-type:" + name, "line %d: event type %r is not defined" % (ln, f["Type"]))
            self.alive(f["Container"], ln, name)
            if f["Value"] not in self.values:
                add("undefined-value:" + name, "line %d: value %r is not defined" % (ln, f["Value"]))
        else:
            add("unknown-event-kind", "line %d: %s" % (ln, name))

    def finish(self):
        for (ty, key), rec in sorted(self.links.items()):
            if rec[0] == 0:
                self.add("link-never-started", "key %r of link type %r is ended (line %d) but never started" % (key, ty, rec[2]))
            if rec[1] == 0:
                self.add("link-never-ended", "key %r of link type %r is started (line %d) but never ended" % (key, ty, rec[2]))
        for (ca, st), stack in sorted(self.stacks.items()):
            if stack:
                nm = self.cont.get(ca, {}).get("name")
                later = any(k["name"] == nm and k["line"] > self.cont[ca]["line"] for k in self.cont.values()) if ca in self.cont else False
                self.add(("host-change:" if later else "") + "state-left-pushed-at-end",
                         "container %r (%s): %d state(s) %r still pushed on state type %r at the end of the trace" % (ca, nm, len(stack), stack, st), nm)
        for sig, msg, nm, count_then in self.deferred:
            self.add(("host-change:" if self.names.get(nm, 0) > count_then else "") + sig, msg, nm)


def validate(text, max_problems=30, flushes_visible=True):
    """flushes_visible=False: container destructions happen during the run but are not written (tracing/disable-destroy), see check_time"""
    tr = parse(text)
    v = _Validator(max_problems)
    v.flushes_visible = flushes_visible
    v.bad.extend((a, b, None) for a, b in tr.problems[:max_problems])
    for ln, name, f in tr.events:
        try:
            v.one(ln, name, f)
        except KeyError as e:
            v.add("header-field-missing:" + name, "line %d: the definition of %s has no field %s" % (ln, name, e))
    v.finish()
    v.stats["kinds"] = sorted(v.stats["kinds"])
    return v.bad, v.stats
