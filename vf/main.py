"""./check driver: build, replay tier, parallel Hypothesis search, confirmation, evidence."""
import argparse
import glob
import importlib
import json
import os
import shutil
import subprocess
import sys
import time
import traceback

from . import build, core, known

VERIF = "/verif"
# when a scratch tree is checked (VF_REPO/VF_BUILD, see build.py) evidence and new replay files go next to that build
# VF_OUT redirects them explicitly (seed sweeps that must not touch the committed evidence).
OUT = os.environ.get("VF_OUT") or (os.environ.get("VF_BUILD") and os.path.dirname(os.environ["VF_BUILD"].rstrip("/"))) or VERIF
ALL_IDS = ["C%02d" % i for i in range(1, 51)]


def load_prop(pid):
    mod = importlib.import_module("vf.props." + pid.lower())
    return mod.PROP


def available_ids():
    res = []
    for pid in ALL_IDS:
        if os.path.exists(os.path.join(VERIF, "vf", "props", pid.lower() + ".py")):
            res.append(pid)
    return res


def setup():
    t0 = time.time()
    build.ensure_sg(quiet=False)
    names = set()
    for pid in available_ids():
        try:
            names.update(load_prop(pid).drivers)
        except Exception:
            traceback.print_exc()
    build.ensure_drivers(sorted(names))
    print("setup done in %.0f s; drivers: %s" % (time.time() - t0, " ".join(sorted(names))))
    return 0


def safe_check(prop, case):
    try:
        return prop.check(case)
    except core.Inconclusive:
        raise
    except Exception as e:
        oc = core.Outcome()
        oc.bad("check-exception:" + type(e).__name__, "".join(traceback.format_exception(type(e), e, e.__traceback__))[-3000:])
        return oc


def write_replay(pid, case, violations, extra=None):
    d = os.path.join(OUT, "replays", pid)
    os.makedirs(d, exist_ok=True)
    path = os.path.join(d, core.case_hash(case)[:16] + ".json")
    if not os.path.exists(path):
        with open(path, "w") as f:
            json.dump({"property": pid, "case": case, "violations": violations, **(extra or {})}, f, indent=1, sort_keys=True)
    return path


def run_check(pid, tier, seed_, n_override=None, workers=None, replay=None, no_search=False):
    t0 = time.time()
    prop = load_prop(pid)
    try:
        build.ensure_sg()
        build.ensure_drivers(prop.drivers)
    except build.BuildFailed as e:
        print("INCONCLUSIVE build-failed property=%s\n%s" % (pid, str(e)[-3000:]))
        return 2
    tmp = core.tmpdir()
    os.environ["VF_TMP"] = tmp
    kn = known.Known(pid)
    viol_lines = []
    known_lines = {}
    notes = []

    def classify(case, oc, path):
        got = False
        for v in oc.violations:
            e = kn.match(v.sig)
            if e:
                known_lines[e["signature"]] = "KNOWN-FINDING: property=%s %s" % (pid, e["what"])
            else:
                got = True
        return got

    # ---- replay of a single file
    if replay:
        data = json.load(open(replay))
        case = data["case"] if isinstance(data, dict) and "case" in data else data
        try:
            oc = safe_check(prop, case)
        except core.Inconclusive:
            print("INCONCLUSIVE property=%s (the case could not be decided: load / wall-clock guard)" % pid)
            shutil.rmtree(tmp, ignore_errors=True)
            return 2
        for v in oc.violations:
            print("  violation sig=%s\n    %s" % (v.sig, v.msg.replace("\n", "\n    ")))
        for l in known_lines.values():
            print(l)
        if classify(case, oc, replay):
            print("VIOLATION property=%s replay=%s" % (pid, replay))
            shutil.rmtree(tmp, ignore_errors=True)
            return 1
        for l in known_lines.values():
            print(l)
        print("replay: no unlisted violation (labels=%s nontrivial=%s)" % (sorted(oc.labels), oc.nontrivial))
        shutil.rmtree(tmp, ignore_errors=True)
        return 0

    # ---- replay tier
    replayed = 0
    replay_files = sorted(glob.glob(os.path.join(VERIF, "replays", pid, "*.json")))
    for path in replay_files:
        try:
            data = json.load(open(path))
            case = data["case"]
            oc = safe_check(prop, case)
        except core.Inconclusive:
            notes.append("replay %s inconclusive" % path)
            continue
        replayed += 1
        if classify(case, oc, path):
            viol_lines.append((path, [v.to_json() for v in oc.violations if not kn.is_known(v.sig)]))
    for e in kn.known:
        if e["signature"] not in known_lines:
            notes.append("known finding '%s' did not reproduce from its stored input %s" % (e["signature"], e.get("input")))

    # ---- search tier
    n = n_override if n_override is not None else prop.sizes[tier]
    W = workers or min(prop.max_workers, int(os.environ.get("VF_WORKERS", "14")))
    W = max(1, min(W, max(1, n)))
    per = [n // W + (1 if i < n % W else 0) for i in range(W)]
    procs = []
    outs = []
    if not no_search:
        # The work is always cut into the same W shards (the cases are a function of the seed and the shard, not of the
        # machine), but only P of them run at a time, P shrinking when the box is busy with other work.
        try:
            busy = os.getloadavg()[0]
        except OSError:
            busy = 0.0
        P = int(os.environ.get("VF_PARALLEL", "0")) or max(3, min(W, int(17 - busy)))
        pending = list(range(W))
        running = []
        for w in range(W):
            outs.append(os.path.join(tmp, "w%d.json" % w))
        while pending or running:
            while pending and len(running) < P:
                w = pending.pop(0)
                env = dict(os.environ)
                env["VF_NWORKERS"] = str(W)
                lf = open(os.path.join(tmp, "w%d.log" % w), "w")
                running.append(subprocess.Popen([sys.executable, "-m", "vf.worker", pid, tier, str(seed_), str(w), str(per[w]), outs[w]],
                                                cwd=VERIF, env=env, stdout=lf, stderr=subprocess.STDOUT))
            time.sleep(0.2)
            running = [p for p in running if p.poll() is None]
    agg = dict(evaluations=0, executions=0, invalid=0, labels={}, samples=[], known_hits={}, inconclusive=0, distinct=0)
    nth = set()
    failing = {}
    errors = []
    for w, outp in enumerate(outs):
        if not os.path.exists(outp):
            log = open(os.path.join(tmp, "w%d.log" % w)).read()[-3000:]
            errors.append("worker %d died: %s" % (w, log))
            continue
        st = json.load(open(outp))
        for k in ("evaluations", "executions", "invalid", "inconclusive", "distinct"):
            agg[k] += st[k]
        for l, c in st["labels"].items():
            agg["labels"][l] = agg["labels"].get(l, 0) + c
        for s, c in st["known_hits"].items():
            agg["known_hits"][s] = agg["known_hits"].get(s, 0) + c
        nth.update(st["nontrivial_hashes"])
        agg["samples"].extend(st["samples"][:1] if w else st["samples"][:2])
        if st["failing"] is not None:
            failing[core.case_hash(st["failing"])] = (st["failing"], st["failing_violations"])
        if st["error"]:
            errors.append("worker %d: %s" % (w, st["error"]))
    for sig in agg["known_hits"]:
        e = kn.match(sig)
        if e:
            known_lines[e["signature"]] = "KNOWN-FINDING: property=%s %s" % (pid, e["what"])

    # ---- confirmation of new failures: 3 plain re-executions outside Hypothesis
    flaky = []
    # one report per root-cause signature: keep the smallest failing case of each
    bysig = {}
    for h, (case, viols) in failing.items():
        sig = viols[0]["sig"]
        if sig not in bysig or len(core.canon(case)) < len(core.canon(bysig[sig][0])):
            bysig[sig] = (case, viols)
    for sig, (case, viols) in sorted(bysig.items()):
        rep = 0
        last = viols
        for _ in range(3):
            try:
                oc = safe_check(prop, case)
            except core.Inconclusive:
                continue
            un = [v.to_json() for v in oc.violations if not kn.is_known(v.sig)]
            if un:
                rep += 1
                last = un
        if rep > 0 or prop.flaky_ok:
            path = write_replay(pid, case, last, {"reproduced": "%d/3" % rep, "seed": seed_, "tier": tier})
            viol_lines.append((path, last))
        else:
            flaky.append((case, viols))

    # ---- evidence
    planned = sum(per) if not no_search else 0
    cov = dict(evaluations=agg["evaluations"] + replayed, distinct_nontrivial=len(nth), rule=prop.rule,
               samples=agg["samples"][:5], executions_of_sut=agg["executions"], distinct_cases=agg["distinct"],
               label_histogram=dict(sorted(agg["labels"].items())), generated_invalid=agg["invalid"],
               replayed_files=replayed, planned_cases=planned, workers=W,
               known_finding_hits=agg["known_hits"], inconclusive_cases=agg["inconclusive"])
    try:
        cov.update(prop.extra_coverage())
    except Exception:
        pass
    if notes:
        cov["notes"] = notes
    if flaky:
        cov["flaky"] = [{"case": c, "violations": v} for c, v in flaky][:3]
    if errors:
        cov["worker_errors"] = [e[-1500:] for e in errors][:3]
    ev = dict(property_id=pid, tier=tier, seed=seed_, level=prop.level, coverage=cov,
              assumptions=list(prop.assumptions), wall_s=round(time.time() - t0, 2), violations=len(viol_lines))
    os.makedirs(os.path.join(OUT, "evidence"), exist_ok=True)
    evp = os.path.join(OUT, "evidence", pid + ".json")
    with open(evp + ".tmp", "w") as f:
        json.dump(ev, f, indent=1, sort_keys=True)
    os.replace(evp + ".tmp", evp)
    shutil.rmtree(tmp, ignore_errors=True)

    for l in known_lines.values():
        print(l)
    for n_ in notes:
        print("NOTE: " + n_)
    print("%s tier=%s seed=%d: %d cases (%d distinct non-trivial, %d invalid, %d inconclusive), %d SUT executions, %.1f s"
          % (pid, tier, seed_, cov["evaluations"], cov["distinct_nontrivial"], agg["invalid"], agg["inconclusive"],
             agg["executions"], time.time() - t0))
    if viol_lines:
        for path, viols in viol_lines:
            for v in viols[:3]:
                print("  %s: %s" % (v["sig"], v["msg"][:1500].replace("\n", "\n    ")))
            print("VIOLATION property=%s replay=%s" % (pid, path))
        return 1
    if errors:
        print("INCONCLUSIVE harness-error property=%s\n%s" % (pid, errors[0][-3000:]))
        return 2
    if flaky:
        print("INCONCLUSIVE flaky property=%s: a failure did not reproduce in 3 re-executions" % pid)
        return 2
    if not no_search and planned > 0 and agg["evaluations"] < 0.25 * planned:
        print("INCONCLUSIVE too-few-cases property=%s (%d of %d planned)" % (pid, agg["evaluations"], planned))
        return 2
    return 0


def main():
    ap = argparse.ArgumentParser()
    ap.add_argument("id", nargs="?")
    ap.add_argument("--setup", action="store_true")
    ap.add_argument("--tier", default=os.environ.get("VERIF_TIER", "quick"), choices=["quick", "thorough"])
    ap.add_argument("--seed", type=int, default=None)
    ap.add_argument("--n", type=int, default=None)
    ap.add_argument("--workers", type=int, default=None)
    ap.add_argument("--replay", default=None)
    ap.add_argument("--no-search", action="store_true")
    a = ap.parse_args()
    if a.setup:
        try:
            sys.exit(setup())
        except build.BuildFailed as e:
            print(str(e)[-6000:])
            sys.exit(2)
    if not a.id:
        ap.error("property id required")
    sd = a.seed if a.seed is not None else int(os.environ.get("VERIF_SEED", "0") or 0)
    sys.exit(run_check(a.id.upper(), a.tier, sd, a.n, a.workers, a.replay, a.no_search))


if __name__ == "__main__":
    main()
