"""Generators of well-formed synchronisation programs for the S4U interpreter (C04-C07, reused by C01/C02/C14)."""
from hypothesis import strategies as st

from . import s4u

QUARTERS = st.integers(0, 8).map(lambda k: k / 4)            # coinciding dates are frequent by construction
FINE = st.one_of(QUARTERS, QUARTERS, st.integers(0, 2048).map(lambda k: k / 1024))


@st.composite
def programs(draw, kinds=("mutex",), max_actors=5, max_ops=10, max_mutex=3, max_sem=3, max_cond=2, max_bar=2):
    """kinds: subset of mutex, sem, cond, barrier.  Returns a scenario (platform = one host with enough cores)."""
    nact = draw(st.integers(2, max_actors)) if "barrier" not in kinds else draw(st.integers(1, max_actors))
    objects = {}
    rec = []
    if "mutex" in kinds or "cond" in kinds:
        nm = draw(st.integers(1, max_mutex))
        rec = [draw(st.booleans()) and "mutex" in kinds for _ in range(nm)]
    conds = []
    if "cond" in kinds:
        nc = draw(st.integers(1, max_cond))
        plain = [i for i, r in enumerate(rec) if not r]
        if not plain:
            rec[0] = False
            plain = [0]
        conds = [draw(st.sampled_from(plain)) for _ in range(nc)]
        objects["cond"] = conds
    if rec:
        objects["mutex"] = [{"recursive": bool(r)} for r in rec]
    sems = []
    if "sem" in kinds:
        sems = [draw(st.integers(0, 4)) for _ in range(draw(st.integers(1, max_sem)))]
        objects["sem"] = sems
    bars = []
    if "barrier" in kinds:
        bars = [draw(st.integers(1, 6)) for _ in range(draw(st.integers(1, max_bar)))]
        objects["barrier"] = bars
    choices = ["sleep"]
    if "mutex" in kinds:
        choices += ["lock", "lock", "unlock", "unlock", "try", "try", "owner"]
    if "sem" in kinds:
        choices += ["acquire", "acquire_timeout", "acquire_timeout", "release", "release", "capacity", "would_block"]
    if "cond" in kinds:
        choices += ["cv_wait", "cv_wait_for", "cv_wait_for", "notify_one", "notify_all", "notify_locked"]
    if "barrier" in kinds:
        choices += ["barrier", "barrier", "barrier"]
    actors = []
    for ai in range(nact):
        ops = []
        held = {}
        ntry = 0
        n = draw(st.integers(1, max_ops))
        for _ in range(n):
            k = draw(st.sampled_from(choices))
            if k == "sleep":
                ops.append(["sleep", draw(FINE)])
            elif k == "lock":
                m = draw(st.integers(0, len(rec) - 1))
                if held.get(m, 0) > 0 and not rec[m]:
                    continue     # locking a plain mutex twice is undefined behaviour (outside the domain)
                ops.append(["lock", m])
                held[m] = held.get(m, 0) + 1
            elif k == "unlock":
                hs = [m for m, c in held.items() if c > 0]
                if not hs:
                    continue
                m = draw(st.sampled_from(sorted(hs)))
                ops.append(["unlock", m])
                held[m] -= 1
            elif k == "try":
                m = draw(st.integers(0, len(rec) - 1))
                ops.append(["try_lock", m])
                if draw(st.booleans()):
                    ops.append(["sleep", draw(QUARTERS)])
                if rec[m] and draw(st.booleans()):
                    # recursion through a mix of try_lock and lock: lock again, then give both back
                    ops.append(["lock", m])
                    ops.append(["owner", m])
                    ops.append(["unlock", m])
                    ops.append(["owner", m])
                ops.append(["unlock_if", m, ntry])
                ntry += 1
            elif k == "owner":
                ops.append(["owner", draw(st.integers(0, len(rec) - 1))])
            elif k == "acquire":
                ops.append(["acquire", draw(st.integers(0, len(sems) - 1))])
            elif k == "acquire_timeout":
                t = draw(st.one_of(QUARTERS, QUARTERS, QUARTERS, st.just(0.0), FINE))
                ops.append(["acquire_timeout", draw(st.integers(0, len(sems) - 1)), t])
            elif k == "release":
                ops.append(["release", draw(st.integers(0, len(sems) - 1))])
            elif k in ("capacity", "would_block"):
                ops.append([k, draw(st.integers(0, len(sems) - 1))])
            elif k in ("cv_wait", "cv_wait_for"):
                c = draw(st.integers(0, len(conds) - 1))
                m = conds[c]
                if held.get(m, 0) > 1:
                    continue
                own = held.get(m, 0) == 1
                if not own:
                    ops.append(["lock", m])
                if k == "cv_wait":
                    ops.append(["cv_wait", c])
                else:
                    ops.append(["cv_wait_for", c, draw(st.one_of(QUARTERS, QUARTERS, FINE))])
                ops.append(["owner", m])
                if not own:
                    ops.append(["unlock", m])
            elif k in ("notify_one", "notify_all"):
                ops.append([k, draw(st.integers(0, len(conds) - 1))])
            elif k == "notify_locked":
                c = draw(st.integers(0, len(conds) - 1))
                m = conds[c]
                if held.get(m, 0) > 0:
                    ops.append([draw(st.sampled_from(["notify_one", "notify_all"])), c])
                else:
                    ops += [["lock", m], [draw(st.sampled_from(["notify_one", "notify_all"])), c],
                            ["sleep", draw(QUARTERS)], ["unlock", m]]
            elif k == "barrier":
                ops.append(["barrier", draw(st.integers(0, len(bars) - 1))])
        # give back what is still held, most of the time
        if draw(st.integers(0, 4)) > 0:
            for m in sorted(held):
                for _ in range(held[m]):
                    ops.append(["unlock", m])
        actors.append({"name": "a%d" % ai, "host": "h0", "ops": ops})
    return {"platform": s4u.sync_platform(1, cores=8), "objects": objects, "actors": actors, "quiet": ["adv", "act"]}
