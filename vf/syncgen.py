"""Generators of well-formed synchronisation programs for the S4U interpreter (C04-C07, reused by C01/C02/C14)."""
from hypothesis import strategies as st

from . import s4u

QUARTERS = st.integers(0, 8).map(lambda k: k / 4)            # coinciding dates are frequent by construction
FINE = st.one_of(QUARTERS, QUARTERS, st.integers(0, 2048).map(lambda k: k / 1024))


@st.composite
def programs(draw, kinds=("mutex",), max_actors=5, max_ops=10, max_mutex=3, max_sem=3, max_cond=2, max_bar=2, mc=False,
             min_actors=2, profile="uniform", platform=None):
    """kinds: subset of mutex, sem, cond, barrier, mailbox, random.  Returns a scenario (platform = one host with enough cores).
    mc=True: only operations of the reference interleaving semantics (vf/refsem.py): no observation of kernel state, no timed
    semaphore acquisition, positive condition-variable timeouts only."""
    nact = draw(st.integers(min_actors, max_actors)) if ("barrier" not in kinds or profile == "contention") else draw(st.integers(1, max_actors))
    objects = {}
    rec = []
    if "mutex" in kinds or "cond" in kinds:
        nm = draw(st.integers(1, max_mutex))
        rec = [draw(st.booleans()) and "mutex" in kinds for _ in range(nm)]
    conds = []
    if "cond" in kinds:
        nc = draw(st.integers(1, max_cond))
        plain = [i for i, r in enumerate(rec) if not r]
        if not plain:
            rec[0] = False
            plain = [0]
        conds = [draw(st.sampled_from(plain)) for _ in range(nc)]
        objects["cond"] = conds
    if rec:
        objects["mutex"] = [{"recursive": bool(r)} for r in rec]
    sems = []
    if "sem" in kinds:
        sems = [draw(st.integers(0, 4)) for _ in range(draw(st.integers(1, max_sem)))]
        objects["sem"] = sems
    bars = []
    if "barrier" in kinds:
        bars = [draw(st.integers(1, 6)) for _ in range(draw(st.integers(1, max_bar)))]
        objects["barrier"] = bars
    nmb = 0
    if "mailbox" in kinds:
        nmb = draw(st.integers(1, 2))
        objects["mailbox"] = nmb
    choices = ["sleep"]
    if "mutex" in kinds:
        choices += ["lock", "lock", "unlock", "unlock", "try", "try"] + ([] if mc else ["owner"])
    if "sem" in kinds:
        choices += ["acquire", "release", "release"] + ([] if mc else ["acquire_timeout", "acquire_timeout", "capacity", "would_block"])
    if "mailbox" in kinds:
        choices += ["put", "get", "put", "get"]
    if "random" in kinds:
        choices += ["mc_random"]
    if "exec" in kinds:
        choices += ["exec", "exec"]
    if "async" in kinds and nmb:
        choices += ["put_async", "get_async", "wait_h", "test_h"]
    nmq = 0
    if "mess" in kinds:
        nmq = 1
        objects["mqueue"] = 1
        choices += ["mq_put", "mq_get"]
    nh = [0]          # handles are global to the scenario: each one is created by exactly one operation
    if "cond" in kinds:
        choices += ["cv_wait", "cv_wait_for", "cv_wait_for", "notify_one", "notify_all", "notify_locked"]
    if "barrier" in kinds:
        choices += ["barrier", "barrier", "barrier"]
    if profile == "contention":
        # few objects, many operations whose RESULT depends on the interleaving (try_lock, timed condvar waits, who receives what)
        choices = [c for c in choices if c not in ("sleep", "barrier", "mc_random")]
        choices = choices + [c for c in choices if c in ("try", "put", "get", "cv_wait_for", "notify_one")] * 2 + ["sleep"]
        if "barrier" in kinds:
            choices += ["barrier"]
        if "random" in kinds:
            choices += ["mc_random"] * max(1, sum(1 for k in kinds if k == "random") ** 3)     # ("random" repeated in kinds = weight)
    actors = []
    role = {}
    for ai in range(nact):
        ops = []
        held = {}
        myh = []
        ntry = 0
        n = draw(st.integers(1, max_ops))
        for _ in range(n):
            k = draw(st.sampled_from(choices))
            if k == "sleep":
                ops.append(["sleep", draw(FINE)])
            elif k == "lock":
                m = draw(st.integers(0, len(rec) - 1))
                if held.get(m, 0) > 0 and not rec[m]:
                    continue     # locking a plain mutex twice is undefined behaviour (outside the domain)
                ops.append(["lock", m])
                held[m] = held.get(m, 0) + 1
                if "tick" in kinds and draw(st.booleans()):
                    ops.append(["tick", m])     # inside the critical section of mutex m: the order of the sections becomes observable
            elif k == "unlock":
                hs = [m for m, c in held.items() if c > 0]
                if not hs:
                    continue
                m = draw(st.sampled_from(sorted(hs)))
                ops.append(["unlock", m])
                held[m] -= 1
            elif k == "try":
                m = draw(st.integers(0, len(rec) - 1))
                ops.append(["try_lock", m])
                if draw(st.booleans()):
                    ops.append(["sleep", draw(QUARTERS)])
                if rec[m] and draw(st.booleans()):
                    # recursion through a mix of try_lock and lock: lock again, then give both back
                    ops.append(["lock", m])
                    if not mc:
                        ops.append(["owner", m])
                    ops.append(["unlock", m])
                    if not mc:
                        ops.append(["owner", m])
                if "assert" in kinds and draw(st.integers(0, 2)) == 0:
                    # the observation asserted is the try_lock just issued (its index in this actor's program)
                    ti = max(i for i, o in enumerate(ops) if o[0] == "try_lock")
                    ops.append(["mc_assert", ti, draw(st.booleans())])
                ops.append(["unlock_if", m, ntry])
                ntry += 1
            elif k == "owner":
                ops.append(["owner", draw(st.integers(0, len(rec) - 1))])
            elif k == "acquire":
                si = draw(st.integers(0, len(sems) - 1))
                ops.append(["acquire", si])
                if "tick" in kinds and not mc and draw(st.booleans()):
                    ops.append(["tick", 100 + si])     # order of the grants (not usable under the model checker: unprotected memory)
            elif k == "acquire_timeout":
                t = draw(st.one_of(QUARTERS, QUARTERS, QUARTERS, st.just(0.0), FINE))
                ops.append(["acquire_timeout", draw(st.integers(0, len(sems) - 1)), t])
            elif k == "release":
                ops.append(["release", draw(st.integers(0, len(sems) - 1))])
            elif k in ("capacity", "would_block"):
                ops.append([k, draw(st.integers(0, len(sems) - 1))])
            elif k in ("cv_wait", "cv_wait_for"):
                c = draw(st.integers(0, len(conds) - 1))
                m = conds[c]
                explicit = False
                if "cond-any-mutex" in kinds and draw(st.booleans()):
                    # S4U lets every waiter of a condition variable bring its own mutex
                    plain_m = [i for i, r in enumerate(rec) if not r]
                    m = draw(st.sampled_from(plain_m))
                    explicit = True
                if held.get(m, 0) > 1:
                    continue
                own = held.get(m, 0) == 1
                if not own:
                    ops.append(["lock", m])
                if k == "cv_wait":
                    ops.append(["cv_wait", c] + ([m] if explicit else []))
                elif mc:
                    ops.append(["cv_wait_for", c, draw(st.integers(1, 8).map(lambda k: k / 4))] + ([m] if explicit else []))
                else:
                    ops.append(["cv_wait_for", c, draw(st.one_of(QUARTERS, QUARTERS, FINE))] + ([m] if explicit else []))
                if not mc:
                    ops.append(["owner", m])
                if not own:
                    ops.append(["unlock", m])
            elif k in ("notify_one", "notify_all"):
                ops.append([k, draw(st.integers(0, len(conds) - 1))])
            elif k == "notify_locked":
                c = draw(st.integers(0, len(conds) - 1))
                m = conds[c]
                if held.get(m, 0) > 0:
                    ops.append([draw(st.sampled_from(["notify_one", "notify_all"])), c])
                else:
                    ops += [["lock", m], [draw(st.sampled_from(["notify_one", "notify_all"])), c],
                            ["sleep", draw(QUARTERS)], ["unlock", m]]
            elif k == "barrier":
                ops.append(["barrier", draw(st.integers(0, len(bars) - 1))])
            elif k in ("put", "get"):
                mb = draw(st.integers(0, nmb - 1))
                if profile == "contention" and role.setdefault((ai, mb), k) != k:
                    continue     # an actor is either a sender or a receiver of a mailbox (a blocking put to oneself never ends)
                size = 0 if mc else draw(st.sampled_from([0, 1, 512, 4096, 100000]))
                ops.append(["put", mb, size, {}] if k == "put" else ["get", mb, {}])
            elif k == "mc_random":
                hi = draw(st.integers(1, 2))
                ops.append(["mc_random", 0, hi])
                if "assert" in kinds and draw(st.integers(0, 1)) == 0:
                    # an assertion on the value just drawn: fails for every value but one (failures that depend on WHICH choice of a
                    # multi-valued transition was taken, also on its default choice 0 after a non-default one earlier in the path)
                    ops.append(["mc_assert", len(ops) - 1, draw(st.integers(0, hi))])
            elif k == "exec":
                ops.append(["exec", draw(st.sampled_from([0.0, 256.0, 512.0, 1024.0, 1536.0, 3000.0])), {}])
            elif k in ("put_async", "get_async"):
                h = ai * 100 + len(myh)
                mb = draw(st.integers(0, nmb - 1))
                if k == "put_async":
                    ops.append(["put_async", mb, draw(st.sampled_from([0, 1, 512, 4096, 100000])), {}, h])
                else:
                    ops.append(["get_async", mb, h, {}])
                myh.append(h)
            elif k in ("wait_h", "test_h"):
                if not myh:
                    continue
                h = draw(st.sampled_from(myh))
                ops.append(["wait", h, {}] if k == "wait_h" else ["test", h])
            elif k == "mq_put":
                ops.append(["mq_put", 0, {}])
            elif k == "mq_get":
                ops.append(["mq_get", 0, {}])
        # give back what is still held, most of the time
        if draw(st.integers(0, 4)) < 4:     # (0 = the value Hypothesis prefers = give everything back)
            for m in sorted(held):
                for _ in range(held[m]):
                    ops.append(["unlock", m])
        actors.append({"name": "a%d" % ai, "host": "h0", "ops": ops})
    if profile == "contention":
        # make complete executions likely: balance puts and gets, size each barrier to its callers, avoid unserved waits
        for mb in range(nmb):
            np_ = sum(1 for a in actors for o in a["ops"] if o[0] == "put" and o[1] == mb)
            ng = sum(1 for a in actors for o in a["ops"] if o[0] == "get" and o[1] == mb)
            need = "get" if np_ > ng else "put"
            for _ in range(abs(np_ - ng)):
                cands = [i for i in range(nact) if role.get((i, mb), need) == need]
                if not cands:
                    break
                ti = cands[draw(st.integers(0, len(cands) - 1))]
                role[(ti, mb)] = need
                actors[ti]["ops"].append(["get", mb, {}] if need == "get" else ["put", mb, 0, {}])
        for b in range(len(bars)):
            # every caller of the barrier waits `rounds` times on it and the barrier has the size of its callers: all groups complete,
            # and with rounds > 1 the barrier is REUSED (an actor released from one round may arrive for the next one before the
            # others left: the interleavings where per-group state must not leak)
            rounds = draw(st.sampled_from([1, 1, 2, 2, 3]))
            seen = 0
            for a in actors:
                mine = 0
                keep = []
                for o in a["ops"]:
                    if o[0] == "barrier" and o[1] == b:
                        if mine >= rounds:
                            continue
                        mine += 1
                    keep.append(o)
                if mine:
                    seen += 1
                    keep += [["barrier", b]] * (rounds - mine)
                a["ops"] = keep
            objects["barrier"][b] = max(1, seen)
        for a in actors:
            for o in a["ops"]:
                if o[0] == "cv_wait" and draw(st.integers(0, 3)) > 0:
                    o[0] = "cv_wait_for"
                    o.append(1.0)
        if sems:
            for si in range(len(sems)):
                na = sum(1 for a in actors for o in a["ops"] if o[0] == "acquire" and o[1] == si)
                nr = sum(1 for a in actors for o in a["ops"] if o[0] == "release" and o[1] == si)
                if objects["sem"][si] + nr < na:
                    objects["sem"][si] = na - nr
    if platform is not None:
        hosts = [h["name"] for h in platform["hosts"]]
        for i, a in enumerate(actors):
            a["host"] = hosts[i % len(hosts)]
        return {"platform": platform, "objects": objects, "actors": actors}
    return {"platform": s4u.sync_platform(1, cores=8), "objects": objects, "actors": actors, "quiet": ["adv", "act"]}
