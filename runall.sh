#!/bin/bash
# runs the quick tier of every claimed check (MANIFEST.json) once, sequentially; prints one line per check
cd /verif
for id in $(jq -r '.checks[].property_id' MANIFEST.json); do
  [ -n "$1" ] && [[ ! " $* " =~ " $id " ]] && continue
  s=$(date +%s)
  ./check $id --tier quick --seed ${VERIF_SEED:-0} > /tmp/runall.$id.log 2>&1; rc=$?
  e=$(date +%s)
  echo "$id rc=$rc $((e-s))s $(grep -c '^KNOWN-FINDING' /tmp/runall.$id.log) known; $(grep -v '^KNOWN\|^NOTE' /tmp/runall.$id.log | tail -1 | cut -c1-160)"
done
