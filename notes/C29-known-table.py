# C29: the curated table of known findings (targets, failure domains, texts) from which known/C29.json was generated.
# Reference only: the builder (C29-known-build.py) looked for a minimal reproducing case per entry in sweep data under /tmp (not kept) or
# in the explicit examples given here, verified each one with PROP.check and dropped the entries that did not reproduce.
# builds /verif/known/C29.json and one minimal replay per entry from the curated table below and the sweep data (sw2/sw3 jsonl)
import json, glob, sys, os, collections
sys.path.insert(0, "/verif")
from vf.props import c29
from vf import coll, core

ALLTOALLV = ["alltoallv:" + a for c, a in coll.algorithms() if c == "alltoallv" and a != "automatic"]
DATA = ["wrong-result", "written-outside-typemap", "unused-recvbuf-written", "send-buffer-modified"]
CRASH = ["crash-memory", "crash-sigfpe", "abort", "deadlock", "guard-overrun", "crash-memory-at-finalize", "abort-at-finalize"]
GAPPY = ["VEC", "VECD", "RSZ"]
E = []


def add(targets, slug, kinds, when, what, examples=None):
    for t in ([targets] if isinstance(targets, str) else targets):
        E.append({"target": t, "slug": slug, "kinds": kinds, "when": when, "what": what, "examples": (examples or {}).get(t, [])})


def ex(run, p, layout=None, **call):
    call.setdefault("nb", 0)
    call.setdefault("seed", 1)
    return {"run": run, "p": p, "call": call, "layout": layout or {}}


SMP = {"nhosts": 4, "members": coll.BLOCKED4}


# ---- functions without selector (every algorithm run sees them)
add("ibarrier:nbc", "no-synchronization", ["no-synchronization"], {"p_ge": 2},
    "MPI_Ibarrier does not synchronize: colls::ibarrier() starts at once, on rank 0, one receive from and one (eager, zero-byte) send to every "
    "other rank; the sends do not depend on the receives, so a rank > 0 completes its Wait/Test as soon as rank 0 has ENTERED the barrier, "
    "whatever the other ranks do (4 ranks entering at 0, 0.5, 0.1, 0 s: rank 3 leaves at 0.0007 s, rank 2 at 0.1007 s)",
    {"ibarrier:nbc": [ex("nbc:single", 3, k="barrier", nb=1, dl=4), ex("nbc:single", 4, k="barrier", nb=2, dl=4)]})
add("iexscan:nbc", "first-contribution-applied-to-zero", ["wrong-result"], {"p_ge": 2, "op_not": ["SUM", "BXOR"], "derived": False},
    "MPI_Iexscan with an operator other than SUM/BXOR: colls::iexscan() zeroes the receive buffer (memset) and applies the operator to it with "
    "every received contribution, instead of copying the first one: PROD gives 0, MAX of negative values gives 0, MAXLOC/MINLOC give (0, 0)...")
add(["iallreduce:nbc", "ireduce:nbc", "iscan:nbc", "iexscan:nbc", "ireduce_scatter:nbc", "ireduce_scatter_block:nbc"], "derived-datatype-heap-overflow",
    CRASH + DATA, {"derived": True},
    "non-blocking reductions with a derived datatype (user-defined operator): the parent request of the NBC is built over the receive buffer "
    "with the derived datatype, so Request::init_buffer() gives it a PACKED temporary of count*size bytes; Request::finish_nbc_requests() "
    "then applies the operator to that packed buffer with the derived datatype (extent > size): heap overflow ('free(): invalid next size', "
    "SIGSEGV), result never copied to the user buffer",
    {"ireduce:nbc": [ex("nbc:single", 3, k="reduce", nb=1, cnt=3, ty="VEC", op="USER", root=1)],
     "ireduce_scatter:nbc": [ex("nbc:single", 3, k="reduce_scatter", nb=1, cnt=3, ty="VEC", op="USER")],
     "ireduce_scatter_block:nbc": [ex("nbc:single", 4, k="reduce_scatter_block", nb=1, cnt=3, ty="RSZ", op="USER")]})
add(ALLTOALLV + ["ialltoallv:nbc"], "in-place-derived-datatype", ["wrong-result", "crash-memory"], {"inplace": True, "ty": GAPPY},
    "MPI_Alltoallv / MPI_Ialltoallv with MPI_IN_PLACE and a datatype whose extent is larger than its size: PMPI_Ialltoallv sizes the temporary "
    "copy of the receive buffer with the datatype SIZE ((recvdispls[i]+recvcounts[i]) * size, copied as MPI_CHAR) while the algorithms address it "
    "with the EXTENT: the blocks sent come from beyond the copy (wrong data, sometimes a crash); same for every alltoallv algorithm",
    {"ialltoallv:nbc": [ex("nbc:single", 3, k="alltoallv", nb=1, cnt=3, ty="VEC", ip=True)]})

add(["alltoallw:single", "ialltoallw:nbc"], "in-place-datatypes-with-holes", ["wrong-result", "crash-memory"], {"inplace": True},
    "MPI_Alltoallw / MPI_Ialltoallw with MPI_IN_PLACE: PMPI_Ialltoallw sizes the temporary copy of the receive buffer with recvdispls[i] + "
    "recvcounts[i] * SIZE of the datatype; with datatypes whose extent is larger than their size the copy is too short and the blocks sent "
    "come from beyond it",
    {"alltoallw:single": [ex("nbc:single", 3, k="alltoallw", nb=0, cnt=3, ty="VEC", ip=True)]})

# ---- allgatherv
add(["allgatherv:GB", "allgatherv:ompi", "allgatherv:impi"], "gather-bcast-overwrites-gaps",
    ["written-outside-typemap", "unused-recvbuf-written"], {"p_ge": 2},
    "allgatherv GB (gather to rank 0 + broadcast; also chosen by the ompi/impi selectors for small messages) broadcasts the whole range "
    "[0, max(displ+count)) of rank 0's receive buffer: everything between and inside the blocks that is not part of the result (gaps left by the "
    "displacements, holes of the datatype) is overwritten on the other ranks with the content of rank 0's buffer")

# ---- count = 0: division by zero
for t in ["allreduce:ompi_ring_segmented", "allreduce:ompi", "allreduce:impi", "allreduce:smp_binomial_pipeline", "bcast:ompi_pipeline", "bcast:ompi",
          "reduce:ompi", "reduce:ompi_chain", "reduce:ompi_pipeline", "reduce:ompi_binary", "reduce:ompi_binomial", "reduce:ompi_in_order_binary",
          "reduce:impi", "reduce:mvapich2", "bcast:impi", "bcast:mvapich2"]:
    add(t, "count-0-division-by-zero", ["crash-sigfpe"], {"count0": True},
        "count = 0 kills the simulation with SIGFPE (integer division by zero in the segment / block size computation of the algorithm); "
        "MPI allows zero counts")

# ---- Rabenseifner reduce / allreduce
add(["allreduce:rab", "reduce:rab"], "user-operator-computed-as-max", ["wrong-result"], {"op": "USER"},
    "reduce-rab.cpp maps the MPI operator to its own enum and leaves the default (MPIM_MAX) for any operator it does not know: a "
    "user-defined operator is silently replaced by MPI_MAX (unknown datatypes, in contrast, are refused by an exception)")
add(["allreduce:rab", "reduce:rab"], "count-0-crash", ["crash-memory"], {"count0": True},
    "count = 0: SIGSEGV in MPI_I_anyReduce (reduce-rab.cpp)")
add(["allreduce:rab", "reduce:rab"], "single-rank-crash", ["crash-memory"], {"p": 1, "count0": False},
    "communicator of one rank: SIGSEGV in MPI_I_anyReduce (reduce-rab.cpp)")
add(["allreduce:rab1", "allreduce:rab2", "allreduce:rab_rdb"], "holes-of-the-datatype-overwritten", ["written-outside-typemap"], {"ty": GAPPY},
    "derived datatype with holes (vector, resized): the result is copied back to the receive buffer with memcpy over count*extent bytes: the "
    "holes of the receive buffer are overwritten with the content of a temporary")
add("allreduce:rab1", "single-rank-memory-corruption", CRASH + ["only-in-sequence:*", "wrong-result"], {"p": 1},
    "communicator of one rank: allreduce rab1 damages the heap (glibc aborts / SIGSEGV in this call or in a later one, guard zone of the "
    "buffers overwritten with a large count)")

# ---- SMP reduce-scatter/allgather allreduce variants
add("allreduce:smp_rsag", "count-not-multiple-of-p", ["wrong-result"], {"count_mod_p": True},
    "allreduce smp_rsag: the reduce-scatter / allgather phases work on count/p elements per rank and drop the remainder: wrong result "
    "whenever count is not a multiple of the number of ranks (count < p included)")
add("allreduce:smp_rsag_lr", "count-less-than-p", ["wrong-result"], {"count_lt_p": True, "count0": False, "p_ge": 3},
    "allreduce smp_rsag_lr: count < number of ranks: the last rank gets a negative remainder segment; wrong result")
add("allreduce:smp_rsag_rab", "wrong-result", ["wrong-result"], {"count0": False, "p_ge": 2},
    "allreduce smp_rsag_rab (accepts power-of-two sizes only): wrong result when count is not a multiple of p, and also for several other "
    "calls (MPI_IN_PLACE, user-defined operator)")
add("allreduce:smp_binomial_pipeline", "large-message-last-segment", ["wrong-result"], {"count_ge": 513, "p_ge": 2},
    "allreduce smp_binomial_pipeline: the message is cut in 4096-byte segments and the remainder (count not a multiple of the segment) is "
    "never reduced: the last count %% segment elements are wrong (4101 ints: the last 5)")

# ---- alltoall
add("alltoall:pair_rma", "put-displacement-ignores-count", ["wrong-result"], {"pof2": True, "count_ge": 2, "p_ge": 2},
    "alltoall pair_rma: the window is created with disp_unit = extent of ONE element (recv_chunk before it is multiplied by the count) and "
    "every MPI_Put targets displacement `rank`: the block of rank r lands at r*extent instead of r*count*extent: the blocks overlap and the "
    "result is wrong as soon as count > 1")
add("alltoall:pair_rma", "non-power-of-two-crash", ["crash-memory", "abort"], {"pof2": False},
    "alltoall pair_rma with a number of ranks that is not a power of two: dst = rank ^ i is not checked against the communicator size "
    "(the other pair algorithms refuse such sizes): MPI_Put to a rank that does not exist, SIGSEGV")

# ---- barrier
add("barrier:ompi_two_procs", "not-two-ranks", ["abort", "deadlock"], {"p_not": 2},
    "barrier ompi_two_procs exchanges one message with rank (rank+1)&1 without checking that the communicator has exactly two ranks: with 1 "
    "rank it sends to a rank that does not exist (abort), with more the ranks >= 2 disturb ranks 0/1 (deadlock or abort)")

# ---- bcast
add("bcast:NTSB", "single-rank-communicator", ["abort:comm-create", "abort"], {"p": 1},
    "bcast NTSB on a communicator of one rank sends to rank MPI_UNDEFINED (-333): xbt_die 'trying to send data to rank -333'.  MPI_Bcast "
    "itself skips single-rank communicators, but every communicator constructor broadcasts the context id with colls::bcast(): creating a "
    "one-rank communicator (MPI_Comm_split) aborts")
add(["bcast:SMP_linear", "bcast:ompi_split_bintree"], "unmatched-messages", ["abort", "abort:comm-create", "wrong-result", "deadlock", "deadlock:comm-create"], {"p_ge": 2},
    "on small communicators (one rank per host) ranks return from the broadcast without having received the data (receive buffer untouched) "
    "while other ranks still send to them: wrong result, and xbt_die 'trying to send data to rank N, which is not to be found' when the "
    "early rank has already left; also hits the broadcast of the context id in every communicator constructor")
add("bcast:arrival_pattern_aware", "ranks-return-without-data", ["abort", "wrong-result", "deadlock", "abort:comm-create", "deadlock:comm-create"], {"p_ge": 2},
    "bcast arrival_pattern_aware (mostly with root != 0; the behaviour depends on the order in which the ranks arrive): some ranks return with "
    "their buffer untouched (wrong result) and the messages meant for them are never received (abort 'trying to send data to rank 0, which is "
    "not to be found' when that rank has left)")
add("bcast:arrival_scatter", "communicator-creation-crash", ["crash-memory:comm-create", "crash-memory", "abort:comm-create", "abort"], {"p_ge": 2},
    "bcast arrival_scatter crashes (SIGSEGV) on the 1-int broadcast of the context id done by every communicator constructor: no communicator "
    "of 2 ranks or more can be created with smpi/bcast:arrival_scatter")
add("bcast:flattree_pipeline", "large-message", ["wrong-result"], {"count_ge": 1025, "p_ge": 2},
    "bcast flattree_pipeline with a message of several 8192-byte segments: the non-root ranks receive wrong data in part of the buffer")
add("bcast:scatter_LR_allgather", "holes-of-the-datatype-overwritten", ["written-outside-typemap"], {"ty": GAPPY, "p_ge": 2},
    "bcast scatter_LR_allgather with a datatype with holes: the scatter/allgather phases move count*extent bytes: the holes of the receive "
    "buffers are overwritten with the root's")
add("bcast:SMP_binary", "large-message-holes-of-the-datatype-overwritten", ["written-outside-typemap"], {"ty": GAPPY, "count_ge": 200},
    "bcast SMP_binary with a pipelined (large) message of a datatype with holes: the segments are moved as count*extent bytes: the holes of the "
    "receive buffers are overwritten",
    {"bcast:SMP_binary": [ex("bcast:SMP_binary", 9, SMP, k="bcast", cnt=684, ty="VEC", root=1)]})
add(["bcast:mvapich2_intra_node", "bcast:mvapich2_inter_node", "bcast:mvapich2_knomial_intra_node", "bcast:mvapich2", "bcast:impi"], "large-message-datatype-with-holes",
    ["written-outside-typemap", "wrong-result", "deadlock", "abort"], {"ty": GAPPY, "count_ge": 200},
    "bcast mvapich2_* with a large message of a datatype with holes: holes overwritten, wrong data, sometimes unmatched messages (deadlock / abort)",
    {t: [ex(t, 9, {"nhosts": 17, "rot": 15, "step": 3}, k="bcast", cnt=2051, ty="RSZ", root=6), ex(t, 9, {"nhosts": 17, "rot": 4, "step": 2}, k="bcast", cnt=2051, ty="VECD", root=6),
         ex(t, 5, {"nhosts": 17, "rot": 4, "step": 2}, k="bcast", cnt=2051, ty="VECD", root=0)]
     for t in ["bcast:mvapich2_intra_node", "bcast:mvapich2_inter_node", "bcast:mvapich2_knomial_intra_node", "bcast:mvapich2", "bcast:impi"]})
add("bcast:impi", "inherited", ["abort", "abort:comm-create", "wrong-result", "deadlock", "deadlock:comm-create", "crash-memory", "crash-memory:comm-create"], {"p_ge": 2},
    "the impi selector picks bcast algorithms that fail on these configurations (SMP_linear / arrival-pattern family): same symptoms")

# ---- reduce
add(["reduce:NTSL", "reduce:arrival_pattern_aware", "reduce:flat_tree"], "in-place-not-supported", ["crash-memory", "abort"], {"inplace": True},
    "MPI_Reduce with MPI_IN_PLACE on the root: PMPI_Reduce passes MPI_IN_PLACE as send buffer to the algorithm, which uses it as an address: SIGSEGV")
add(["reduce:NTSL", "reduce:arrival_pattern_aware", "reduce:scatter_gather"], "non-root-receive-buffer-used-as-scratch", ["unused-recvbuf-written"],
    {"p_ge": 2, "count0": False},
    "the receive buffer argument of MPI_Reduce is significant only at the root, but the algorithm reduces into it on the other ranks too: it "
    "is overwritten there (a program that passes NULL or a small buffer on non-root ranks, as MPI allows, is corrupted)")
add("reduce:NTSL", "single-rank-deadlock", ["deadlock"], {"p": 1},
    "reduce NTSL on a communicator of one rank waits for a message from itself that is never sent: deadlock")
add("reduce:scatter_gather", "holes-of-the-datatype-overwritten", ["written-outside-typemap"], {"ty": GAPPY},
    "reduce scatter_gather with a datatype with holes: holes of the root's receive buffer overwritten")
add(["reduce:ompi", "reduce:ompi_chain", "reduce:ompi_pipeline", "reduce:ompi_binary", "reduce:ompi_binomial", "reduce:ompi_in_order_binary"],
    "single-rank-communicator", ["abort", "crash-memory", "wrong-result", "deadlock"], {"p": 1},
    "communicator of one rank: the tree has no parent/children and the generic ompi reduce sends to rank -333 (MPI_UNDEFINED) / leaves the "
    "result unwritten / crashes with MPI_IN_PLACE")

for t in ["reduce:mpich", "reduce:mvapich2", "reduce:mvapich2_two_level", "reduce:impi"]:
    add(t, "in-place-not-supported", ["crash-memory", "abort"], {"inplace": True},
        "MPI_Reduce with MPI_IN_PLACE on the root: the algorithm picked on small communicators / several ranks per host does not handle "
        "MPI_IN_PLACE as send buffer: SIGSEGV",
        {t: [ex(t, 2, SMP, k="reduce", cnt=1, ty="2INT", op="MINLOC", root=1, ip=True), ex(t, 2, None, k="reduce", cnt=1, ty="INT", op="SUM", root=0, ip=True)]})
add("bcast:mvapich2_inter_node", "several-ranks-per-host", ["wrong-result", "deadlock", "abort"], {"nhosts_le": 16, "p_ge": 2},
    "bcast mvapich2_inter_node when several ranks of the communicator share a host: only the node leaders get the data, the other ranks return "
    "with their buffer untouched (the intra-node phase is missing); deadlocks for some sizes",
    {"bcast:mvapich2_inter_node": [ex("bcast:mvapich2_inter_node", 2, SMP, k="bcast", cnt=3, ty="INT", root=0)]})
add("gather:mvapich2_two_level", "several-ranks-per-host", ["crash-memory", "abort", "wrong-result"], {"nhosts_le": 16, "p_ge": 2},
    "gather mvapich2_two_level when several ranks share a host (mostly with a root != 0): SIGSEGV",
    {"gather:mvapich2_two_level": [ex("gather:mvapich2_two_level", 2, SMP, k="gather", cnt=1, ty="INT", root=1)]})
add(["scatter:mvapich2_two_level_binomial", "scatter:mvapich2_two_level_direct"], "several-ranks-per-host-wrong-blocks", ["wrong-result"], {"nhosts_le": 16, "p_ge": 2},
    "scatter mvapich2_two_level_* with an irregular number of ranks per host: the ranks get the block of their neighbour",
    {"scatter:mvapich2_two_level_binomial": [ex("scatter:mvapich2_two_level_binomial", 17, SMP, k="scatter", cnt=1, ty="INT", root=5)],
     "scatter:mvapich2_two_level_direct": [ex("scatter:mvapich2_two_level_direct", 17, SMP, k="scatter", cnt=1, ty="INT", root=5)]})

# ---- SMP-aware ("two level") algorithms on irregular placements
SMP_FAMILY = ["allgather:SMP_NTS", "allgather:loosely_lr", "allgather:mvapich2_smp", "allgather:smp_simple", "allgather:mvapich2", "allgather:impi",
              "allreduce:mvapich2_two_level", "allreduce:smp_binomial_pipeline", "allreduce:smp_binomial", "allreduce:smp_rdb", "allreduce:smp_rsag_lr",
              "allreduce:smp_rsag_rab", "allreduce:smp_rsag", "allreduce:mvapich2", "allreduce:impi", "barrier:mpich_smp", "barrier:mvapich2", "barrier:impi",
              "bcast:SMP_binary", "bcast:SMP_binomial", "bcast:SMP_linear", "bcast:mvapich2", "bcast:mvapich2_inter_node", "bcast:mvapich2_intra_node",
              "bcast:mvapich2_knomial_intra_node", "bcast:impi", "bcast:mpich", "gather:mvapich2_two_level", "gather:mvapich2", "gather:impi",
              "reduce:mvapich2_two_level", "reduce:mvapich2", "reduce:impi", "scatter:mvapich2_two_level_binomial", "scatter:mvapich2_two_level_direct",
              "scatter:mvapich2", "scatter:impi"]
EX_SMP = {
    "gather:mvapich2_two_level": [ex("gather:mvapich2_two_level", 5, {"nhosts": 17, "rot": 10, "step": 13}, k="gather", cnt=2, ty="INT", root=1)],
    "scatter:mvapich2_two_level_binomial": [ex("scatter:mvapich2_two_level_binomial", 6, {"nhosts": 17, "rot": 0, "step": 4}, k="scatter", cnt=2, ty="INT", root=1)],
    "scatter:mvapich2_two_level_direct": [ex("scatter:mvapich2_two_level_direct", 4, {"nhosts": 17, "rot": 6, "step": 5}, k="scatter", cnt=2, ty="INT", root=1)],
    "allreduce:smp_binomial": [ex("allreduce:smp_binomial", 10, {"nhosts": 2, "rot": 9, "step": 4}, k="allreduce", cnt=2, ty="INT", op="SUM")],
    "allgather:mvapich2_smp": [ex("allgather:mvapich2_smp", 4, {"nhosts": 17, "rot": 1, "step": 6}, k="allgather", cnt=3, ty="INT")],
    "allreduce:smp_rsag": [ex("allreduce:smp_rsag", 6, {"nhosts": 4, "rot": r, "step": st}, k="allreduce", cnt=6, ty="DOUBLE", op="SUM") for r in (0, 3) for st in (1, 2, 5)],
    "bcast:SMP_binomial": [ex("bcast:SMP_binomial", 14, {"nhosts": 2, "rot": 3, "step": 8}, k="bcast", cnt=15, ty="VEC", root=2)],
}
EX_SMP["reduce:impi"] = [{"case": json.load(open("/tmp/mpi3/case_reduce_impi_seq.json"))}]
add(SMP_FAMILY, "irregular-rank-placement", DATA + ["crash-memory", "abort", "deadlock", "abort-at-finalize", "crash-memory-at-finalize", "only-in-sequence:*"], {"plain_layout": False, "p_ge": 2},
    "SMP-aware (two-level) algorithm on a communicator whose ranks are not numbered host by host in world-rank order with one rank per host "
    "(several ranks per host, irregular numbers of ranks per host, or a communicator made by MPI_Comm_split with another key order): the "
    "node-leader bookkeeping (Comm::init_smp(), leaders map, 'blocked'/'uniform' assumptions) sends blocks to the wrong ranks: wrong results, "
    "unmatched messages (deadlock, abort 'rank gone') or SIGSEGV", EX_SMP)

# ---- reduce_scatter
add(["reduce_scatter:ompi", "reduce_scatter:impi", "reduce_scatter:mvapich2", "reduce_scatter:ompi_ring"], "irregular-counts-with-zero", ["wrong-result"],
    {"k": "reduce_scatter", "p_ge": 2},
    "MPI_Reduce_scatter with irregular receive counts that contain zeros (ring algorithm, also chosen by the ompi/impi/mvapich2 selectors): some "
    "ranks get the block of another rank",
    {"reduce_scatter:impi": [ex("reduce_scatter:impi", 4, None, k="reduce_scatter", cnt=0, ty="INT", op="SUM"), ex("reduce_scatter:impi", 5, None, k="reduce_scatter", cnt=0, ty="INT", op="SUM"),
                             ex("reduce_scatter:impi", 5, None, k="reduce_scatter", cnt=1, ty="DOUBLE", op="PROD")]})
add("reduce_scatter:ompi_basic_recursivehalving", "wrong-result", ["wrong-result"], {"p_ge": 2},
    "reduce_scatter ompi_basic_recursivehalving: wrong blocks for many count vectors")
add("reduce_scatter:ompi_butterfly", "single-rank-communicator", ["wrong-result"], {"p": 1, "inplace": False},
    "reduce_scatter ompi_butterfly on a communicator of one rank returns without copying the send buffer to the receive buffer",
    {"reduce_scatter:ompi_butterfly": [ex("reduce_scatter:ompi_butterfly", 1, k="reduce_scatter_block", cnt=2, ty="INT", op="SUM")]})

# ---- scatter
add(["scatter:mvapich2_two_level_direct", "scatter:mvapich2_two_level_binomial"], "in-place-root-not-0-send-buffer-modified", ["send-buffer-modified", "wrong-result"],
    {"inplace": True, "root0": False},
    "scatter mvapich2_two_level_* with MPI_IN_PLACE on a root != 0 writes into the root's SEND buffer")
add("scatter:ompi_linear_nb", "root-not-0-stops-after-first-send", ["deadlock", "wrong-result", "error-code", "abort"], {"root0": False, "p_ge": 2},
    "scatter ompi_linear_nb: `err` starts as MPI_ERR_OTHER and is only assigned by the local copy of the root's own block; it is tested after "
    "EVERY iteration of the send loop: when the first peer is not the root itself (root != 0) the root jumps to the error exit after one "
    "send: the other ranks wait for ever (deadlock) and the root does not get its own block")
add("scatter:ompi_linear_nb", "in-place-stops-after-first-send", ["deadlock", "wrong-result", "error-code", "abort"], {"inplace": True, "p_ge": 2},
    "scatter ompi_linear_nb with MPI_IN_PLACE: the local copy is skipped, `err` keeps its initial MPI_ERR_OTHER and the root leaves the send loop at "
    "once: deadlock")
add("scatter:ompi_linear_nb", "count-0-stops-after-first-send", ["deadlock", "wrong-result", "error-code", "abort"], {"count0": True, "p_ge": 2},
    "scatter ompi_linear_nb with count 0: the local copy of zero elements leaves `err` different from MPI_SUCCESS: same early exit of the root, deadlock",
    {"scatter:ompi_linear_nb": [ex("scatter:ompi_linear_nb", 2, None, k="scatter", cnt=0, ty="INT", root=0), ex("scatter:ompi_linear_nb", 3, None, k="scatter", cnt=0, ty="DOUBLE", root=0)]})
add("scatter:ompi", "inherits-ompi_linear_nb-count-0", ["deadlock", "wrong-result", "abort"], {"count0": True, "p_ge": 2},
    "the ompi selector picks scatter ompi_linear_nb for small messages: deadlock with count 0",
    {"scatter:ompi": [ex("scatter:ompi", 2, None, k="scatter", cnt=0, ty="INT", root=0), ex("scatter:ompi", 3, None, k="scatter", cnt=0, ty="DOUBLE", root=0)]})
add("scatter:ompi", "inherits-ompi_linear_nb", ["deadlock", "wrong-result", "abort"], {"root0": False, "p_ge": 2},
    "the ompi selector picks scatter ompi_linear_nb for some sizes: same deadlock with root != 0",
    {"scatter:ompi": [ex("scatter:ompi", 3, k="scatter", cnt=0, ty="RSZ", root=1), ex("scatter:ompi", 3, k="scatter", cnt=0, ty="INT", root=1)]})
add("allreduce:default", "count-0-division-by-zero", ["crash-sigfpe"], {"count0": True},
    "allreduce default hands derived datatypes to allreduce ompi, which divides by zero when count = 0 (16 ranks and more)",
    {"allreduce:default": [ex("scatter:default", 16, k="allreduce", cnt=0, ty="VEC", op="USER")]})
add("reduce:rab", "in-place-large-message", ["crash-memory"], {"inplace": True},
    "reduce rab with MPI_IN_PLACE and a large message (new protocol): SIGSEGV",
    {"reduce:rab": [ex("reduce:rab", 2, k="reduce", cnt=4101, ty="INT", op="SUM", root=0, ip=True), ex("reduce:rab", 2, k="reduce", cnt=4101, ty="INT", op="USER", root=0, ip=True)]})

# ---- automatic = runs every algorithm of the collective in turn on the user's buffers: inherits all their defects
for c in ["allgatherv", "allreduce", "alltoall", "alltoallv", "barrier", "bcast", "reduce", "scatter", "gather"]:
    add(c + ":automatic", "runs-every-algorithm", ["*"], {},
        "the `automatic` selector executes EVERY algorithm of the collective in turn on the buffers of the call (benchmark mode) and keeps the "
        "result of the last one: it inherits every crash, deadlock and wrong result of the algorithms of " + c,
        {"gather:automatic": [ex("gather:automatic", 2, SMP, k="gather", cnt=1, ty="INT", root=1)]})

if __name__ == "__main__":
    json.dump(E, open("/tmp/mpi3/entries.json", "w"), indent=1)
    print(len(E), "entries")
