# C29: builder of known/C29.json + replays/C29/known-*.json from the table (see C29-known-table.py).  Reference only.
# entries.json + sweep items -> /verif/known/C29.json + /verif/replays/C29/known-*.json (each replay verified)
import json, glob, sys, os, re
sys.path.insert(0, "/verif")
from vf.props import c29
from vf import coll, core
E = json.load(open("/tmp/mpi3/entries.json"))
items = []
for f in glob.glob('/tmp/mpi3/sw2.*.jsonl') + glob.glob('/tmp/mpi3/sw3.*.jsonl'):
    for l in open(f):
        d = json.loads(l)
        for tgt, status, feat in d["items"]:
            if status != "ok":
                items.append((tgt, status, feat, d["name"]))
def kind_ok(kind, kinds):
    return any(kind == k or (k.endswith("*") and kind.startswith(k[:-1])) for k in kinds)
only = sys.argv[1:]
out = []
os.makedirs("/verif/replays/C29", exist_ok=True)
for e in E:
    sig = "%s:%s" % (e["target"], e["slug"])
    if only and not any(sig.startswith(o) for o in only):
        continue
    entry = {"property": "C29", "kind": "known", "signature": sig, "what": e["what"],
             "match": {"target": e["target"], "kinds": e["kinds"], "when": e["when"]}}
    cands = [(f, run, st) for tgt, st, f, run in items if tgt == e["target"] and kind_ok(st, e["kinds"]) and c29._in_domain(entry, e["target"], f)]
    cands.sort(key=lambda x: (x[0]["p"], (x[0].get("count") or 0) == 0 and not e["when"].get("count0"), x[0].get("count") or 0, x[0].get("ty") or "", x[1]))
    explicit = e.get("examples") or []
    done = False
    tried = 0
    seen = set()
    for x in explicit:
        if "case" in x:
            case = x["case"]
        else:
            c, a = x["run"].split(":")
            case = {"coll": c, "algo": a, "nhosts": 17, "rot": 0, "step": 1, "sizes": [x["p"]], "calls": [x["call"]]}
            case.update(x.get("layout") or {})
        if "case" in x:
            c29._KNOWN = [y for y in json.load(open("/verif/known/C29.json"))["findings"] if y["signature"] != sig] + [entry]
        else:
            c29._KNOWN = [entry]
        oc = c29.PROP.check(case)
        sigs = [v.sig for v in oc.violations]
        if sig in sigs and (len(set(sigs)) == 1 or "case" in x):
            name = "known-" + re.sub(r"[^A-Za-z0-9]+", "-", sig).strip("-").lower()
            json.dump({"property": "C29", "case": case, "violations": [v.to_json() for v in oc.violations]},
                      open("/verif/replays/C29/%s.json" % name, "w"), indent=1, sort_keys=True)
            entry["input"] = "replays/C29/%s.json" % name
            entry["what"] = e["what"] + "  [minimal replay: %s]" % oc.violations[0].msg.split(" -- failing: ")[-1][:120]
            done = True
            break
        else:
            print("   explicit example not reproduced:", sig, "->", sigs[:3])
    for f, run, st in ([] if done else cands):
        key = json.dumps({k: f.get(k) for k in ("p", "k", "count", "ty", "op", "inplace", "root", "nb")}, sort_keys=True) + run
        if key in seen:
            continue
        seen.add(key)
        if tried >= 6:
            break
        c, a = run.split(":")
        for seed in (1, 2, 3):
            if "k" in f and f["k"] is not None:
                call = {"k": f["k"], "nb": f.get("nb", 0), "seed": seed, "dl": 1 if f["k"] == "barrier" else 0}
                if f["k"] != "barrier":
                    call["cnt"] = f["count"]
                    call["ty"] = f["ty"]
                    if f.get("op"):
                        call["op"] = f["op"]
                    if f.get("inplace"):
                        call["ip"] = True
                if f["k"] in coll.ROOTED:
                    call["root"] = f.get("root", 0)
            else:
                call = {"k": "barrier", "nb": 0, "seed": seed, "dl": 1}
            case = {"coll": c, "algo": a, "nhosts": 17, "rot": 0, "step": 1, "sizes": [f["p"]], "calls": [call]}
            tried += 1
            c29._KNOWN = [entry]              # only this entry is known during the verification
            try:
                oc = c29.PROP.check(case)
            except Exception as ex:
                print("   check failed", ex)
                continue
            sigs = [v.sig for v in oc.violations]
            if sig in sigs and len(set(sigs)) == 1:
                name = "known-" + re.sub(r"[^A-Za-z0-9]+", "-", sig).strip("-").lower()
                json.dump({"property": "C29", "case": case, "violations": [v.to_json() for v in oc.violations]},
                          open("/verif/replays/C29/%s.json" % name, "w"), indent=1, sort_keys=True)
                entry["input"] = "replays/C29/%s.json" % name
                entry["what"] = e["what"] + "  [minimal replay: %s]" % oc.violations[0].msg.split(" -- failing: ")[-1][:120]
                done = True
                break
            elif tried <= 2:
                print("   not yet:", sig, "->", sigs[:3], json.dumps(case)[:200])
        if done:
            break
    print(("OK   " if done else "DROP ") + sig + ("  (%d candidates)" % len(cands)), flush=True)
    if done:
        out.append(entry)
prev = json.load(open("/tmp/mpi3/known_new.json")) if only and os.path.exists("/tmp/mpi3/known_new.json") else []
current = set("%s:%s" % (e["target"], e["slug"]) for e in E)
keep = [x for x in prev if x["signature"] not in set(y["signature"] for y in out) and x["signature"] in current]
order = {"%s:%s" % (e["target"], e["slug"]): i for i, e in enumerate(E)}
out = sorted(keep + out, key=lambda x: order.get(x["signature"], 999))
json.dump(out, open("/tmp/mpi3/known_new.json", "w"), indent=1)
print(len(out), "entries kept of", len(E))
