#!/bin/bash
# usage: ./sweep.sh "C04 C05" "1 2 3" [tier]   -- runs checks with several seeds, evidence/replays under /tmp/vf-sweep
mkdir -p /tmp/vf-sweep
for p in $1; do for sd in $2; do
  VF_OUT=/tmp/vf-sweep ./check $p --seed $sd --tier ${3:-quick} > /tmp/vf-sweep/$p.$sd.log 2>&1
  echo "$p seed=$sd rc=$? $(grep -v KNOWN-FINDING /tmp/vf-sweep/$p.$sd.log | tail -1 | cut -c1-200)"
done; done
