// vf-driver: kind=cxx
/* parmap_driver (C49): creates ONE simgrid::xbt::Parmap<int> and runs a sequence of apply() calls on it, counting how often
 * every element is handed to the function (directly by apply, or through next() like the context factories do).
 *
 * case: {"mode":"futex"|"posix"|"busy_wait"|"default", "threads":N, "factory":"raw"|"thread"|"boost",
 *        "reps":R, "applies":[[n, steal, spin], ...]}
 *   n     number of elements of the vector (element i has the value n-1-i)
 *   steal how many times the function calls Parmap::next() after its own element: 0 = never, k>0 = up to k times,
 *         -1 = until next() returns none (the pattern of SwappedContext::suspend)
 *   spin  busy iterations per element (varies the interleaving; never used as a verdict)
 *   optional 4th item = injected-fault class "non-round wake-up of idle workers": [[pos, spin, kicks], ...] = slow elements:
 *         the element at index pos costs `spin` extra busy iterations, split in kicks+1 slices; between two slices the thread
 *         that processes it sends a signal (no-op handler installed WITHOUT SA_RESTART) to every parmap worker thread
 *         (tgkill on all tasks of the process except itself, the controller and the watchdog): a worker sleeping in
 *         futex_wait() then returns with EINTR although no round started, which futex(2) allows at any time.
 * The whole sequence is repeated R times on the same Parmap.  One JSON line per apply():
 *   {"a":index,"n":n,"lost":[...],"dup":[...],"bad":k,"used":threads that processed >=1 element}
 *     lost/dup = elements (at most 8 each) whose counter is 0 / >1 when apply() returns; bad = values outside the vector
 * after the Parmap is destroyed (worker threads joined): {"late":[[apply,element,count_then,count_now],...]} = counters that
 * changed after their apply() had returned; then {"done":true}.
 * A watchdog reports {"deadlock":true} and exits when, on 8 consecutive samples 250 ms apart, nothing progressed AND every
 * other thread of the process was sleeping (state S in /proc): a thread that merely lacks a CPU is in state R, so machine
 * load cannot produce this report.  It reports {"livelock":true} when the process has burnt 120 s of CPU (rusage, not
 * wall-clock) without a single element or apply() completing (threads spinning on a condition that never comes true).
 */
#include "simgrid/s4u/Engine.hpp"
#include "src/kernel/EngineImpl.hpp"
#include "src/xbt/parmap.hpp"
#include "xbt/log.h"

#include "forkserver.hpp"

#include <atomic>
#include <dirent.h>
#include <memory>
#include <nlohmann/json.hpp>
#include <thread>
#include <vector>

using json = nlohmann::json;

static std::atomic<unsigned long> progress{0};
static std::atomic<int> next_slot{0};
static thread_local int my_slot = -1;
static std::atomic<bool> finished{false};
static std::atomic<pid_t> watchdog_tid{0};

static bool all_others_sleeping(pid_t self_tid)
{
  DIR* d = opendir("/proc/self/task");
  if (d == nullptr)
    return false;
  bool all = true;
  int seen = 0;
  while (const dirent* e = readdir(d)) {
    if (e->d_name[0] == '.')
      continue;
    if (atoi(e->d_name) == self_tid)
      continue;
    std::string path = std::string("/proc/self/task/") + e->d_name + "/stat";
    FILE* f          = fopen(path.c_str(), "r");
    if (f == nullptr)
      continue;
    char buf[512];
    size_t n = fread(buf, 1, sizeof buf - 1, f);
    fclose(f);
    buf[n]         = 0;
    const char* rp = strrchr(buf, ')'); // state is the field after "(comm)"
    if (rp == nullptr || rp[1] != ' ') {
      all = false;
      continue;
    }
    seen++;
    if (rp[2] != 'S')
      all = false;
  }
  closedir(d);
  return all && seen > 0;
}

static const double LIVELOCK_CPU_S = 120.0;
static double cpu_seconds()
{
  struct rusage ru;
  getrusage(RUSAGE_SELF, &ru);
  return ru.ru_utime.tv_sec + ru.ru_stime.tv_sec + (ru.ru_utime.tv_usec + ru.ru_stime.tv_usec) / 1e6;
}

static void watchdog()
{
  pid_t tid          = static_cast<pid_t>(syscall(SYS_gettid));
  watchdog_tid.store(tid);
  unsigned long last = progress.load();
  int stuck          = 0;
  double cpu_mark    = cpu_seconds();
  while (not finished.load()) {
    std::this_thread::sleep_for(std::chrono::milliseconds(250));
    unsigned long now = progress.load();
    if (now == last && all_others_sleeping(tid))
      stuck++;
    else
      stuck = 0;
    if (now != last)
      cpu_mark = cpu_seconds();
    else if (cpu_seconds() - cpu_mark > LIVELOCK_CPU_S && not finished.load()) {
      // CPU really consumed by this process (not wall-clock time) while not a single element or apply() completed
      printf("{\"livelock\":true,\"progress\":%lu,\"cpu_without_progress\":%.0f}\n", now, cpu_seconds() - cpu_mark);
      fflush(stdout);
      _exit(4);
    }
    last = now;
    if (stuck >= 8 && not finished.load()) {
      printf("{\"deadlock\":true,\"progress\":%lu}\n", now);
      fflush(stdout);
      _exit(3);
    }
  }
}

/* ---- injected fault: non-round wake-ups (EINTR) of the worker threads ---- */
static int kick_signal;
static std::vector<pid_t> kick_targets; // the worker threads of the Parmap (not the controller, not the watchdog)
static std::atomic<long> kicks_sent{0};
static void kick_handler(int) {}
static pid_t gettid_()
{
  return static_cast<pid_t>(syscall(SYS_gettid));
}
static void collect_targets(pid_t controller)
{
  kick_targets.clear();
  DIR* d = opendir("/proc/self/task");
  if (d == nullptr)
    return;
  while (const dirent* e = readdir(d)) {
    if (e->d_name[0] == '.')
      continue;
    pid_t t = atoi(e->d_name);
    if (t != controller && t != watchdog_tid.load())
      kick_targets.push_back(t);
  }
  closedir(d);
}
static void kick_all()
{
  pid_t me  = gettid_();
  pid_t pid = getpid();
  for (pid_t t : kick_targets)
    if (t != me && syscall(SYS_tgkill, pid, t, kick_signal) == 0)
      kicks_sent.fetch_add(1, std::memory_order_relaxed);
}

struct Slow {
  int pos;
  long spin;
  int kicks;
};
struct Apply {
  std::vector<Slow> slow;
  std::vector<int> data;
  std::unique_ptr<std::atomic<int>[]> count;
  std::vector<int> snapshot;
  std::atomic<int> used[64];
};

static int run_case(const std::string& text)
{
  json c              = json::parse(text);
  std::string factory = "--cfg=contexts/factory:" + c.value("factory", std::string("raw"));
  std::vector<std::string> args{"parmap_driver", factory, "--log=root.thres:error"};
  std::vector<char*> argv;
  for (auto& a : args)
    argv.push_back(a.data());
  argv.push_back(nullptr);
  int argc = static_cast<int>(args.size());
  simgrid::s4u::Engine e(&argc, argv.data());

  std::string m            = c["mode"];
  e_xbt_parmap_mode_t mode = m == "futex" ? XBT_PARMAP_FUTEX
                                          : (m == "posix" ? XBT_PARMAP_POSIX : (m == "busy_wait" ? XBT_PARMAP_BUSY_WAIT : XBT_PARMAP_DEFAULT));
  unsigned threads         = c["threads"].get<unsigned>();
  int reps                 = c.value("reps", 1);

  kick_signal = SIGRTMIN + 3;
  struct sigaction sa;
  memset(&sa, 0, sizeof sa);
  sa.sa_handler = kick_handler; // no SA_RESTART: an interrupted futex_wait() returns EINTR
  sigemptyset(&sa.sa_mask);
  sigaction(kick_signal, &sa, nullptr);

  std::thread dog(watchdog);
  dog.detach();
  while (watchdog_tid.load() == 0)
    std::this_thread::yield();

  std::vector<std::unique_ptr<Apply>> all;
  {
    simgrid::xbt::Parmap<int> parmap(threads, mode);
    collect_targets(gettid_()); // all worker threads exist now (created by the constructor)
    for (int rep = 0; rep < reps; rep++) {
      for (auto const& a : c["applies"]) {
        int n     = a[0].get<int>();
        int steal = a[1].get<int>();
        int spin  = a[2].get<int>();
        all.push_back(std::make_unique<Apply>());
        Apply& ap = *all.back();
        ap.data.resize(n);
        for (int i = 0; i < n; i++)
          ap.data[i] = n - 1 - i;
        ap.count.reset(new std::atomic<int>[n + 1]);
        for (int i = 0; i <= n; i++)
          ap.count[i].store(0);
        for (auto& u : ap.used)
          u.store(0);
        if (a.size() > 3 && a[3].is_array())
          for (auto const& sl : a[3])
            ap.slow.push_back({sl[0].get<int>(), sl[1].get<long>(), sl[2].get<int>()});
        long kicks_before = kicks_sent.load();
        Apply* app = &ap; // everything is captured by value: a (faulty) late worker must not touch a dead stack frame
        auto* pm   = &parmap;
        parmap.apply(
            [app, pm, n, spin, steal](int first) {
              auto process = [app, n, spin](int v) {
                if (my_slot < 0)
                  my_slot = next_slot.fetch_add(1);
                app->used[my_slot % 64].store(1, std::memory_order_relaxed);
                volatile int sink = 0;
                for (int k = 0; k < spin; k++)
                  sink = sink + k;
                for (auto const& sl : app->slow) // slow element: the value at index pos is n-1-pos
                  if (v == n - 1 - sl.pos) {
                    long slice = sl.spin / (sl.kicks + 1);
                    for (int j = 0; j <= sl.kicks; j++) {
                      for (long k = 0; k < slice; k++)
                        sink = sink + 1;
                      if (j < sl.kicks)
                        kick_all();
                    }
                  }
                if (v < 0 || v >= n)
                  app->count[n].fetch_add(1);
                else
                  app->count[v].fetch_add(1);
                progress.fetch_add(1, std::memory_order_relaxed);
              };
              process(first);
              for (int k = 0; steal < 0 || k < steal; k++) {
                boost::optional<int> more = pm->next();
                if (not more)
                  break;
                process(*more);
              }
            },
            ap.data);
        // apply() has returned: every element must have been processed by now
        ap.snapshot.resize(n + 1);
        for (int i = 0; i <= n; i++)
          ap.snapshot[i] = ap.count[i].load();
        progress.fetch_add(1);
        json out;
        out["a"]   = all.size() - 1;
        out["n"]   = n;
        json lost  = json::array();
        json dup   = json::array();
        int nlost  = 0;
        int ndup   = 0;
        for (int i = 0; i < n; i++) {
          if (ap.snapshot[i] == 0 && nlost++ < 8)
            lost.push_back(i);
          if (ap.snapshot[i] > 1 && ndup++ < 8)
            dup.push_back(i);
        }
        out["lost"]  = lost;
        out["nlost"] = nlost;
        out["dup"]   = dup;
        out["ndup"]  = ndup;
        out["bad"]   = ap.snapshot[n];
        int nused    = 0;
        for (auto& u : ap.used)
          nused += u.load();
        out["used"] = nused;
        if (not ap.slow.empty())
          out["kicks"] = kicks_sent.load() - kicks_before;
        printf("%s\n", out.dump().c_str());
      }
    }
  } // parmap destroyed: workers joined
  progress.fetch_add(1);
  json late = json::array();
  for (size_t k = 0; k < all.size(); k++) {
    int n = static_cast<int>(all[k]->data.size());
    for (int i = 0; i <= n; i++)
      if (all[k]->count[i].load() != all[k]->snapshot[i] && late.size() < 8)
        late.push_back({k, i, all[k]->snapshot[i], all[k]->count[i].load()});
  }
  finished.store(true);
  printf("%s\n", json({{"late", late}}).dump().c_str());
  printf("{\"done\":true}\n");
  fflush(stdout);
  _exit(0); // no engine shutdown: nothing of it is under test here
}

int main(int argc, char** argv)
{
  return vf_main(argc, argv, run_case);
}
