// vf-driver: kind=smpicxx flags=-DC36_SCALE=3 extra=c36_vars_a.cpp,c36_vars_b.cpp
/* c36_prog_l: drivers/c36_prog.cpp built with C36_SCALE=3 (see c36_vars.hpp: how far .bss spills past the file-backed data pages) */
#include "c36_prog.cpp"
