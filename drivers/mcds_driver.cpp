// vf-driver: kind=cxx flags=-std=gnu++20
/* mcds_driver: exercises the model checker's data structures (no Engine, no application, in-process server).
 *
 * usage: mcds_driver <case.json> | --serve <errfile>   (see forkserver.hpp; inproc=true: cases run in the server itself)
 *
 * case {"mode":"exec", "syn":{"dep":[[0/1..]..], "real":[mask..], "rev":[[0/1..]..]}, "ops":[op..]}
 *   builds an odpor::Execution from transition specs and dumps what it computes (C42).
 *     op ["push", tspec, restoring?]   Execution::push_transition
 *        ["pushmany", [tspec..]]       Execution::push_partial_execution
 *        ["ctor", [tspec..]]           E = Execution(PartialExecution)
 *        ["pop"]                       Execution::remove_last_event
 *        ["copy"]                      E = copy of E (the original is destroyed)
 *        ["prefix", k]                 E = E.get_prefix_before(k)
 *        ["dump", [limits..], rev?]    prints one JSON line (see dump_exec)
 * case {"mode":"unf", ...}  builds UnfoldingEvents / EventSets / Configurations and dumps what they compute (C44), see run_unf.
 *
 * tspec (a JSON array; first element = class):
 *   ["syn", aid, kind]                                          synthetic Transition of type UNKNOWN; depends() = generated matrix
 *   ["mutex", TYPE, aid, mutex, owner]   ["sem", TYPE, aid, sem, granted, capacity]   ["barrier", TYPE, aid, bar]
 *   ["condvar", TYPE, aid, cv, mutex, granted, timeout]
 *   ["send"|"recv", aid, comm, mbox, tag, via]   ["iprobe", aid, is_sender, mbox, tag, via]
 *   ["test", aid, comm, sender, receiver, mbox, via]   ["wait", aid, timeout, comm, sender, receiver, mbox, via]
 *   ["join", aid, target, timeout]   ["exit", aid]   ["sleep", aid]   ["create", aid, child]   ["random", aid, min, max]
 *   ["testany", aid, times_considered, [[comm, sender, receiver, mbox]..]]
 *   ["waitany", aid, times_considered, [[timeout, comm, sender, receiver, mbox]..]]
 *   via: 0 = direct constructor, 1 = deserialize_transition() from a mc::Channel filled with the packed fields.
 * No oracle here: the driver only executes and reports.  Built with -fno-access-control.
 */
#include "src/mc/explo/odpor/Execution.hpp"
#include "src/mc/explo/udpor/Configuration.hpp"
#include "src/mc/explo/udpor/EventSet.hpp"
#include "src/mc/explo/udpor/History.hpp"
#include "src/mc/explo/udpor/Unfolding.hpp"
#include "src/mc/explo/udpor/UnfoldingEvent.hpp"
#include "src/mc/explo/udpor/maximal_subsets_iterator.hpp"
#include "src/mc/remote/Channel.hpp"
#include "src/mc/transition/Transition.hpp"
#include "src/mc/transition/TransitionActor.hpp"
#include "src/mc/transition/TransitionAny.hpp"
#include "src/mc/transition/TransitionComm.hpp"
#include "src/mc/transition/TransitionRandom.hpp"
#include "src/mc/transition/TransitionSynchro.hpp"
#include "src/xbt/utils/iter/LazyKSubsets.hpp"
#include "src/xbt/utils/iter/LazyPowerset.hpp"
#include "src/xbt/utils/iter/variable_for_loop.hpp"
#include "xbt/log.h"

#include "forkserver.hpp"

#include <cstdio>
#include <memory>
#include <nlohmann/json.hpp>
#include <string>
#include <vector>

namespace mc    = simgrid::mc;
namespace odpor = simgrid::mc::odpor;
namespace udpor = simgrid::mc::udpor;
using json      = nlohmann::json;
using mc::Aid;
using mc::Transition;
using mc::TransitionPtr;
using Type = mc::Transition::Type;

/* ------------------------------------------------------------------------------------------------------------------ */
/* Synthetic transitions: type UNKNOWN, dependency given by generated tables                                           */

struct SynTables {
  std::vector<std::vector<int>> dep; // kinds x kinds, symmetric (generated)
  std::vector<uint64_t> real;        // per kind: bit i set <=> dependent with real transitions of Type i
  std::vector<std::vector<int>> rev; // kinds x kinds, reversible_race(this kind, other kind), not symmetric
};
static SynTables syn;
static long rev_bad_args = 0; // reversible_race() called with handles that do not designate (this, other)

struct SynTransition final : public Transition {
  int kind;
  SynTransition(Aid issuer, int kind) : Transition(Type::UNKNOWN, issuer, 0), kind(kind) {}
  bool depends(const Transition* other) const override
  {
    if (aid_ == other->aid_)
      return true;
    if (other->type_ == Type::UNKNOWN) {
      const auto* o = dynamic_cast<const SynTransition*>(other);
      return o != nullptr && syn.dep.at(kind).at(o->kind) != 0;
    }
    return (syn.real.at(kind) >> static_cast<unsigned>(other->type_)) & 1u;
  }
  bool reversible_race(const Transition* other, const odpor::Execution* exec, mc::EventHandle this_handle,
                       mc::EventHandle other_handle) const override
  {
    if (exec == nullptr || this_handle >= exec->size() || other_handle >= exec->size() ||
        exec->get_transition_for_handle(this_handle) != this || exec->get_transition_for_handle(other_handle) != other)
      rev_bad_args++;
    const auto* o = dynamic_cast<const SynTransition*>(other);
    return o != nullptr && syn.rev.at(kind).at(o->kind) != 0;
  }
  std::string to_string(bool) const override { return "Syn(" + std::to_string(kind) + ")"; }
  std::string dot_string() const override { return ""; }
};

/* ------------------------------------------------------------------------------------------------------------------ */
/* Real transitions                                                                                                     */

static mc::Channel* chan = nullptr; // never connected: we pack into its output buffer and re-inject into its input

static Type type_by_name(const std::string& name)
{
  for (int i = 0; i <= static_cast<int>(Type::UNKNOWN); i++)
    if (name == Transition::to_c_str(static_cast<Type>(i)))
      return static_cast<Type>(i);
  throw std::invalid_argument("unknown transition type " + name);
}

static Aid aid_of(const json& j)
{
  long v = j.get<long>();
  return v < 0 ? Aid::INVALID : Aid(static_cast<int>(v));
}

static Transition* from_channel(Aid issuer, int times_considered)
{
  // what was packed becomes what is received
  xbt_assert(chan->buffer_in_size_ == 0, "leftover bytes in the channel");
  chan->reinject(chan->buffer_out_, chan->buffer_out_size_);
  chan->buffer_out_size_ = 0;
  Transition* t          = mc::deserialize_transition(issuer, times_considered, *chan);
  if (chan->buffer_in_size_ != 0) {
    chan->buffer_in_size_ = 0;
    chan->buffer_in_next_ = 0;
    delete t;
    throw std::runtime_error("deserialize_transition left unread bytes");
  }
  return t;
}

static void pack_test(const json& s) // [comm, sender, receiver, mbox]
{
  chan->pack<Type>(Type::COMM_TEST);
  chan->pack<unsigned>(s.at(0).get<unsigned>());
  chan->pack<aid_t>(s.at(1).get<long>());
  chan->pack<aid_t>(s.at(2).get<long>());
  chan->pack<unsigned>(s.at(3).get<unsigned>());
  chan->pack<std::string>(std::string("loc"));
}
static void pack_wait(const json& s) // [timeout, comm, sender, receiver, mbox]
{
  chan->pack<Type>(Type::COMM_WAIT);
  chan->pack<bool>(s.at(0).get<int>() != 0);
  chan->pack<unsigned>(s.at(1).get<unsigned>());
  chan->pack<aid_t>(s.at(2).get<long>());
  chan->pack<aid_t>(s.at(3).get<long>());
  chan->pack<unsigned>(s.at(4).get<unsigned>());
  chan->pack<std::string>(std::string("loc"));
}

static TransitionPtr make_transition(const json& s)
{
  const std::string cls = s.at(0).get<std::string>();
  chan->buffer_out_size_ = 0;
  if (cls == "syn")
    return TransitionPtr(new SynTransition(aid_of(s.at(1)), s.at(2).get<int>()));
  if (cls == "mutex") {
    Type t = type_by_name(s.at(1).get<std::string>());
    chan->pack<Type>(t);
    chan->pack<unsigned>(s.at(3).get<unsigned>());
    chan->pack<aid_t>(s.at(4).get<long>());
    return TransitionPtr(from_channel(aid_of(s.at(2)), 0));
  }
  if (cls == "sem") {
    Type t = type_by_name(s.at(1).get<std::string>());
    chan->pack<Type>(t);
    chan->pack<unsigned>(s.at(3).get<unsigned>());
    chan->pack<bool>(s.at(4).get<int>() != 0);
    chan->pack<int>(s.at(5).get<int>());
    return TransitionPtr(from_channel(aid_of(s.at(2)), 0));
  }
  if (cls == "barrier") {
    Type t = type_by_name(s.at(1).get<std::string>());
    chan->pack<Type>(t);
    chan->pack<unsigned>(s.at(3).get<unsigned>());
    return TransitionPtr(from_channel(aid_of(s.at(2)), 0));
  }
  if (cls == "condvar") {
    Type t = type_by_name(s.at(1).get<std::string>());
    chan->pack<Type>(t);
    chan->pack<unsigned>(s.at(3).get<unsigned>());
    if (t == Type::CONDVAR_ASYNC_LOCK || t == Type::CONDVAR_WAIT)
      chan->pack<unsigned>(s.at(4).get<unsigned>());
    if (t == Type::CONDVAR_WAIT) {
      chan->pack<bool>(s.at(5).get<int>() != 0);
      chan->pack<bool>(s.at(6).get<int>() != 0);
    }
    return TransitionPtr(from_channel(aid_of(s.at(2)), 0));
  }
  if (cls == "send" || cls == "recv") {
    Aid a         = aid_of(s.at(1));
    unsigned comm = s.at(2).get<unsigned>(), mbox = s.at(3).get<unsigned>();
    int tag = s.at(4).get<int>();
    if (s.at(5).get<int>() == 0) {
      if (cls == "send")
        return TransitionPtr(new mc::CommSendTransition(a, 0, comm, mbox, tag));
      return TransitionPtr(new mc::CommRecvTransition(a, 0, comm, mbox, tag));
    }
    chan->pack<Type>(cls == "send" ? Type::COMM_ASYNC_SEND : Type::COMM_ASYNC_RECV);
    chan->pack<unsigned>(comm);
    chan->pack<unsigned>(mbox);
    chan->pack<int>(tag);
    chan->pack<std::string>(std::string("loc"));
    return TransitionPtr(from_channel(a, 0));
  }
  if (cls == "iprobe") {
    Aid a = aid_of(s.at(1));
    if (s.at(5).get<int>() == 0)
      return TransitionPtr(
          new mc::CommIprobeTransition(a, 0, s.at(2).get<int>() != 0, s.at(3).get<unsigned>(), s.at(4).get<int>()));
    chan->pack<Type>(Type::COMM_IPROBE);
    chan->pack<unsigned>(s.at(3).get<unsigned>());
    chan->pack<bool>(s.at(2).get<int>() != 0);
    chan->pack<int>(s.at(4).get<int>());
    return TransitionPtr(from_channel(a, 0));
  }
  if (cls == "test") {
    Aid a = aid_of(s.at(1));
    if (s.at(6).get<int>() == 0)
      return TransitionPtr(new mc::CommTestTransition(a, 0, s.at(2).get<unsigned>(), aid_of(s.at(3)), aid_of(s.at(4)),
                                                      s.at(5).get<unsigned>()));
    pack_test(json::array({s.at(2), s.at(3), s.at(4), s.at(5)}));
    return TransitionPtr(from_channel(a, 0));
  }
  if (cls == "wait") {
    Aid a = aid_of(s.at(1));
    if (s.at(7).get<int>() == 0)
      return TransitionPtr(new mc::CommWaitTransition(a, 0, s.at(2).get<int>() != 0, s.at(3).get<unsigned>(),
                                                      aid_of(s.at(4)), aid_of(s.at(5)), s.at(6).get<unsigned>()));
    pack_wait(json::array({s.at(2), s.at(3), s.at(4), s.at(5), s.at(6)}));
    return TransitionPtr(from_channel(a, 0));
  }
  if (cls == "join") {
    chan->pack<Type>(Type::ACTOR_JOIN);
    chan->pack<aid_t>(s.at(2).get<long>());
    chan->pack<bool>(s.at(3).get<int>() != 0);
    return TransitionPtr(from_channel(aid_of(s.at(1)), 0));
  }
  if (cls == "exit" || cls == "sleep") {
    chan->pack<Type>(cls == "exit" ? Type::ACTOR_EXIT : Type::ACTOR_SLEEP);
    return TransitionPtr(from_channel(aid_of(s.at(1)), 0));
  }
  if (cls == "create") {
    chan->pack<Type>(Type::ACTOR_CREATE);
    chan->pack<aid_t>(s.at(2).get<long>());
    return TransitionPtr(from_channel(aid_of(s.at(1)), 0));
  }
  if (cls == "random") {
    chan->pack<Type>(Type::RANDOM);
    chan->pack<int>(s.at(2).get<int>());
    chan->pack<int>(s.at(3).get<int>());
    return TransitionPtr(from_channel(aid_of(s.at(1)), 0));
  }
  if (cls == "testany" || cls == "waitany") {
    chan->pack<Type>(cls == "testany" ? Type::TESTANY : Type::WAITANY);
    chan->pack<unsigned>(static_cast<unsigned>(s.at(3).size()));
    for (const auto& sub : s.at(3))
      if (cls == "testany")
        pack_test(sub);
      else
        pack_wait(sub);
    chan->pack<std::string>(std::string("loc"));
    return TransitionPtr(from_channel(aid_of(s.at(1)), s.at(2).get<int>()));
  }
  throw std::invalid_argument("unknown transition class " + cls);
}

/* TestAny/WaitAny do not free the sub-transitions they deserialize; do it for them so that long campaigns do not grow */
static void free_subtransitions(Transition* t)
{
  if (t->type_ == Type::TESTANY) {
    for (auto* sub : static_cast<mc::TestAnyTransition*>(t)->transitions_)
      delete sub;
    static_cast<mc::TestAnyTransition*>(t)->transitions_.clear();
  } else if (t->type_ == Type::WAITANY) {
    for (auto* sub : static_cast<mc::WaitAnyTransition*>(t)->transitions_)
      delete sub;
    static_cast<mc::WaitAnyTransition*>(t)->transitions_.clear();
  }
}

static void load_syn(const json& c)
{
  syn = SynTables();
  if (not c.contains("syn"))
    return;
  const json& s = c.at("syn");
  syn.dep       = s.at("dep").get<std::vector<std::vector<int>>>();
  syn.real      = s.at("real").get<std::vector<uint64_t>>();
  if (s.contains("rev"))
    syn.rev = s.at("rev").get<std::vector<std::vector<int>>>();
  else
    syn.rev = syn.dep;
}

/* ------------------------------------------------------------------------------------------------------------------ */
/* mode exec (C42)                                                                                                      */

static std::vector<TransitionPtr> all_transitions; // everything created by the case, released at its end

static TransitionPtr mk(const json& spec)
{
  TransitionPtr t = make_transition(spec);
  all_transitions.push_back(t);
  return t;
}

static void dump_exec(const odpor::Execution& E, int opidx, const json& op)
{
  const unsigned n = E.size();
  json out;
  out["op"] = opidx;
  out["n"]  = n;
  json aids = json::array();
  json typs = json::array();
  for (unsigned i = 0; i < n; i++) {
    aids.push_back(E.get_actor_with_handle(i).c_val());
    typs.push_back(static_cast<int>(E.get_transition_for_handle(i)->type_));
  }
  out["aid"]  = aids;
  out["type"] = typs;
  // depends(): all ordered pairs, as the Execution evaluates it (receiver = the earlier or the later event)
  json dep = json::array(), hb = json::array(), races = json::array();
  for (unsigned i = 0; i < n; i++) {
    std::string drow(n, '0'), hrow(n, '0');
    for (unsigned j = 0; j < n; j++) {
      if (i != j && E.get_transition_for_handle(i)->dispatch_depends(E.get_transition_for_handle(j)))
        drow[j] = '1';
      if (E.happens_before(i, j))
        hrow[j] = '1';
    }
    dep.push_back(drow);
    hb.push_back(hrow);
    json r = json::array();
    for (auto e : E.get_racing_events_of(i))
      r.push_back(e);
    races.push_back(r);
  }
  out["dep"]   = dep;
  out["hb"]    = hb;
  out["races"] = races;
  // happens_before_process(e, p, limit) for every event, every actor of the execution (+ one that never acts)
  json hbp = json::array();
  if (op.size() > 1) {
    std::vector<int> ps;
    for (unsigned i = 0; i < n; i++)
      if (std::find(ps.begin(), ps.end(), E.get_actor_with_handle(i).c_val()) == ps.end())
        ps.push_back(E.get_actor_with_handle(i).c_val());
    ps.push_back(29);
    for (const auto& lj : op.at(1)) {
      unsigned limit = std::min<unsigned>(lj.get<unsigned>(), n);
      for (int p : ps) {
        std::string row(n, '0');
        for (unsigned e = 0; e < n; e++)
          if (E.happens_before_process(e, Aid(p), limit))
            row[e] = '1';
        hbp.push_back(json::array({limit, p, row}));
      }
    }
  }
  out["hbp"] = hbp;
  if (op.size() > 2 && op.at(2).get<int>() != 0) {
    rev_bad_args = 0;
    json rr      = json::array();
    for (unsigned i = 0; i < n; i++) {
      json r = json::array();
      for (auto e : E.get_reversible_races_of(i))
        r.push_back(e);
      rr.push_back(r);
    }
    out["revraces"]     = rr;
    out["rev_bad_args"] = rev_bad_args;
    json kinds          = json::array();
    for (unsigned i = 0; i < n; i++) {
      const auto* st = dynamic_cast<const SynTransition*>(E.get_transition_for_handle(i));
      kinds.push_back(st ? st->kind : -1);
    }
    out["kind"] = kinds;
  }
  printf("%s\n", out.dump().c_str());
}

static int run_exec(const json& c)
{
  auto E    = std::make_unique<odpor::Execution>();
  int opidx = -1;
  for (const auto& op : c.at("ops")) {
    opidx++;
    const std::string what = op.at(0).get<std::string>();
    if (what == "push") {
      bool restoring = op.size() > 2 && op.at(2).get<int>() != 0;
      E->push_transition(mk(op.at(1)), restoring);
    } else if (what == "pushmany" || what == "ctor") {
      odpor::PartialExecution w;
      for (const auto& s : op.at(1))
        w.push_back(mk(s));
      if (what == "ctor")
        E = std::make_unique<odpor::Execution>(w);
      else
        E->push_partial_execution(w);
    } else if (what == "pop") {
      if (not E->empty())
        E->remove_last_event();
    } else if (what == "copy") {
      auto E2 = std::make_unique<odpor::Execution>(*E);
      E       = std::move(E2);
    } else if (what == "prefix") {
      unsigned k = std::min<unsigned>(op.at(1).get<unsigned>(), E->size());
      auto E2    = std::make_unique<odpor::Execution>(E->get_prefix_before(k));
      E          = std::move(E2);
    } else if (what == "dump") {
      dump_exec(*E, opidx, op);
    } else
      throw std::invalid_argument("unknown op " + what);
  }
  printf("{\"done\":true}\n");
  return 0;
}

/* ------------------------------------------------------------------------------------------------------------------ */

static int run_unf(const json& c);

static int run_case(const std::string& text)
{
  if (chan == nullptr)
    chan = new mc::Channel();
  int rc = 0;
  try {
    json c = json::parse(text);
    load_syn(c);
    const std::string mode = c.at("mode").get<std::string>();
    if (mode == "exec")
      rc = run_exec(c);
    else if (mode == "unf")
      rc = run_unf(c);
    else
      throw std::invalid_argument("unknown mode " + mode);
  } catch (const std::exception& e) {
    json out;
    out["exc"] = std::string(typeid(e).name()) + ": " + e.what();
    printf("%s\n", out.dump().c_str());
    rc = 3;
  }
  for (auto& t : all_transitions)
    free_subtransitions(t.get());
  all_transitions.clear();
  chan->buffer_out_size_ = 0;
  chan->buffer_in_size_  = 0;
  chan->buffer_in_next_  = 0;
  fflush(stdout);
  return rc;
}

static int run_unf(const json&)
{
  throw std::invalid_argument("mode unf: not yet");
}

int main(int argc, char** argv)
{
  xbt_log_control_set("root.thres:critical");
  return vf_main(argc, argv, run_case, nullptr, true);
}
