// vf-driver: kind=cxx flags=-std=gnu++20
/* mcds_driver: exercises the model checker's data structures (no Engine, no application, in-process server).
 *
 * usage: mcds_driver <case.json> | --serve <errfile>   (see forkserver.hpp; inproc=true: cases run in the server itself)
 *
 * case {"mode":"exec", "syn":{"dep":[[0/1..]..], "real":[mask..], "rev":[[0/1..]..]}, "ops":[op..]}
 *   builds an odpor::Execution from transition specs and dumps what it computes (C42).
 *     op ["push", tspec, restoring?]   Execution::push_transition
 *        ["pushmany", [tspec..]]       Execution::push_partial_execution
 *        ["ctor", [tspec..]]           E = Execution(PartialExecution)
 *        ["pop"]                       Execution::remove_last_event
 *        ["copy"]                      E = copy of E (the original is destroyed)
 *        ["prefix", k]                 E = E.get_prefix_before(k)
 *        ["dump", [limits..], rev?]    prints one JSON line (see dump_exec)
 * case {"mode":"unf", ...}  builds UnfoldingEvents / EventSets / Configurations and dumps what they compute (C44), see run_unf.
 *
 * tspec (a JSON array; first element = class):
 *   ["syn", aid, kind]                                          synthetic Transition of type UNKNOWN; depends() = generated matrix
 *   ["mutex", TYPE, aid, mutex, owner]   ["sem", TYPE, aid, sem, granted, capacity]   ["barrier", TYPE, aid, bar]
 *   ["condvar", TYPE, aid, cv, mutex, granted, timeout]
 *   ["send"|"recv", aid, comm, mbox, tag, via]   ["iprobe", aid, is_sender, mbox, tag, via]
 *   ["test", aid, comm, sender, receiver, mbox, via]   ["wait", aid, timeout, comm, sender, receiver, mbox, via]
 *   ["join", aid, target, timeout]   ["exit", aid]   ["sleep", aid]   ["create", aid, child]   ["random", aid, min, max]
 *   ["testany", aid, times_considered, [[comm, sender, receiver, mbox]..]]
 *   ["waitany", aid, times_considered, [[timeout, comm, sender, receiver, mbox]..]]
 *   via: 0 = direct constructor, 1 = deserialize_transition() from a mc::Channel filled with the packed fields.
 * No oracle here: the driver only executes and reports.  Built with -fno-access-control.
 */
#include "src/mc/explo/odpor/Execution.hpp"
#include "src/mc/explo/udpor/Configuration.hpp"
#include "src/mc/explo/udpor/EventSet.hpp"
#include "src/mc/explo/udpor/History.hpp"
#include "src/mc/explo/udpor/Unfolding.hpp"
#include "src/mc/explo/udpor/UnfoldingEvent.hpp"
#include "src/mc/explo/udpor/maximal_subsets_iterator.hpp"
#include "src/mc/remote/Channel.hpp"
#include "src/mc/transition/Transition.hpp"
#include "src/mc/transition/TransitionActor.hpp"
#include "src/mc/transition/TransitionAny.hpp"
#include "src/mc/transition/TransitionComm.hpp"
#include "src/mc/transition/TransitionRandom.hpp"
#include "src/mc/transition/TransitionSynchro.hpp"
#include "src/xbt/utils/iter/LazyKSubsets.hpp"
#include "src/xbt/utils/iter/LazyPowerset.hpp"
#include "src/xbt/utils/iter/variable_for_loop.hpp"
#include "xbt/log.h"

#include "forkserver.hpp"

#include <cstdio>
#include <memory>
#include <numeric>
#include <optional>
#include <unordered_map>
#include <nlohmann/json.hpp>
#include <string>
#include <vector>

namespace mc    = simgrid::mc;
namespace odpor = simgrid::mc::odpor;
namespace udpor = simgrid::mc::udpor;
using json      = nlohmann::json;
using mc::Aid;
using mc::Transition;
using mc::TransitionPtr;
using Type = mc::Transition::Type;

/* ------------------------------------------------------------------------------------------------------------------ */
/* Synthetic transitions: type UNKNOWN, dependency given by generated tables                                           */

struct SynTables {
  std::vector<std::vector<int>> dep; // kinds x kinds, symmetric (generated)
  std::vector<uint64_t> real;        // per kind: bit i set <=> dependent with real transitions of Type i
  std::vector<std::vector<int>> rev; // kinds x kinds, reversible_race(this kind, other kind), not symmetric
};
static SynTables syn;
static long rev_bad_args = 0; // reversible_race() called with handles that do not designate (this, other)

struct SynTransition final : public Transition {
  int kind;
  SynTransition(Aid issuer, int kind) : Transition(Type::UNKNOWN, issuer, 0), kind(kind) {}
  bool depends(const Transition* other) const override
  {
    if (aid_ == other->aid_)
      return true;
    if (other->type_ == Type::UNKNOWN) {
      const auto* o = dynamic_cast<const SynTransition*>(other);
      return o != nullptr && syn.dep.at(kind).at(o->kind) != 0;
    }
    return (syn.real.at(kind) >> static_cast<unsigned>(other->type_)) & 1u;
  }
  bool reversible_race(const Transition* other, const odpor::Execution* exec, mc::EventHandle this_handle,
                       mc::EventHandle other_handle) const override
  {
    if (exec == nullptr || this_handle >= exec->size() || other_handle >= exec->size() ||
        exec->get_transition_for_handle(this_handle) != this || exec->get_transition_for_handle(other_handle) != other)
      rev_bad_args++;
    const auto* o = dynamic_cast<const SynTransition*>(other);
    return o != nullptr && syn.rev.at(kind).at(o->kind) != 0;
  }
  std::string to_string(bool) const override { return "Syn(" + std::to_string(kind) + ")"; }
  std::string dot_string() const override { return ""; }
};

/* ------------------------------------------------------------------------------------------------------------------ */
/* Real transitions                                                                                                     */

static mc::Channel* chan = nullptr; // never connected: we pack into its output buffer and re-inject into its input

static Type type_by_name(const std::string& name)
{
  for (int i = 0; i <= static_cast<int>(Type::UNKNOWN); i++)
    if (name == Transition::to_c_str(static_cast<Type>(i)))
      return static_cast<Type>(i);
  throw std::invalid_argument("unknown transition type " + name);
}

static Aid aid_of(const json& j)
{
  long v = j.get<long>();
  return v < 0 ? Aid::INVALID : Aid(static_cast<int>(v));
}

static Transition* from_channel(Aid issuer, int times_considered)
{
  // what was packed becomes what is received
  xbt_assert(chan->buffer_in_size_ == 0, "leftover bytes in the channel");
  chan->reinject(chan->buffer_out_, chan->buffer_out_size_);
  chan->buffer_out_size_ = 0;
  Transition* t          = mc::deserialize_transition(issuer, times_considered, *chan);
  if (chan->buffer_in_size_ != 0) {
    chan->buffer_in_size_ = 0;
    chan->buffer_in_next_ = 0;
    delete t;
    throw std::runtime_error("deserialize_transition left unread bytes");
  }
  return t;
}

static void pack_test(const json& s) // [comm, sender, receiver, mbox]
{
  chan->pack<Type>(Type::COMM_TEST);
  chan->pack<unsigned>(s.at(0).get<unsigned>());
  chan->pack<aid_t>(s.at(1).get<long>());
  chan->pack<aid_t>(s.at(2).get<long>());
  chan->pack<unsigned>(s.at(3).get<unsigned>());
  chan->pack<std::string>(std::string("loc"));
}
static void pack_wait(const json& s) // [timeout, comm, sender, receiver, mbox]
{
  chan->pack<Type>(Type::COMM_WAIT);
  chan->pack<bool>(s.at(0).get<int>() != 0);
  chan->pack<unsigned>(s.at(1).get<unsigned>());
  chan->pack<aid_t>(s.at(2).get<long>());
  chan->pack<aid_t>(s.at(3).get<long>());
  chan->pack<unsigned>(s.at(4).get<unsigned>());
  chan->pack<std::string>(std::string("loc"));
}

static TransitionPtr make_transition(const json& s)
{
  const std::string cls = s.at(0).get<std::string>();
  chan->buffer_out_size_ = 0;
  if (cls == "syn")
    return TransitionPtr(new SynTransition(aid_of(s.at(1)), s.at(2).get<int>()));
  if (cls == "mutex") {
    Type t = type_by_name(s.at(1).get<std::string>());
    chan->pack<Type>(t);
    chan->pack<unsigned>(s.at(3).get<unsigned>());
    chan->pack<aid_t>(s.at(4).get<long>());
    return TransitionPtr(from_channel(aid_of(s.at(2)), 0));
  }
  if (cls == "sem") {
    Type t = type_by_name(s.at(1).get<std::string>());
    chan->pack<Type>(t);
    chan->pack<unsigned>(s.at(3).get<unsigned>());
    chan->pack<bool>(s.at(4).get<int>() != 0);
    chan->pack<int>(s.at(5).get<int>());
    return TransitionPtr(from_channel(aid_of(s.at(2)), 0));
  }
  if (cls == "barrier") {
    Type t = type_by_name(s.at(1).get<std::string>());
    chan->pack<Type>(t);
    chan->pack<unsigned>(s.at(3).get<unsigned>());
    return TransitionPtr(from_channel(aid_of(s.at(2)), 0));
  }
  if (cls == "condvar") {
    Type t = type_by_name(s.at(1).get<std::string>());
    chan->pack<Type>(t);
    chan->pack<unsigned>(s.at(3).get<unsigned>());
    if (t == Type::CONDVAR_ASYNC_LOCK || t == Type::CONDVAR_WAIT)
      chan->pack<unsigned>(s.at(4).get<unsigned>());
    if (t == Type::CONDVAR_WAIT) {
      chan->pack<bool>(s.at(5).get<int>() != 0);
      chan->pack<bool>(s.at(6).get<int>() != 0);
    }
    return TransitionPtr(from_channel(aid_of(s.at(2)), 0));
  }
  if (cls == "send" || cls == "recv") {
    Aid a         = aid_of(s.at(1));
    unsigned comm = s.at(2).get<unsigned>(), mbox = s.at(3).get<unsigned>();
    int tag = s.at(4).get<int>();
    if (s.at(5).get<int>() == 0) {
      if (cls == "send")
        return TransitionPtr(new mc::CommSendTransition(a, 0, comm, mbox, tag));
      return TransitionPtr(new mc::CommRecvTransition(a, 0, comm, mbox, tag));
    }
    chan->pack<Type>(cls == "send" ? Type::COMM_ASYNC_SEND : Type::COMM_ASYNC_RECV);
    chan->pack<unsigned>(comm);
    chan->pack<unsigned>(mbox);
    chan->pack<int>(tag);
    chan->pack<std::string>(std::string("loc"));
    return TransitionPtr(from_channel(a, 0));
  }
  if (cls == "iprobe") {
    Aid a = aid_of(s.at(1));
    if (s.at(5).get<int>() == 0)
      return TransitionPtr(
          new mc::CommIprobeTransition(a, 0, s.at(2).get<int>() != 0, s.at(3).get<unsigned>(), s.at(4).get<int>()));
    chan->pack<Type>(Type::COMM_IPROBE);
    chan->pack<unsigned>(s.at(3).get<unsigned>());
    chan->pack<bool>(s.at(2).get<int>() != 0);
    chan->pack<int>(s.at(4).get<int>());
    return TransitionPtr(from_channel(a, 0));
  }
  if (cls == "test") {
    Aid a = aid_of(s.at(1));
    if (s.at(6).get<int>() == 0)
      return TransitionPtr(new mc::CommTestTransition(a, 0, s.at(2).get<unsigned>(), aid_of(s.at(3)), aid_of(s.at(4)),
                                                      s.at(5).get<unsigned>()));
    pack_test(json::array({s.at(2), s.at(3), s.at(4), s.at(5)}));
    return TransitionPtr(from_channel(a, 0));
  }
  if (cls == "wait") {
    Aid a = aid_of(s.at(1));
    if (s.at(7).get<int>() == 0)
      return TransitionPtr(new mc::CommWaitTransition(a, 0, s.at(2).get<int>() != 0, s.at(3).get<unsigned>(),
                                                      aid_of(s.at(4)), aid_of(s.at(5)), s.at(6).get<unsigned>()));
    pack_wait(json::array({s.at(2), s.at(3), s.at(4), s.at(5), s.at(6)}));
    return TransitionPtr(from_channel(a, 0));
  }
  if (cls == "join") {
    chan->pack<Type>(Type::ACTOR_JOIN);
    chan->pack<aid_t>(s.at(2).get<long>());
    chan->pack<bool>(s.at(3).get<int>() != 0);
    return TransitionPtr(from_channel(aid_of(s.at(1)), 0));
  }
  if (cls == "exit" || cls == "sleep") {
    chan->pack<Type>(cls == "exit" ? Type::ACTOR_EXIT : Type::ACTOR_SLEEP);
    return TransitionPtr(from_channel(aid_of(s.at(1)), 0));
  }
  if (cls == "create") {
    chan->pack<Type>(Type::ACTOR_CREATE);
    chan->pack<aid_t>(s.at(2).get<long>());
    return TransitionPtr(from_channel(aid_of(s.at(1)), 0));
  }
  if (cls == "random") {
    chan->pack<Type>(Type::RANDOM);
    chan->pack<int>(s.at(2).get<int>());
    chan->pack<int>(s.at(3).get<int>());
    return TransitionPtr(from_channel(aid_of(s.at(1)), 0));
  }
  if (cls == "testany" || cls == "waitany") {
    chan->pack<Type>(cls == "testany" ? Type::TESTANY : Type::WAITANY);
    chan->pack<unsigned>(static_cast<unsigned>(s.at(3).size()));
    for (const auto& sub : s.at(3))
      if (cls == "testany")
        pack_test(sub);
      else
        pack_wait(sub);
    chan->pack<std::string>(std::string("loc"));
    return TransitionPtr(from_channel(aid_of(s.at(1)), s.at(2).get<int>()));
  }
  throw std::invalid_argument("unknown transition class " + cls);
}

/* TestAny/WaitAny do not free the sub-transitions they deserialize; do it for them so that long campaigns do not grow */
static void free_subtransitions(Transition* t)
{
  if (t->type_ == Type::TESTANY) {
    for (auto* sub : static_cast<mc::TestAnyTransition*>(t)->transitions_)
      delete sub;
    static_cast<mc::TestAnyTransition*>(t)->transitions_.clear();
  } else if (t->type_ == Type::WAITANY) {
    for (auto* sub : static_cast<mc::WaitAnyTransition*>(t)->transitions_)
      delete sub;
    static_cast<mc::WaitAnyTransition*>(t)->transitions_.clear();
  }
}

static void load_syn(const json& c)
{
  syn = SynTables();
  if (not c.contains("syn"))
    return;
  const json& s = c.at("syn");
  syn.dep       = s.at("dep").get<std::vector<std::vector<int>>>();
  syn.real      = s.at("real").get<std::vector<uint64_t>>();
  if (s.contains("rev"))
    syn.rev = s.at("rev").get<std::vector<std::vector<int>>>();
  else
    syn.rev = syn.dep;
}

/* ------------------------------------------------------------------------------------------------------------------ */
/* mode exec (C42)                                                                                                      */

static std::vector<TransitionPtr> all_transitions; // everything created by the case, released at its end

static TransitionPtr mk(const json& spec)
{
  TransitionPtr t = make_transition(spec);
  all_transitions.push_back(t);
  return t;
}

static void dump_exec(const odpor::Execution& E, int opidx, const json& op)
{
  const unsigned n = E.size();
  json out;
  out["op"] = opidx;
  out["n"]  = n;
  json aids = json::array();
  json typs = json::array();
  for (unsigned i = 0; i < n; i++) {
    aids.push_back(E.get_actor_with_handle(i).c_val());
    typs.push_back(static_cast<int>(E.get_transition_for_handle(i)->type_));
  }
  out["aid"]  = aids;
  out["type"] = typs;
  // depends(): all ordered pairs, as the Execution evaluates it (receiver = the earlier or the later event)
  json dep = json::array(), hb = json::array(), races = json::array();
  for (unsigned i = 0; i < n; i++) {
    std::string drow(n, '0'), hrow(n, '0');
    for (unsigned j = 0; j < n; j++) {
      if (i != j && E.get_transition_for_handle(i)->dispatch_depends(E.get_transition_for_handle(j)))
        drow[j] = '1';
      if (E.happens_before(i, j))
        hrow[j] = '1';
    }
    dep.push_back(drow);
    hb.push_back(hrow);
    json r = json::array();
    for (auto e : E.get_racing_events_of(i))
      r.push_back(e);
    races.push_back(r);
  }
  out["dep"]   = dep;
  out["hb"]    = hb;
  out["races"] = races;
  // happens_before_process(e, p, limit) for every event, every actor of the execution (+ one that never acts)
  json hbp = json::array();
  if (op.size() > 1) {
    std::vector<int> ps;
    for (unsigned i = 0; i < n; i++)
      if (std::find(ps.begin(), ps.end(), E.get_actor_with_handle(i).c_val()) == ps.end())
        ps.push_back(E.get_actor_with_handle(i).c_val());
    ps.push_back(29);
    for (const auto& lj : op.at(1)) {
      unsigned limit = std::min<unsigned>(lj.get<unsigned>(), n);
      for (int p : ps) {
        std::string row(n, '0');
        for (unsigned e = 0; e < n; e++)
          if (E.happens_before_process(e, Aid(p), limit))
            row[e] = '1';
        hbp.push_back(json::array({limit, p, row}));
      }
    }
  }
  out["hbp"] = hbp;
  if (op.size() > 2 && op.at(2).get<int>() != 0) {
    rev_bad_args = 0;
    json rr      = json::array();
    for (unsigned i = 0; i < n; i++) {
      json r = json::array();
      for (auto e : E.get_reversible_races_of(i))
        r.push_back(e);
      rr.push_back(r);
    }
    out["revraces"]     = rr;
    out["rev_bad_args"] = rev_bad_args;
    json kinds          = json::array();
    for (unsigned i = 0; i < n; i++) {
      const auto* st = dynamic_cast<const SynTransition*>(E.get_transition_for_handle(i));
      kinds.push_back(st ? st->kind : -1);
    }
    out["kind"] = kinds;
  }
  printf("%s\n", out.dump().c_str());
}

static int run_exec(const json& c)
{
  auto E    = std::make_unique<odpor::Execution>();
  int opidx = -1;
  for (const auto& op : c.at("ops")) {
    opidx++;
    const std::string what = op.at(0).get<std::string>();
    if (what == "push") {
      bool restoring = op.size() > 2 && op.at(2).get<int>() != 0;
      E->push_transition(mk(op.at(1)), restoring);
    } else if (what == "pushmany" || what == "ctor") {
      odpor::PartialExecution w;
      for (const auto& s : op.at(1))
        w.push_back(mk(s));
      if (what == "ctor")
        E = std::make_unique<odpor::Execution>(w);
      else
        E->push_partial_execution(w);
    } else if (what == "pop") {
      if (not E->empty())
        E->remove_last_event();
    } else if (what == "copy") {
      auto E2 = std::make_unique<odpor::Execution>(*E);
      E       = std::move(E2);
    } else if (what == "prefix") {
      unsigned k = std::min<unsigned>(op.at(1).get<unsigned>(), E->size());
      auto E2    = std::make_unique<odpor::Execution>(E->get_prefix_before(k));
      E          = std::move(E2);
    } else if (what == "dump") {
      dump_exec(*E, opidx, op);
    } else
      throw std::invalid_argument("unknown op " + what);
  }
  printf("{\"done\":true}\n");
  return 0;
}

/* ------------------------------------------------------------------------------------------------------------------ */

static int run_unf(const json& c);
static int run_deps(const json& c);

static int run_case(const std::string& text)
{
  if (chan == nullptr)
    chan = new mc::Channel();
  int rc = 0;
  try {
    json c = json::parse(text);
    load_syn(c);
    const std::string mode = c.at("mode").get<std::string>();
    if (mode == "exec")
      rc = run_exec(c);
    else if (mode == "unf")
      rc = run_unf(c);
    else if (mode == "deps")
      rc = run_deps(c);
    else
      throw std::invalid_argument("unknown mode " + mode);
  } catch (const std::exception& e) {
    json out;
    out["exc"] = std::string(typeid(e).name()) + ": " + e.what();
    printf("%s\n", out.dump().c_str());
    rc = 3;
  }
  for (auto& t : all_transitions)
    free_subtransitions(t.get());
  all_transitions.clear();
  chan->buffer_out_size_ = 0;
  chan->buffer_in_size_  = 0;
  chan->buffer_in_next_  = 0;
  fflush(stdout);
  return rc;
}

/* ------------------------------------------------------------------------------------------------------------------ */
/* mode deps: pairwise dispatch_depends() of a list of transitions (used by the generators to build valid unfoldings)    */

static int run_deps(const json& c)
{
  std::vector<TransitionPtr> ts;
  for (const auto& s : c.at("ts"))
    ts.push_back(mk(s));
  json rows = json::array();
  for (size_t i = 0; i < ts.size(); i++) {
    std::string row(ts.size(), '0');
    for (size_t j = 0; j < ts.size(); j++)
      if (ts[i]->dispatch_depends(ts[j].get()))
        row[j] = '1';
    rows.push_back(row);
  }
  json out;
  out["dep"] = rows;
  printf("%s\n{\"done\":true}\n", out.dump().c_str());
  return 0;
}

/* ------------------------------------------------------------------------------------------------------------------ */
/* mode unf (C44)
 * case {"mode":"unf","syn":..., "events":[[tspec,[cause index..]]..], "finished":[event index..]?, "q":[query..]}
 *   events are created in order with Unfolding::discover_event(EventSet(causes), transition); an event index designates
 *   the handle that call returned (an earlier event when the unfolding found an equivalent one).
 * First output line: per-event and pairwise facts; then one line per query ({"q":i, ...}):
 *   ["set", S]               EventSet(S) and History(S) predicates / derived sets
 *   ["allsets", n]           the same predicates for every subset of the first n events, as strings indexed by the subset mask
 *   ["cfg", S, T]            Configuration(EventSet(S)) (may throw), and what it computes; History(T) against it
 *   ["add", [e..]]           Configuration() then add_event(e) in order
 *   ["alt", C, D, k]         Configuration(C).compute_k_partial_alternative_to(D, U, k)
 *   ["algebra", A, B, e]     union / difference / intersection / inclusion... of EventSet(A), EventSet(B) and event e
 *   ["msi", S, F|null, k|null, viaconfig]  everything maximal_subsets_iterator yields, in order
 *   ["ksub", n, k] ["pow", n] ["vfl", [sizes..]]   the generic subset enumerators on integer sequences
 */

struct UnfCtx {
  std::unique_ptr<udpor::Unfolding> U;
  std::vector<const udpor::UnfoldingEvent*> ev;
  std::unordered_map<const udpor::UnfoldingEvent*, int> idx; // handle -> first input index that produced it
};

static udpor::EventSet set_of(const UnfCtx& x, const json& l)
{
  udpor::EventSet s;
  for (const auto& i : l)
    s.insert(x.ev.at(i.get<size_t>()));
  return s;
}
static int index_of(const UnfCtx& x, const udpor::UnfoldingEvent* e)
{
  auto it = x.idx.find(e);
  return it == x.idx.end() ? -1 : it->second;
}
template <class Range> static json list_of(const UnfCtx& x, const Range& s, bool sorted = true)
{
  std::vector<int> v;
  for (const auto* e : s)
    v.push_back(index_of(x, e));
  if (sorted)
    std::sort(v.begin(), v.end());
  return json(v);
}

static json set_facts(const UnfCtx& x, const udpor::EventSet& s)
{
  json o;
  o["valid"]  = s.is_valid_configuration();
  o["max"]    = s.is_maximal();
  o["cfree"]  = s.is_conflict_free();
  o["lms"]    = list_of(x, s.get_largest_maximal_subset());
  o["lc"]     = list_of(x, s.get_local_config());
  udpor::History h(s);
  o["hall"] = list_of(x, h.get_all_events());
  o["hmax"] = list_of(x, h.get_all_maximal_events());
  std::string hc(x.ev.size(), '0'), ct(x.ev.size(), '0'), cany(x.ev.size(), '0');
  for (size_t i = 0; i < x.ev.size(); i++) {
    if (h.contains(x.ev[i]))
      hc[i] = '1';
    if (s.contains(x.ev[i]))
      ct[i] = '1';
    if (x.ev[i]->conflicts_with_any(s))
      cany[i] = '1';
  }
  o["hcontains"] = hc;
  o["contains"]  = ct;
  o["cany"]      = cany;
  o["chist"]     = s.contains(h);
  std::vector<int> iter; // what iterating over the History yields (an event may not appear twice)
  for (auto it = h.begin(); it != h.end(); ++it)
    iter.push_back(index_of(x, *it));
  o["hiter"] = iter;
  o["topo"]  = list_of(x, s.get_topological_ordering(), false);
  o["rtopo"] = list_of(x, s.get_topological_ordering_of_reverse_graph(), false);
  o["size"]  = s.size();
  return o;
}

static json cfg_state(const UnfCtx& x, const udpor::Configuration& C, const std::vector<int>& actors)
{
  json o;
  o["events"] = list_of(x, C.get_events());
  json lat    = json::array();
  for (int a : actors) {
    auto le = C.get_latest_event_of(Aid(a));
    auto la = C.get_latest_action_of(Aid(a));
    int li  = le.has_value() ? index_of(x, le.value()) : -1;
    bool ok = le.has_value() == la.has_value() && (not le.has_value() || la.value() == le.value()->get_transition());
    lat.push_back(json::array({a, li, ok}));
  }
  o["latest"] = lat;
  o["newest"] = C.get_latest_event() == nullptr ? -1 : index_of(x, C.get_latest_event());
  return o;
}

static int run_unf(const json& c)
{
  UnfCtx x;
  x.U = std::make_unique<udpor::Unfolding>();
  std::vector<int> actors;
  json evl = json::array();
  for (const auto& e : c.at("events")) {
    TransitionPtr t = mk(e.at(0));
    udpor::EventSet causes = set_of(x, e.at(1));
    const auto* h          = x.U->discover_event(std::move(causes), t);
    if (x.idx.find(h) == x.idx.end())
      x.idx[h] = static_cast<int>(x.ev.size());
    x.ev.push_back(h);
    evl.push_back(x.idx[h]);
    if (std::find(actors.begin(), actors.end(), h->get_actor().c_val()) == actors.end())
      actors.push_back(h->get_actor().c_val());
  }
  actors.push_back(29);
  if (c.contains("finished"))
    x.U->mark_finished(set_of(x, c.at("finished")));
  const size_t n = x.ev.size();
  {
    json o;
    o["n"]     = n;
    o["ev"]    = evl;
    o["usize"] = x.U->size();
    o["uall"]  = list_of(x, *x.U);
    json dep = json::array(), inh = json::array(), rel = json::array(), conf = json::array(), iconf = json::array();
    json hist = json::array(), lc = json::array(), uic = json::array(), act = json::array(), imm = json::array();
    for (size_t i = 0; i < n; i++) {
      std::string d(n, '0'), h(n, '0'), r(n, '0'), cf(n, '0'), ic(n, '0');
      for (size_t j = 0; j < n; j++) {
        if (x.ev[i]->is_dependent_with(x.ev[j]))
          d[j] = '1';
        if (x.ev[i]->in_history_of(x.ev[j]))
          h[j] = '1';
        if (x.ev[i]->related_to(x.ev[j]))
          r[j] = '1';
        if (x.ev[i]->conflicts_with(x.ev[j]))
          cf[j] = '1';
        if (x.ev[i]->immediately_conflicts_with(x.ev[j]))
          ic[j] = '1';
      }
      dep.push_back(d);
      inh.push_back(h);
      rel.push_back(r);
      conf.push_back(cf);
      iconf.push_back(ic);
      hist.push_back(list_of(x, x.ev[i]->get_history()));
      lc.push_back(list_of(x, x.ev[i]->get_local_config()));
      uic.push_back(list_of(x, x.U->get_immediate_conflicts_of(x.ev[i])));
      imm.push_back(list_of(x, x.ev[i]->get_immediate_causes()));
      act.push_back(x.ev[i]->get_actor().c_val());
    }
    o["dep"]     = dep;
    o["inhist"]  = inh;
    o["related"] = rel;
    o["conf"]    = conf;
    o["iconf"]   = iconf;
    o["hist"]    = hist;
    o["lc"]      = lc;
    o["uic"]     = uic;
    o["imm"]     = imm;
    o["actor"]   = act;
    printf("%s\n", o.dump().c_str());
  }
  int qi = -1;
  for (const auto& q : c.at("q")) {
    qi++;
    const std::string what = q.at(0).get<std::string>();
    json o;
    o["q"] = qi;
    try {
      if (what == "set") {
        o["r"] = set_facts(x, set_of(x, q.at(1)));
      } else if (what == "allsets") {
        size_t m = std::min<size_t>(q.at(1).get<size_t>(), n);
        std::string valid(1u << m, '0'), mx(1u << m, '0'), cfree(1u << m, '0');
        json lms = json::array(), hall = json::array();
        for (unsigned mask = 0; mask < (1u << m); mask++) {
          udpor::EventSet s;
          for (size_t i = 0; i < m; i++)
            if (mask >> i & 1)
              s.insert(x.ev[i]);
          if (s.is_valid_configuration())
            valid[mask] = '1';
          if (s.is_maximal())
            mx[mask] = '1';
          if (s.is_conflict_free())
            cfree[mask] = '1';
          unsigned l = 0, ha = 0;
          for (const auto* e : s.get_largest_maximal_subset())
            l |= 1u << index_of(x, e);
          for (const auto* e : udpor::History(s).get_all_events())
            ha |= 1u << index_of(x, e);
          lms.push_back(l);
          hall.push_back(ha);
        }
        o["valid"] = valid;
        o["max"]   = mx;
        o["cfree"] = cfree;
        o["lms"]   = lms;
        o["hall"]  = hall;
      } else if (what == "cfg") {
        udpor::EventSet s = set_of(x, q.at(1));
        std::unique_ptr<udpor::Configuration> C;
        try {
          C = std::make_unique<udpor::Configuration>(s);
        } catch (const std::invalid_argument& e) {
          o["throws"] = e.what();
        }
        if (C) {
          o["state"] = cfg_state(x, *C, actors);
          o["mre"]   = list_of(x, C->get_minimally_reproducible_events());
          o["topo"]  = list_of(x, C->get_topologically_sorted_events(), false);
          o["rtopo"] = list_of(x, C->get_topologically_sorted_events_of_reverse_graph(), false);
          std::string comp(n, '0'), cont(n, '0');
          for (size_t i = 0; i < n; i++) {
            if (C->is_compatible_with(x.ev[i]))
              comp[i] = '1';
            if (C->contains(x.ev[i]))
              cont[i] = '1';
          }
          o["compat"]   = comp;
          o["contains"] = cont;
          udpor::EventSet t = set_of(x, q.at(2));
          udpor::History h(t);
          o["hdiff"]   = list_of(x, h.get_event_diff_with(*C));
          o["hcompat"] = C->is_compatible_with(h);
          o["csub"]    = C->contains(t);
          // the other constructors
          if (t.size() == 1) {
            udpor::Configuration C1(*t.begin());
            o["c_event"] = list_of(x, C1.get_events());
          }
          try {
            udpor::Configuration C2(h);
            o["c_hist"] = list_of(x, C2.get_events());
          } catch (const std::invalid_argument& e) {
            o["c_hist_throws"] = e.what();
          }
        }
      } else if (what == "add") {
        udpor::Configuration C;
        json steps = json::array();
        for (const auto& ei : q.at(1)) {
          try {
            C.add_event(x.ev.at(ei.get<size_t>()));
            steps.push_back(1);
          } catch (const std::invalid_argument& e) {
            steps.push_back(0);
            break; // the configuration is no longer meaningful
          }
        }
        o["steps"] = steps;
        o["state"] = cfg_state(x, C, actors);
      } else if (what == "algebra") {
        const udpor::EventSet A = set_of(x, q.at(1));
        const udpor::EventSet B = set_of(x, q.at(2));
        const udpor::UnfoldingEvent* e = x.ev.at(q.at(3).get<size_t>());
        o["union"]    = list_of(x, A.make_union(B));
        o["union_e"]  = list_of(x, A.make_union(e));
        o["minus"]    = list_of(x, A.subtracting(B));
        o["minus_e"]  = list_of(x, A.subtracting(e));
        o["inter"]    = list_of(x, A.make_intersection(B));
        o["intersects"] = A.intersects(B);
        o["subset"]   = A.is_subset_of(B);
        o["eq"]       = (A == B);
        o["ne"]       = (A != B);
        o["empty"]    = A.empty();
        o["size"]     = A.size();
        o["equiv"]    = A.contains_equivalent_to(e);
        o["hinter"]   = A.intersects(udpor::History(B));
        {
          udpor::EventSet m = A;
          m.form_union(B);
          o["m_union"] = list_of(x, m);
          m = A;
          m.subtract(B);
          o["m_minus"] = list_of(x, m);
          m = A;
          m.insert(e);
          m.insert(e);
          o["m_insert"] = list_of(x, m);
          m = A;
          m.remove(e);
          m.remove(e);
          o["m_remove"] = list_of(x, m);
          o["a_after"]  = list_of(x, A);
          udpor::EventSet c = A;
          o["vector"]   = list_of(x, std::move(c).move_into_vector());
        }
        // the Configuration flavours forward to the EventSet ones
        try {
          udpor::Configuration CB(udpor::History(B).get_all_events());
          o["c_union"] = list_of(x, A.make_union(CB));
          o["c_minus"] = list_of(x, A.subtracting(CB));
          udpor::EventSet m = A;
          m.form_union(CB);
          o["cm_union"] = list_of(x, m);
          m = A;
          m.subtract(CB);
          o["cm_minus"] = list_of(x, m);
          o["from_config"] = list_of(x, udpor::EventSet(CB));
        } catch (const std::invalid_argument&) {
          o["c_invalid"] = true;
        }
      } else if (what == "alt") {
        udpor::Configuration C(set_of(x, q.at(1)));
        udpor::EventSet D = set_of(x, q.at(2));
        try {
          auto J = C.compute_k_partial_alternative_to(D, *x.U, q.at(3).get<size_t>());
          if (J.has_value())
            o["J"] = list_of(x, J.value().get_events());
          else
            o["J"] = nullptr;
        } catch (const std::invalid_argument& e) {
          o["throws"] = e.what();
        }
      } else if (what == "msi") {
        udpor::EventSet s = set_of(x, q.at(1));
        std::optional<udpor::maximal_subsets_iterator::node_filter_function> filter = std::nullopt;
        udpor::EventSet f;
        if (not q.at(2).is_null()) {
          f      = set_of(x, q.at(2));
          filter = [&f](const udpor::UnfoldingEvent* e) { return f.contains(e); };
        }
        std::optional<size_t> k = std::nullopt;
        if (not q.at(3).is_null())
          k = q.at(3).get<size_t>();
        json sets  = json::array();
        long count = 0;
        long cap   = q.size() > 5 ? q.at(5).get<long>() : 200000;
        auto run   = [&](udpor::maximal_subsets_iterator first) {
          udpor::maximal_subsets_iterator last;
          for (; first != last; ++first) {
            sets.push_back(list_of(x, *first));
            if (++count > cap)
              break;
          }
        };
        if (q.at(4).get<int>() != 0) {
          udpor::Configuration C(s);
          o["rtopo"] = list_of(x, C.get_events().get_topological_ordering_of_reverse_graph(), false); // what the iterator walks
          run(udpor::maximal_subsets_iterator(C, filter, k));
        } else {
          o["rtopo"] = list_of(x, s.get_topological_ordering_of_reverse_graph(), false);
          run(udpor::maximal_subsets_iterator(s, filter, k));
        }
        o["sets"] = sets;
      } else if (what == "ksub") {
        std::vector<int> v(q.at(1).get<size_t>());
        std::iota(v.begin(), v.end(), 0);
        json sets = json::array();
        for (const auto& sub : simgrid::xbt::make_k_subsets_iter(q.at(2).get<unsigned>(), v)) {
          std::vector<int> one;
          for (auto it : sub)
            one.push_back(*it);
          sets.push_back(one);
          if (sets.size() > 300000)
            break;
        }
        o["sets"] = sets;
      } else if (what == "pow") {
        std::vector<int> v(q.at(1).get<size_t>());
        std::iota(v.begin(), v.end(), 0);
        json sets = json::array();
        for (const auto& sub : simgrid::xbt::make_powerset_iter(v)) {
          std::vector<int> one;
          for (auto it : sub)
            one.push_back(*it);
          sets.push_back(one);
          if (sets.size() > 300000)
            break;
        }
        o["sets"] = sets;
      } else if (what == "vfl") {
        std::vector<std::vector<int>> cols;
        int base = 0;
        for (const auto& sz : q.at(1)) {
          std::vector<int> col(sz.get<size_t>());
          std::iota(col.begin(), col.end(), base);
          base += 100;
          cols.push_back(col);
        }
        std::vector<std::reference_wrapper<const std::vector<int>>> refs;
        for (const auto& col : cols)
          refs.push_back(std::cref(col));
        json sets = json::array();
        auto it   = simgrid::xbt::variable_for_loop<const std::vector<int>>(refs);
        auto end  = simgrid::xbt::variable_for_loop<const std::vector<int>>();
        for (; it != end; ++it) {
          std::vector<int> one;
          for (auto p : *it)
            one.push_back(*p);
          sets.push_back(one);
          if (sets.size() > 300000)
            break;
        }
        o["sets"] = sets;
      } else
        throw std::runtime_error("unknown query " + what);
    } catch (const std::invalid_argument& e) {
      o["exc"] = std::string("invalid_argument: ") + e.what();
    }
    printf("%s\n", o.dump().c_str());
  }
  x.U.reset();
  printf("{\"done\":true}\n");
  return 0;
}

int main(int argc, char** argv)
{
  xbt_log_control_set("root.thres:critical");
  return vf_main(argc, argv, run_case, nullptr, true);
}
