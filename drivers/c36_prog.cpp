// vf-driver: kind=smpicxx extra=c36_vars_a.cpp,c36_vars_b.cpp
/* c36_prog: the MPI program of C36 (each rank has its own copy of the global variables).  Built with smpicxx into a shared
 * object; executed by smpi_main() (privatization mmap / dlopen / no) from drivers/c36_driver.cpp.
 *
 * usage (inside SMPI): c36_prog <script>
 * script: one operation per line, executed by every rank (SPMD); `step` = line number
 *   W <var> <mask> <val>   ranks whose bit is set in mask: variable var := val*64 + rank   (converted to the variable's type)
 *   a <arr> <idx> <mask> <val>   same for one element of an array;   q <arr> <idx>   print "Q <rank> <step> <arr> <idx> <value>"
 *   C                      print "V <rank> <step> <value of every variable>"
 *   B                      MPI_Barrier
 *   A                      MPI_Allreduce of the rank (stack buffers)
 *   R                      ring MPI_Sendrecv with heap buffers
 *   G                      ring MPI_Sendrecv whose send AND receive buffers are global arrays; prints "G <rank> <step> <rbuf[0]> <rbuf[63]> <status source>"
 *   X                      same with Isend/Irecv, smpi_execute_flops((rank+1)*1e5) in between, Waitall
 *   O <root>               MPI_Bcast of a global variable (id 19): root set it to 1000*step+root before
 *   E <k>                  smpi_execute_flops(k * (rank+1))     (ranks leave at different simulated dates)
 *   S <usec>               usleep(usec * (rank+1))              (SMPI turns it into a simulated sleep)
 *   P                      token chain 0 -> 1 -> ... -> np-1 (blocking Recv then Send)
 *   T                      Irecv from the left, Isend to the right, MPI_Test loop on both
 * Output: every rank collects its lines and prints them at the end ("D <rank>" last).
 */
#include <mpi.h>

#include <array>
#include <cstdio>
#include <cstdlib>
#include <fstream>
#include <sstream>
#include <string>
#include <unistd.h>
#include <vector>

#include "c36_vars.hpp"

int main_global = 53;
std::array<long, 3> main_array = {61, 62, 63};
struct Pair {
  char c;
  double d;
};
Pair main_pair = {'x', 4.0};

static int& main_local()
{
  static int counter;
  return counter;
}

long long c36_get_main(int id)
{
  switch (id) {
    case 20: return main_global;
    case 21: return main_local();
    case 22: return main_array[2];
    case 23: return static_cast<long long>(main_pair.d);
    default: return -999;
  }
}

void c36_set_main(int id, long long v)
{
  switch (id) {
    case 20: main_global = static_cast<int>(v); break;
    case 21: main_local() = static_cast<int>(v); break;
    case 22: main_array[2] = static_cast<long>(v); break;
    case 23: main_pair.d = static_cast<double>(v); break;
    default: break;
  }
}

static short main_bss[C36_N_MAIN];

long c36_alen(int arr)
{
  const long n[C36_NARRS] = {C36_N_ARR, C36_N_BIG, C36_N_MID, C36_N_FS, C36_N_DATA, C36_N_MAIN};
  return arr >= 0 && arr < C36_NARRS ? n[arr] : 0;
}
static long long aget(int arr, long idx)
{
  return arr < 2 ? c36_aget_a(arr, idx) : arr < 5 ? c36_aget_b(arr, idx) : main_bss[idx];
}
static void aset(int arr, long idx, long long v)
{
  if (arr < 2)
    c36_aset_a(arr, idx, v);
  else if (arr < 5)
    c36_aset_b(arr, idx, v);
  else
    main_bss[idx] = static_cast<short>(v);
}

static long long get(int id)
{
  return id < 10 ? c36_get_a(id) : id < 20 ? c36_get_b(id) : c36_get_main(id);
}
static void set(int id, long long v)
{
  if (id < 10)
    c36_set_a(id, v);
  else if (id < 20)
    c36_set_b(id, v);
  else
    c36_set_main(id, v);
}

int main(int argc, char** argv)
{
  MPI_Init(&argc, &argv);
  int rank = -1, size = 0;
  MPI_Comm_rank(MPI_COMM_WORLD, &rank);
  MPI_Comm_size(MPI_COMM_WORLD, &size);
  if (argc < 2) {
    fprintf(stderr, "usage: c36_prog <script>\n");
    MPI_Finalize();
    return 2;
  }
  std::ifstream in(argv[1]);
  std::string line;
  std::string out;
  char tmp[256];
  int step  = -1;
  int left  = (rank + size - 1) % size;
  int right = (rank + 1) % size;
  while (std::getline(in, line)) {
    step++;
    std::istringstream ss(line);
    std::string op;
    ss >> op;
    if (op == "W") {
      int var = 0;
      long mask = 0;
      long long val = 0;
      ss >> var >> mask >> val;
      if ((mask >> rank) & 1)
        set(var, val * 64 + rank);
    } else if (op == "a") { /* a <array> <index> <mask> <val>: element := val*64 + rank on the ranks of the mask */
      int arr = 0;
      long idx = 0, mask = 0;
      long long val = 0;
      ss >> arr >> idx >> mask >> val;
      if (((mask >> rank) & 1) && idx >= 0 && idx < c36_alen(arr))
        aset(arr, idx, val * 64 + rank);
    } else if (op == "q") { /* q <array> <index>: print "Q <rank> <step> <array> <index> <value>" */
      int arr = 0;
      long idx = 0;
      ss >> arr >> idx;
      snprintf(tmp, sizeof tmp, "Q %d %d %d %ld %lld\n", rank, step, arr, idx, idx >= 0 && idx < c36_alen(arr) ? aget(arr, idx) : -999LL);
      out += tmp;
    } else if (op == "C") {
      snprintf(tmp, sizeof tmp, "V %d %d", rank, step);
      out += tmp;
      for (int v = 0; v < C36_NVARS; v++) {
        snprintf(tmp, sizeof tmp, " %lld", get(v));
        out += tmp;
      }
      out += "\n";
    } else if (op == "B") {
      MPI_Barrier(MPI_COMM_WORLD);
    } else if (op == "A") {
      int mine = rank, sum = -1;
      MPI_Allreduce(&mine, &sum, 1, MPI_INT, MPI_SUM, MPI_COMM_WORLD);
      if (sum != size * (size - 1) / 2) {
        snprintf(tmp, sizeof tmp, "E %d %d allreduce %d\n", rank, step, sum);
        out += tmp;
      }
    } else if (op == "R") {
      std::vector<int> s(100, rank * 7 + step), r(100, -1);
      MPI_Sendrecv(s.data(), 100, MPI_INT, right, 5, r.data(), 100, MPI_INT, left, 5, MPI_COMM_WORLD, MPI_STATUS_IGNORE);
      if (r[99] != left * 7 + step) {
        snprintf(tmp, sizeof tmp, "E %d %d ring %d\n", rank, step, r[99]);
        out += tmp;
      }
    } else if (op == "G" || op == "X") {
      int* rb = c36_rbuf();
      for (int i = 0; i < C36_NBUF; i++) {
        c36_sbuf[i] = step * 1000 + rank * 64 + i;
        rb[i]       = -5;
      }
      MPI_Status st;
      st.MPI_SOURCE = -7;
      if (op == "G") {
        MPI_Sendrecv(c36_sbuf, C36_NBUF, MPI_INT, right, 6, rb, C36_NBUF, MPI_INT, left, 6, MPI_COMM_WORLD, &st);
      } else {
        MPI_Request rq[2];
        MPI_Status sts[2];
        MPI_Irecv(rb, C36_NBUF, MPI_INT, left, 8, MPI_COMM_WORLD, &rq[0]);
        MPI_Isend(c36_sbuf, C36_NBUF, MPI_INT, right, 8, MPI_COMM_WORLD, &rq[1]);
        smpi_execute_flops((rank + 1) * 1e5);
        MPI_Waitall(2, rq, sts);
        st = sts[0];
      }
      snprintf(tmp, sizeof tmp, "G %d %d %d %d %d %d\n", rank, step, rb[0], rb[C36_NBUF - 1], st.MPI_SOURCE, c36_sbuf[1]);
      out += tmp;
    } else if (op == "O") {
      int root = 0;
      ss >> root;
      root %= size;
      if (rank == root)
        c36_bcast_var = 1000LL * step + root;
      MPI_Bcast(&c36_bcast_var, 1, MPI_LONG_LONG, root, MPI_COMM_WORLD);
    } else if (op == "E") {
      double k = 0;
      ss >> k;
      smpi_execute_flops(k * (rank + 1));
    } else if (op == "S") {
      long us = 0;
      ss >> us;
      usleep(static_cast<useconds_t>(us * (rank + 1)));
    } else if (op == "P") {
      int token = step;
      if (rank > 0)
        MPI_Recv(&token, 1, MPI_INT, rank - 1, 9, MPI_COMM_WORLD, MPI_STATUS_IGNORE);
      if (rank < size - 1)
        MPI_Send(&token, 1, MPI_INT, rank + 1, 9, MPI_COMM_WORLD);
    } else if (op == "T") {
      int s = rank + step, r = -1, f0 = 0, f1 = 0;
      MPI_Request rq[2];
      MPI_Irecv(&r, 1, MPI_INT, left, 10, MPI_COMM_WORLD, &rq[0]);
      MPI_Isend(&s, 1, MPI_INT, right, 10, MPI_COMM_WORLD, &rq[1]);
      for (int k = 0; k < 100000 && not(f0 && f1); k++) {
        if (not f0)
          MPI_Test(&rq[0], &f0, MPI_STATUS_IGNORE);
        if (not f1)
          MPI_Test(&rq[1], &f1, MPI_STATUS_IGNORE);
      }
      if (r != left + step) {
        snprintf(tmp, sizeof tmp, "E %d %d test %d\n", rank, step, r);
        out += tmp;
      }
    }
  }
  snprintf(tmp, sizeof tmp, "D %d\n", rank);
  out += tmp;
  fwrite(out.data(), 1, out.size(), stdout);
  fflush(stdout);
  MPI_Finalize();
  return 0;
}
