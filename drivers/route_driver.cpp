// vf-driver: kind=cxx flags=-std=gnu++20
/* route_driver: builds a platform (tree of netzones) from a JSON description through the C++ platform API, seals it
 * and prints the route (link names + latency) of every requested pair of netpoints.
 *
 * usage: route_driver <case.json> | --serve <errfile>   (see forkserver.hpp; every case runs in a forked child)
 *
 * case := {"xml": "<path of an XML platform file to load first>",        (optional)
 *          "zones":[zone...],            children of the root zone "_world_" (always a Full zone in this version)
 *          "links":[link...], "routes":[route...], "bypass":[route...]    (of the root zone; optional)
 *          "pairs":[[src,dst],...]       names of hosts / routers
 *          "dump":bool}                  print every zone's vertices and links first
 * zone := {"name":s, "kind":"full|floyd|dijkstra|dijkstracache|star|vivaldi|empty|wifi|torus|fattree|dragonfly",
 *          "members":[["h",name(,coords)] | ["r",name(,coords)] | ["z",zone]],   created in this order (=> netpoint ids)
 *          "links":[{"name":s,"lat":x,"policy":0 fatpipe|1 shared|2 splitduplex}],
 *          "routes":[{"src":s|null,"dst":s|null,"gw_src":s|null,"gw_dst":s|null,"links":[[name,dir]],"sym":bool}],
 *                     dir: 0 none, 1 up, 2 down; src/dst name a host, router or child zone of this zone
 *          "bypass":[{same without sym}], "gateway":name|null, "peers":[[host,bw_in,bw_out]] (vivaldi), "ap":name (wifi)
 *          cluster kinds: "dims":[..] | "ft":[levels,[down],[up],[count]] | "df":[[g,gl],[c,cl],[r,rl],n],
 *                         "lat":x, "policy":p, "loopback":bool, "lb_lat":x, "limiter":bool,
 *                         "leaf": null (hosts "<zone>-<id>") | zone template (a zone per leaf, names get "-<id>" appended
 *                                 to every zone/host/router/link name)}
 * output: one JSON object per line: {"zone":..} lines (dump), {"i":k,"links":[..],"lat":"<hexfloat>"} or
 *         {"i":k,"err":"what"} per pair, then {"done":1}.  A platform error reported by an exception while building
 *         prints {"build_err":"what"}.  xbt_assert failures abort the child (the client sees signal 6 + stderr).
 * No oracle here.
 */
#include "simgrid/kernel/routing/NetPoint.hpp"
#include "simgrid/kernel/routing/NetZoneImpl.hpp"
#include "simgrid/s4u/Engine.hpp"
#include "simgrid/s4u/Host.hpp"
#include "simgrid/s4u/Link.hpp"
#include "simgrid/s4u/NetZone.hpp"
#include "src/kernel/resource/StandardLinkImpl.hpp"

#include "forkserver.hpp"

#include <map>
#include <nlohmann/json.hpp>
#include <string>
#include <vector>

namespace sg4 = simgrid::s4u;
namespace rt  = simgrid::kernel::routing;
using json    = nlohmann::json;

static std::map<std::string, sg4::Link*> g_links;              // plain links by name
static std::map<std::string, sg4::SplitDuplexLink*> g_sdlinks; // split-duplex links by name
static std::map<std::string, sg4::NetZone*> g_zones;

static void out(const json& j)
{
  std::string s = j.dump();
  fwrite(s.data(), 1, s.size(), stdout);
  fputc('\n', stdout);
  fflush(stdout);
}

static rt::NetPoint* np(const json& name)
{
  if (name.is_null())
    return nullptr;
  return sg4::Engine::get_instance()->netpoint_by_name_or_null(name.get<std::string>());
}

static sg4::Link::SharingPolicy policy_of(int p)
{
  switch (p) {
    case 0:
      return sg4::Link::SharingPolicy::FATPIPE;
    case 2:
      return sg4::Link::SharingPolicy::SPLITDUPLEX;
    default:
      return sg4::Link::SharingPolicy::SHARED;
  }
}

static void make_links(sg4::NetZone* z, const json& links, const std::string& sfx)
{
  for (auto const& l : links) {
    std::string name = l.at("name").get<std::string>() + sfx;
    double lat       = l.value("lat", 0.0);
    int pol          = l.value("policy", 1);
    if (pol == 2) {
      auto* sd = z->add_split_duplex_link(name, 1e9);
      sd->set_latency(lat);
      g_sdlinks[name] = sd;
    } else {
      auto* lk = z->add_link(name, 1e9);
      lk->set_latency(lat);
      if (pol == 0)
        lk->set_sharing_policy(sg4::Link::SharingPolicy::FATPIPE);
      g_links[name] = lk;
    }
  }
}

static std::vector<sg4::LinkInRoute> link_list(const json& ls, const std::string& sfx)
{
  std::vector<sg4::LinkInRoute> res;
  for (auto const& e : ls) {
    std::string name = e.at(0).get<std::string>() + sfx;
    int dir          = e.at(1).get<int>();
    auto d           = dir == 1 ? sg4::LinkInRoute::Direction::UP
                                : (dir == 2 ? sg4::LinkInRoute::Direction::DOWN : sg4::LinkInRoute::Direction::NONE);
    if (auto it = g_sdlinks.find(name); it != g_sdlinks.end())
      res.emplace_back(it->second, d);
    else
      res.emplace_back(g_links.at(name), d);
  }
  return res;
}

static json sfx_name(const json& n, const std::string& sfx)
{
  if (n.is_null())
    return n;
  return n.get<std::string>() + sfx;
}

static sg4::NetZone* build_zone(sg4::NetZone* parent, const json& z, const std::string& sfx);

/* content common to every zone kind that accepts explicit content */
static void fill_zone(sg4::NetZone* zone, const json& z, const std::string& sfx)
{
  std::string kind = z.value("kind", "full");
  if (z.contains("members"))
    for (auto const& m : z["members"]) {
      std::string t = m.at(0).get<std::string>();
      if (t == "h") {
        auto* h = zone->add_host(m.at(1).get<std::string>() + sfx, 1e9);
        if (m.size() > 2 && not m.at(2).is_null())
          h->get_netpoint()->set_coordinates(m.at(2).get<std::string>());
      } else if (t == "r") {
        auto* r = zone->add_router(m.at(1).get<std::string>() + sfx);
        if (m.size() > 2 && not m.at(2).is_null())
          r->set_coordinates(m.at(2).get<std::string>());
      } else {
        build_zone(zone, m.at(1), sfx);
      }
    }
  if (z.contains("links"))
    make_links(zone, z["links"], sfx);
  if (z.contains("peers")) // what VivaldiZone::set_peer_link (hidden symbol, used by the XML <peer> tag) does
    for (auto const& p : z["peers"]) {
      auto* pt         = np(sfx_name(p.at(0), sfx));
      const auto* up   = zone->add_link("link_" + pt->get_name() + "_UP", p.at(1).get<double>())->seal();
      const auto* down = zone->add_link("link_" + pt->get_name() + "_DOWN", p.at(2).get<double>())->seal();
      zone->get_impl()->add_route(pt, nullptr, nullptr, nullptr, {sg4::LinkInRoute(up)}, false);
      zone->get_impl()->add_route(nullptr, pt, nullptr, nullptr, {sg4::LinkInRoute(down)}, false);
    }
  if (z.contains("ap") && not z["ap"].is_null())
    zone->set_property("access_point", z["ap"].get<std::string>() + sfx);
  if (z.contains("gateway") && not z["gateway"].is_null())
    zone->set_gateway(np(sfx_name(z["gateway"], sfx)));
  if (z.contains("routes"))
    for (auto const& r : z["routes"]) {
      zone->get_impl()->add_route(np(sfx_name(r.at("src"), sfx)), np(sfx_name(r.at("dst"), sfx)),
                                  np(sfx_name(r.value("gw_src", json()), sfx)),
                                  np(sfx_name(r.value("gw_dst", json()), sfx)), link_list(r.at("links"), sfx),
                                  r.value("sym", false));
    }
  if (z.contains("bypass"))
    for (auto const& r : z["bypass"]) {
      zone->add_bypass_route(np(sfx_name(r.at("src"), sfx)), np(sfx_name(r.at("dst"), sfx)),
                             np(sfx_name(r.value("gw_src", json()), sfx)), np(sfx_name(r.value("gw_dst", json()), sfx)),
                             link_list(r.at("links"), sfx));
    }
}

static sg4::NetZone* build_zone(sg4::NetZone* parent, const json& z, const std::string& sfx)
{
  std::string name = z.at("name").get<std::string>() + sfx;
  std::string kind = z.value("kind", "full");
  sg4::NetZone* zone;
  if (kind == "torus" || kind == "fattree" || kind == "dragonfly") {
    double lat = z.value("lat", 0.0);
    auto pol   = policy_of(z.value("policy", 2));
    if (kind == "torus") {
      zone = parent->add_netzone_torus(name, z.at("dims").get<std::vector<unsigned long>>(), 1e9, lat, pol);
    } else if (kind == "fattree") {
      auto const& ft = z.at("ft");
      zone = parent->add_netzone_fatTree(name, ft.at(0).get<unsigned>(), ft.at(1).get<std::vector<unsigned>>(),
                                         ft.at(2).get<std::vector<unsigned>>(), ft.at(3).get<std::vector<unsigned>>(),
                                         1e9, lat, pol);
    } else {
      auto const& df = z.at("df");
      zone           = parent->add_netzone_dragonfly(
          name, {df.at(0).at(0).get<unsigned>(), df.at(0).at(1).get<unsigned>()},
          {df.at(1).at(0).get<unsigned>(), df.at(1).at(1).get<unsigned>()},
          {df.at(2).at(0).get<unsigned>(), df.at(2).at(1).get<unsigned>()}, df.at(3).get<unsigned>(), 1e9, lat, pol);
    }
    json leaf = z.value("leaf", json());
    if (leaf.is_null()) {
      zone->set_host_cb([name](sg4::NetZone* zz, const std::vector<unsigned long>&, unsigned long id) {
        return zz->add_host(name + "-" + std::to_string(id), 1e9);
      });
    } else {
      zone->set_netzone_cb([leaf, sfx](sg4::NetZone* zz, const std::vector<unsigned long>&, unsigned long id) {
        auto* sub = build_zone(zz, leaf, sfx + "-" + std::to_string(id));
        sub->seal();
        return sub;
      });
    }
    if (z.value("loopback", false)) {
      double lb_lat = z.value("lb_lat", 0.0);
      zone->set_loopback_cb([name, lb_lat](sg4::NetZone* zz, const std::vector<unsigned long>&, unsigned long id) {
        return zz->add_link(name + "-lb" + std::to_string(id), 1e9)
            ->set_sharing_policy(sg4::Link::SharingPolicy::FATPIPE)
            ->set_latency(lb_lat)
            ->seal();
      });
    }
    if (z.value("limiter", false)) {
      zone->set_limiter_cb([name](sg4::NetZone* zz, const std::vector<unsigned long>& coord, unsigned long id) {
        std::string c;
        for (auto x : coord)
          c += "_" + std::to_string(x);
        return zz->add_link(name + "-lim" + std::to_string(id) + "c" + c, 1e9)->seal();
      });
    }
    if (z.contains("gateway") && not z["gateway"].is_null()) // a router of the cluster zone (created before sealing)
      zone->set_gateway(zone->add_router(z["gateway"].get<std::string>() + sfx));
    g_zones[name] = zone;
    /* the leaves only exist once the zone is sealed: like the XML loader and the examples, seal it right away so that
     * the routes of the parent zone can name them as gateways */
    if (not z.value("lazy_seal", false))
      zone->seal();
    return zone;
  }
  if (kind == "full")
    zone = parent->add_netzone_full(name);
  else if (kind == "floyd")
    zone = parent->add_netzone_floyd(name);
  else if (kind == "dijkstra")
    zone = parent->add_netzone_dijkstra(name, false);
  else if (kind == "dijkstracache")
    zone = parent->add_netzone_dijkstra(name, true);
  else if (kind == "star")
    zone = parent->add_netzone_star(name);
  else if (kind == "vivaldi")
    zone = parent->add_netzone_vivaldi(name);
  else if (kind == "wifi")
    zone = parent->add_netzone_wifi(name);
  else if (kind == "empty")
    zone = parent->add_netzone_empty(name);
  else
    throw std::invalid_argument("unknown zone kind " + kind);
  g_zones[name] = zone;
  fill_zone(zone, z, sfx);
  return zone;
}

static void dump_zone(rt::NetZoneImpl* z)
{
  json j;
  j["zone"]  = z->get_name();
  json verts = json::array();
  for (auto const* v : z->get_vertices())
    verts.push_back(v->get_name());
  j["verts"] = verts;
  json links = json::object();
  char buf[64];
  for (auto const& [name, l] : z->links_) {
    snprintf(buf, sizeof buf, "%a", l->get_latency());
    links[name] = buf;
  }
  j["links"] = links;
  out(j);
  for (auto* c : z->get_children())
    dump_zone(c);
}

static void make_engine()
{
  if (sg4::Engine::has_instance())
    return;
  static int argc       = 2;
  static char a0[]      = "route_driver";
  static char a1[]      = "--log=root.fmt:%m%n";
  static char* argv_[]  = {a0, a1, nullptr};
  static char** argv    = argv_;
  new sg4::Engine(&argc, argv);
  sg4::Engine::get_instance()->get_netzone_root(); // creates the root zone and the models
}

static void preload()
{
  make_engine();
}

static double now_ms()
{
  struct timespec ts;
  clock_gettime(CLOCK_MONOTONIC, &ts);
  return ts.tv_sec * 1e3 + ts.tv_nsec / 1e6;
}

static int run_case(const std::string& text)
{
  const bool timing = getenv("VF_ROUTE_TIMING") != nullptr;
  double t0         = now_ms();
  json c = json::parse(text);
  make_engine();
  if (timing)
    fprintf(stderr, "[timing] parse+engine %.1f ms\n", now_ms() - t0);
  auto* e    = sg4::Engine::get_instance();
  auto* root = e->get_netzone_root();
  try {
    if (c.contains("xml")) { // a platform file instead of a description (flat <cluster>, <peer>, ... have no API form)
      e->load_platform(c["xml"].get<std::string>());
      root = e->get_netzone_root();
    }
    json world      = json::object();
    world["kind"]   = "full";
    json members    = json::array();
    for (auto const& z : c.value("zones", json::array()))
      members.push_back(json::array({"z", z}));
    for (auto const& m : c.value("members", json::array()))
      members.push_back(m);
    world["members"] = members;
    for (const char* k : {"links", "routes", "bypass"})
      if (c.contains(k))
        world[k] = c[k];
    fill_zone(root, world, "");
    if (timing)
      fprintf(stderr, "[timing] filled %.1f ms\n", now_ms() - t0);
    e->seal_platform();
  } catch (const std::exception& ex) {
    out({{"build_err", ex.what()}});
    return 0;
  }
  if (timing)
    fprintf(stderr, "[timing] built+sealed %.1f ms\n", now_ms() - t0);
  if (c.value("dump", false))
    dump_zone(root->get_impl());
  if (timing)
    fprintf(stderr, "[timing] dumped %.1f ms\n", now_ms() - t0);
  int i = 0;
  for (auto const& p : c.value("pairs", json::array())) {
    json res;
    res["i"] = i++;
    try {
      auto* s = np(p.at(0));
      auto* d = np(p.at(1));
      if (s == nullptr || d == nullptr)
        throw std::invalid_argument("unknown netpoint in pair");
      std::vector<std::string> names;
      double lat = 0;
      if (s->is_host() && d->is_host()) {
        std::vector<sg4::Link*> links;
        e->host_by_name(s->get_name())->route_to(e->host_by_name(d->get_name()), links, &lat);
        for (auto* l : links)
          names.push_back(l ? l->get_name() : std::string("<null>"));
      } else {
        std::vector<simgrid::kernel::resource::StandardLinkImpl*> links;
        rt::NetZoneImpl::get_global_route(s, d, links, &lat);
        for (auto* l : links)
          names.push_back(l ? l->get_name() : std::string("<null>"));
      }
      char buf[64];
      snprintf(buf, sizeof buf, "%a", lat);
      res["links"] = names;
      res["lat"]   = buf;
    } catch (const std::exception& ex) {
      res["err"] = ex.what();
    }
    out(res);
  }
  out({{"done", 1}});
  if (timing)
    fprintf(stderr, "[timing] done %.1f ms\n", now_ms() - t0);
  return 0;
}

int main(int argc, char** argv)
{
  return vf_main(argc, argv, run_case, preload);
}
