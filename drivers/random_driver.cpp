// vf-driver: kind=cxx
/* random_driver: executes a sequence of draws on simgrid::xbt::random (the global API with the default/xbt implementation,
 * or an XbtRandom object) and reports every value.
 *
 * request: {"api":"global"|"object", "seed":int|null, "state":null|{"x":[624 words],"p":int},
 *           "ops":[["int",min,max,n] | ["real",min,max,n] | ["exp",lambda,n] | ["norm",mean,sd,n] | ["raw",n] | ["save"] | ["restore"]]}
 *   seed null   = default-constructed generator;  state = engine state loaded through read_state()/operator>> (the
 *   textual format of std::mt19937: 624 words then the position) AFTER seeding.
 * answer : {"draws":[[v,...] per op], "next": <next raw 32-bit output of the engine>}   (doubles as hexfloat strings)
 * No oracle here.  In-process server: the global generator is re-created at the start of every case.
 */
#include "xbt/log.h"
#include "xbt/random.hpp"

#include "forkserver.hpp"

#include <cstdio>
#include <climits>
#include <memory>
#include <nlohmann/json.hpp>
#include <sstream>
#include <string>
#include <unistd.h>

using json       = nlohmann::json;
namespace random_ = simgrid::xbt::random;

static std::string hexf(double d)
{
  char buf[64];
  snprintf(buf, sizeof buf, "%a", d);
  return buf;
}

static std::string tmpfile_name(const char* what)
{
  const char* dir = getenv("VF_TMP");
  return std::string(dir ? dir : "/tmp") + "/rng_" + what + "_" + std::to_string(getpid()) + ".txt";
}

static int run_case(const std::string& text)
{
  json in         = json::parse(text);
  bool global     = in["api"] == "global";
  bool has_seed   = not in["seed"].is_null();
  std::unique_ptr<random_::XbtRandom> obj;
  if (global) {
    random_::set_implem_xbt(); // a new default-seeded XbtRandom
    if (has_seed)
      random_::set_mersenne_seed(in["seed"].get<int>());
  } else {
    if (has_seed)
      obj = std::make_unique<random_::XbtRandom>(in["seed"].get<int>());
    else
      obj = std::make_unique<random_::XbtRandom>();
  }
  std::string savefile = tmpfile_name("save");
  if (not in["state"].is_null()) {
    std::string f = tmpfile_name("state");
    FILE* o       = fopen(f.c_str(), "w");
    for (auto const& w : in["state"]["x"])
      fprintf(o, "%lu ", w.get<unsigned long>());
    fprintf(o, "%lu", in["state"]["p"].get<unsigned long>());
    fclose(o);
    bool ok = global ? random_::read_mersenne_state(f) : obj->read_state(f);
    unlink(f.c_str());
    if (not ok) {
      printf("{\"error\":\"read_state failed\"}\n");
      return 0;
    }
  }
  json draws = json::array();
  for (auto const& op : in["ops"]) {
    std::string k = op[0];
    json l        = json::array();
    if (k == "int") {
      int mn = op[1], mx = op[2], n = op[3];
      for (int i = 0; i < n; i++)
        l.push_back(global ? random_::uniform_int(mn, mx) : obj->uniform_int(mn, mx));
    } else if (k == "real") {
      double mn = op[1], mx = op[2];
      int n = op[3];
      for (int i = 0; i < n; i++)
        l.push_back(hexf(global ? random_::uniform_real(mn, mx) : obj->uniform_real(mn, mx)));
    } else if (k == "exp") {
      double la = op[1];
      int n     = op[2];
      for (int i = 0; i < n; i++)
        l.push_back(hexf(global ? random_::exponential(la) : obj->exponential(la)));
    } else if (k == "norm") {
      double me = op[1], sd = op[2];
      int n = op[3];
      for (int i = 0; i < n; i++)
        l.push_back(hexf(global ? random_::normal(me, sd) : obj->normal(me, sd)));
    } else if (k == "raw") { // raw engine outputs (object API only: the engine is a public member)
      int n = op[1];
      for (int i = 0; i < n && obj; i++)
        l.push_back(static_cast<unsigned long>(obj->mt19937_gen()));
    } else if (k == "save") {
      l.push_back(global ? random_::write_mersenne_state(savefile) : obj->write_state(savefile));
    } else if (k == "restore") {
      l.push_back(global ? random_::read_mersenne_state(savefile) : obj->read_state(savefile));
    }
    draws.push_back(l);
  }
  unlink(savefile.c_str());
  json out;
  out["draws"] = draws;
  if (obj)
    out["next"] = static_cast<unsigned long>(obj->mt19937_gen());
  else // the global generator hides its engine: one uniform_int over the full range is engine output + INT_MIN
    out["next"] = static_cast<unsigned long>(static_cast<unsigned>(random_::uniform_int(INT_MIN, INT_MAX)) - static_cast<unsigned>(INT_MIN));
  printf("%s\n", out.dump().c_str());
  return 0;
}

int main(int argc, char** argv)
{
  return vf_main(argc, argv, run_case, nullptr, true);
}
