/* mpi_ops_type.cpp: derived datatype operations of mpi_interp (C30). */
#include "mpi_interp.hpp"

using namespace mpii;
