/* mpi_ops_type.cpp: derived datatype operations of mpi_interp (C30). */
#include "mpi_interp.hpp"

using namespace mpii;

static constexpr long CANARY = -777777;

static json type_info(MPI_Datatype t)
{
  json o;
  int size = static_cast<int>(CANARY);
  MPI_Aint lb = CANARY, extent = CANARY, tlb = CANARY, textent = CANARY;
  o["size_rc"]   = MPI_Type_size(t, &size);
  o["extent_rc"] = MPI_Type_get_extent(t, &lb, &extent);
  o["true_rc"]   = MPI_Type_get_true_extent(t, &tlb, &textent);
  o["size"]      = size;
  o["lb"]        = lb;
  o["extent"]    = extent;
  o["true_lb"]   = tlb;
  o["true_extent"] = textent;
  return o;
}

/* {"op":"type_info","type":t} -> size, lb, extent, true_lb, true_extent (+ return codes) */
MPI_OPERATION(type_info)
{
  o.update(type_info(R.type(a)));
  o["rc"] = o["size_rc"];
}

/* {"op":"predefined_types"} -> "types": {name: {size, extent, ...}} for every predefined datatype name of the interpreter */
MPI_OPERATION(predefined_types)
{
  json all = json::object();
  for (auto const& [name, t] : R.types) {
    if (t == MPI_DATATYPE_NULL)
      all[name] = nullptr;
    else
      all[name] = type_info(t);
  }
  o["types"] = all;
  o["rc"]    = 0;
}

static std::vector<MPI_Aint> aints(const json& a, const char* key)
{
  std::vector<MPI_Aint> v;
  if (a.contains(key))
    for (auto const& x : a.at(key))
      v.push_back(x.get<MPI_Aint>());
  return v;
}

/* {"op":"type_create","kind":K,"out":name,"commit":bool?, ...}  ->  rc, then type_info fields (when rc == 0)
 *   contiguous: count, old           vector: count, blocklen, stride, old        hvector: count, blocklen, stride(bytes), old
 *   indexed: blocklens[], disps[], old     hindexed: blocklens[], disps[](bytes), old
 *   indexed_block: blocklen, disps[], old  hindexed_block: blocklen, disps[](bytes), old
 *   struct: blocklens[], disps[](bytes), olds[]       resized: lb, extent, old       dup: old
 *   subarray: sizes[], subsizes[], starts[], order ("C"|"F"), old */
MPI_OPERATION(type_create)
{
  std::string kind = a.at("kind").get<std::string>();
  MPI_Datatype nt  = MPI_DATATYPE_NULL;
  int rc;
  if (kind == "contiguous")
    rc = MPI_Type_contiguous(a.at("count").get<int>(), R.type(a, "old"), &nt);
  else if (kind == "vector")
    rc = MPI_Type_vector(a.at("count").get<int>(), a.at("blocklen").get<int>(), a.at("stride").get<int>(), R.type(a, "old"), &nt);
  else if (kind == "hvector")
    rc = MPI_Type_create_hvector(a.at("count").get<int>(), a.at("blocklen").get<int>(), a.at("stride").get<MPI_Aint>(),
                                 R.type(a, "old"), &nt);
  else if (kind == "indexed") {
    auto bl = ints(a, "blocklens");
    auto d  = ints(a, "disps");
    if (bl.size() != d.size())
      throw BadCase("blocklens/disps sizes differ");
    rc = MPI_Type_indexed(static_cast<int>(bl.size()), ptr(bl), ptr(d), R.type(a, "old"), &nt);
  } else if (kind == "hindexed") {
    auto bl = ints(a, "blocklens");
    auto d  = aints(a, "disps");
    if (bl.size() != d.size())
      throw BadCase("blocklens/disps sizes differ");
    rc = MPI_Type_create_hindexed(static_cast<int>(bl.size()), ptr(bl), ptr(d), R.type(a, "old"), &nt);
  } else if (kind == "indexed_block") {
    auto d = ints(a, "disps");
    rc     = MPI_Type_create_indexed_block(static_cast<int>(d.size()), a.at("blocklen").get<int>(), ptr(d), R.type(a, "old"), &nt);
  } else if (kind == "hindexed_block") {
    auto d = aints(a, "disps");
    rc = MPI_Type_create_hindexed_block(static_cast<int>(d.size()), a.at("blocklen").get<int>(), ptr(d), R.type(a, "old"), &nt);
  } else if (kind == "struct") {
    auto bl = ints(a, "blocklens");
    auto d  = aints(a, "disps");
    std::vector<MPI_Datatype> olds;
    for (auto const& n : a.at("olds"))
      olds.push_back(Rank::find(R.types, n.get<std::string>(), "type"));
    if (bl.size() != d.size() || bl.size() != olds.size())
      throw BadCase("struct array sizes differ");
    rc = MPI_Type_create_struct(static_cast<int>(bl.size()), ptr(bl), ptr(d), ptr(olds), &nt);
  } else if (kind == "resized")
    rc = MPI_Type_create_resized(R.type(a, "old"), a.at("lb").get<MPI_Aint>(), a.at("extent").get<MPI_Aint>(), &nt);
  else if (kind == "dup")
    rc = MPI_Type_dup(R.type(a, "old"), &nt);
  else if (kind == "subarray") {
    auto sizes = ints(a, "sizes"), subsizes = ints(a, "subsizes"), starts = ints(a, "starts");
    if (sizes.size() != subsizes.size() || sizes.size() != starts.size())
      throw BadCase("subarray array sizes differ");
    rc = MPI_Type_create_subarray(static_cast<int>(sizes.size()), ptr(sizes), ptr(subsizes), ptr(starts),
                                  a.value("order", std::string("C")) == "F" ? MPI_ORDER_FORTRAN : MPI_ORDER_C, R.type(a, "old"), &nt);
  } else
    throw BadCase("unknown type constructor '" + kind + "'");
  o["rc"]   = rc;
  o["null"] = nt == MPI_DATATYPE_NULL;
  R.types[a.at("out").get<std::string>()] = nt;
  if (rc == MPI_SUCCESS && nt != MPI_DATATYPE_NULL) {
    if (a.value("commit", true))
      o["commit_rc"] = MPI_Type_commit(&R.types[a.at("out").get<std::string>()]);
    o.update(type_info(R.types[a.at("out").get<std::string>()]));
  }
}

MPI_OPERATION(type_commit)
{
  MPI_Datatype& t = Rank::find(R.types, a.at("type").get<std::string>(), "type");
  o["rc"]         = MPI_Type_commit(&t);
}

MPI_OPERATION(type_free)
{
  MPI_Datatype& t = Rank::find(R.types, a.at("type").get<std::string>(), "type");
  o["rc"]         = MPI_Type_free(&t);
  o["null_after"] = t == MPI_DATATYPE_NULL;
}

/* {"op":"pack_size","count":n,"type":t,"comm"?} -> size */
MPI_OPERATION(pack_size)
{
  int size  = static_cast<int>(CANARY);
  o["rc"]   = MPI_Pack_size(a.at("count").get<int>(), R.type(a), R.comm(a), &size);
  o["size"] = size;
}

static unsigned char* buf_at(Rank& R, const json& a, const char* key, const char* offkey, size_t* avail)
{
  auto& b    = R.buf(a, key);
  size_t sz  = b.size() - 2 * BUF_GUARD;
  size_t off = a.value(offkey, 0);
  if (off > sz)
    throw BadCase("offset outside the buffer");
  *avail = sz - off;
  return b.data() + BUF_GUARD + off;
}

/* {"op":"pack","in":buf,"inoff"?,"count":n,"type":t,"out":buf,"outsize":bytes?,"position":p,"comm"?} -> rc, position after */
MPI_OPERATION(pack)
{
  size_t ain = 0, aout = 0;
  unsigned char* in  = buf_at(R, a, "in", "inoff", &ain);
  unsigned char* out = buf_at(R, a, "out", "outoff", &aout);
  int outsize        = a.value("outsize", static_cast<int>(aout));
  if (static_cast<size_t>(outsize) > aout)
    throw BadCase("outsize larger than the buffer");
  int pos   = a.at("position").get<int>();
  o["rc"]   = MPI_Pack(in, a.at("count").get<int>(), R.type(a), out, outsize, &pos, R.comm(a));
  o["position"] = pos;
}

/* {"op":"unpack","in":buf,"insize":bytes?,"position":p,"out":buf,"outoff"?,"count":n,"type":t,"comm"?} -> rc, position after */
MPI_OPERATION(unpack)
{
  size_t ain = 0, aout = 0;
  unsigned char* in  = buf_at(R, a, "in", "inoff", &ain);
  unsigned char* out = buf_at(R, a, "out", "outoff", &aout);
  int insize         = a.value("insize", static_cast<int>(ain));
  if (static_cast<size_t>(insize) > ain)
    throw BadCase("insize larger than the buffer");
  int pos   = a.at("position").get<int>();
  o["rc"]   = MPI_Unpack(in, insize, &pos, out, a.at("count").get<int>(), R.type(a), R.comm(a));
  o["position"] = pos;
}

/* {"op":"get_elements","count","type"}: not needed yet */
