/* s4u_ext_time.hpp: operations and records added for C03 / C12 / C11 (owner: builder "time").  See notes/C03.md.
 *
 *   ["timer", delay]                arms a kernel timer (kernel::timer::Timer::set) for date = clock + delay (delay >= 0: the kernel
 *                                   asserts on timers in the past); when it fires a record
 *                                   {"k":"timer","a":actor,"i":op index,"date":date,"t":clock} is printed.  Result: the date (hex).
 *   ["on_exit_add"]                 registers one more on_exit callback for the calling actor; its "cb" index continues the numbering
 *                                   of the spec's "on_exit": k callbacks.  Result: the index.
 *   ["set_kill_time_of", name, t]   Actor::set_kill_time on another actor
 *   ["kill_time_of", name]          Actor::get_kill_time (hex float)
 *   ["restart", name]               Actor::restart()
 *   ["actor_info", name]            {"suspended","daemon","restart_count","host","kill_time"} of a live actor (inside a simcall) or "no-such-actor"
 *   ["join_pid", pid, timeout?]     join by pid through Actor::by_pid (a dead actor gives "no-such-actor")
 *   ["alive"]                       sorted names of the actors in the engine's actor list (inside a simcall)
 *   ["twait", h, opts] ["twait_any", [h..], opts] ["tinfo", h] ["tcancel", h]
 *                                   the core's wait / wait_any / act_info / cancel, guarded: when a handle does not exist (yet) the result
 *                                   is "no-handle" instead of a null dereference in the driver (a shrunk program may wait before the creation)
 *
 * Records added: {"k":"mess_start","type":"mess",...} (the core only logs the completion of Mess activities).
 */
#pragma once
#include "simgrid/kernel/Timer.hpp"

namespace vf {

static const char* const time_ext_version = "time-ext-v5"; // `strings s4u_interp | grep time-ext` tells which header was compiled

static sg4::ActorPtr time_find_actor(const std::string& name)
{
  sg4::ActorPtr res = nullptr;
  for (auto const& a : sg4::Engine::get_instance()->get_all_actors())
    if (a->get_name() == name)
      res = a; // the LAST one: a restarted actor has the name of its predecessor
  return res;
}

static bool time_ops(Ctx& c, int idx, const json& op, json& result)
{
  const std::string o = op[0].get<std::string>();
  if (o == "timer") {
    double date     = now() + op[1].get<double>();
    std::string who = c.name;
    simgrid::kernel::actor::simcall_answered([date, who, idx]() {
      simgrid::kernel::timer::Timer::set(date, [date, who, idx]() {
        json j = {{"k", "timer"}, {"a", who}, {"i", idx}, {"date", hx(date)}, {"t", hx(now())}};
        emit(j);
      });
    });
    result = hx(date);
    return true;
  }
  if (o == "twait" || o == "twait_any" || o == "tinfo" || o == "tcancel") {
    bool ok = true;
    if (op[1].is_array()) {
      for (auto const& h : op[1])
        ok = ok && has_handle(h.get<int>());
      ok = ok && not op[1].empty();
    } else
      ok = has_handle(op[1].get<int>());
    if (not ok) {
      result = "no-handle";
      return true;
    }
    // a communication created by put_init has no kernel activity before its first wait: only its creator may wait for it, and it
    // cannot be put in an activity set (shrunk programs would otherwise crash the driver)
    {
      std::vector<int> hs;
      if (op[1].is_array())
        for (auto const& hh : op[1])
          hs.push_back(hh.get<int>());
      else
        hs.push_back(op[1].get<int>());
      for (int hh : hs) {
        Handle& h = handle(hh);
        if (h.kind == "comm_send" && h.act->get_impl() == nullptr &&
            (o != "twait" || static_cast<sg4::Comm*>(h.act.get())->sender_ != simgrid::kernel::actor::ActorImpl::self())) {
          result = "no-handle";
          return true;
        }
      }
    }
    if (o == "twait") { // a reception already reported: its payload was handed over (and freed); waiting again would copy the pointer again
      Handle& h = handle(op[1].get<int>());
      if (h.reported && (h.kind == "comm_recv" || h.kind == "mess_get")) {
        result = "received-before";
        return true;
      }
    }
    if (o == "twait_any")
      for (auto const& hh : op[1]) {
        Handle& h = handle(hh.get<int>());
        if (h.reported && (h.kind == "comm_recv" || h.kind == "mess_get")) {
          result = "received-before";
          return true;
        }
      }
    json op2 = op;
    op2[0]   = o == "twait" ? "wait" : o == "twait_any" ? "wait_any" : o == "tinfo" ? "act_info" : "cancel";
    result   = do_op(c, idx, op2);
    return true;
  }
  if (o == "on_exit_add") {
    // the numbering continues after the callbacks of the spec; the counter lives in the observation vector's owner (Ctx)
    static std::map<std::string, int> extra; // per actor name (sequential mode only)
    int base = 0; // the spec (actor or template) is recognised by the address of its op list
    for (const char* sect : {"actors", "templates"})
      if (S->scenario.contains(sect))
        for (auto const& a : S->scenario[sect])
          if (&a["ops"] == c.ops)
            base = a.value("on_exit", 0);
    int k            = base + extra[c.name]++;
    std::string name = c.name;
    sg4::this_actor::on_exit([name, k](bool failed) {
      json j = {{"k", "on_exit"}, {"a", name}, {"cb", k}, {"failed", failed}, {"t", hx(now())}};
      emit(j);
    });
    result = k;
    return true;
  }
  if (o == "set_kill_time_of" || o == "kill_time_of" || o == "restart" || o == "actor_info") {
    sg4::ActorPtr a = time_find_actor(op[1].get<std::string>());
    if (a == nullptr) {
      result = "no-such-actor";
      return true;
    }
    if (o == "set_kill_time_of") {
      a->set_kill_time(op[2].get<double>());
      result = nullptr;
    } else if (o == "kill_time_of") {
      result = simgrid::kernel::actor::simcall_answered([a]() { return hx(a->get_kill_time()); });
    } else if (o == "restart") {
      a->restart();
      result = nullptr;
    } else {
      result = simgrid::kernel::actor::simcall_answered([a]() {
        return json{{"suspended", a->is_suspended()},
                    {"daemon", a->is_daemon()},
                    {"restart_count", a->get_restart_count()},
                    {"host", a->get_host()->get_name()},
                    {"kill_time", hx(a->get_kill_time())}};
      });
    }
    return true;
  }
  if (o == "join_pid") {
    sg4::ActorPtr a = sg4::Actor::by_pid(op[1].get<long>());
    if (a == nullptr) {
      result = "no-such-actor";
      return true;
    }
    if (op.size() > 2 && op[2].is_number())
      a->join(op[2].get<double>());
    else
      a->join();
    result = nullptr;
    return true;
  }
  if (o == "alive") {
    result = simgrid::kernel::actor::simcall_answered([]() {
      std::vector<std::string> names;
      for (auto const& a : sg4::Engine::get_instance()->get_all_actors())
        names.push_back(a->get_name());
      std::sort(names.begin(), names.end());
      return json(names);
    });
    return true;
  }
  return false;
}

static void time_setup()
{
  if (S->mc_mode || is_quiet("act"))
    return;
  sg4::Mess::on_start_cb([](sg4::Mess const& a) {
    json j = act_json("mess", a);
    j["k"] = "mess_start"; // a kind of its own: other builders' oracles iterate over act_start records
    emit(j);
  });
}

static ExtRegister time_reg(time_ops, time_setup);

} // namespace vf
