/* units_fuzz: libFuzzer + ASan + UBSan target for src/xbt/xbt_parse_units.cpp (thorough tier of C27).
 *
 * NOT registered as a vf-driver on purpose: the framework's `fuzz` rule has fixed include paths, so vf/props/c27.py compiles
 * this file itself against the tree under test (build.REPO):
 *   clang++ -std=gnu++17 -g -O1 -fsanitize=fuzzer,address,undefined -fno-sanitize-recover=undefined -I<repo>/include ... \
 *       units_fuzz.cpp <repo>/src/xbt/xbt_parse_units.cpp <repo>/src/simgrid/Exception.cpp
 * The rest of libsimgrid is replaced by the stubs at the end of this file.
 *
 * Input: first byte selects the parser (time/size/bandwidth/speed), the rest is the string.
 * In-target oracle (same reading as vf/xbt1.py, in long double instead of rationals): documented unit tables; a canonical
 * number followed by a documented unit must give number x multiplier within 2 ulp; no number, unknown unit, overflowing
 * number must throw ParseError; C99 extras (blanks, hex, inf, nan), unit-less values, subnormal numbers, overflowing
 * products are left open.  A disagreement prints "VF-ORACLE ..." and aborts (libFuzzer then saves the input).
 */
#include "simgrid/Exception.hpp"
#include "xbt/parse_units.hpp"

#include <cfloat>
#include <cmath>
#include <cstdint>
#include <cstdio>
#include <cstdlib>
#include <cstring>
#include <map>
#include <string>

using Table = std::map<std::string, long double>;

static Table make_table(int kind)
{
  static const char* si[]  = {"k", "M", "G", "T", "P", "E", "Z", "Y"};
  static const char* iec[] = {"Ki", "Mi", "Gi", "Ti", "Pi", "Ei", "Zi", "Yi"};
  static const char* full[] = {"kilo", "mega", "giga", "tera", "peta", "exa", nullptr, "yotta"};
  Table t;
  if (kind == 0) {
    t = {{"w", 604800.0L}, {"d", 86400.0L}, {"h", 3600.0L}, {"m", 60.0L},    {"s", 1.0L},
         {"ms", 1e-3L},    {"us", 1e-6L},   {"ns", 1e-9L},  {"ps", 1e-12L}};
  } else if (kind == 1 || kind == 2) {
    std::string suffix = kind == 2 ? "ps" : "";
    for (int bits = 0; bits < 2; bits++) {
      std::string base = bits ? "b" : "B";
      long double val  = bits ? 0.125L : 1.0L;
      t[base + suffix] = val;
      long double m10 = val, m2 = val;
      for (int i = 0; i < 8; i++) {
        m10 *= 1000.0L;
        m2 *= 1024.0L;
        t[si[i] + base + suffix]  = m10;
        t[iec[i] + base + suffix] = m2;
      }
    }
  } else {
    t["f"] = t["flops"] = 1.0L;
    long double m = 1.0L;
    for (int i = 0; i < 8; i++) {
      m *= 1000.0L;
      t[std::string(si[i]) + "f"] = m;
      if (full[i])
        t[std::string(full[i]) + "flops"] = m;
    }
  }
  return t;
}

static const char* kind_name[] = {"time", "size", "bandwidth", "speed"};

[[noreturn]] static void oracle_fail(int kind, const std::string& s, const char* why, double got)
{
  fprintf(stderr, "VF-ORACLE %s ", kind_name[kind]);
  for (unsigned char c : s)
    fprintf(stderr, "%02x", c);
  fprintf(stderr, " %s got=%a\n", why, got);
  abort();
}

/* length of the canonical number literal at the start of s: [+-] (digits [. digits] | . digits) [e [+-] digits]; 0 if none */
static size_t number_len(const std::string& s)
{
  size_t i = 0, n = s.size();
  if (i < n && (s[i] == '+' || s[i] == '-'))
    i++;
  size_t d0 = i;
  while (i < n && isdigit(static_cast<unsigned char>(s[i])))
    i++;
  size_t intd = i - d0, fracd = 0;
  if (i < n && s[i] == '.') {
    size_t j = i + 1;
    while (j < n && isdigit(static_cast<unsigned char>(s[j])))
      j++;
    fracd = j - (i + 1);
    if (intd > 0 || fracd > 0)
      i = j;
  }
  if (intd == 0 && fracd == 0)
    return 0;
  if (i < n && (s[i] == 'e' || s[i] == 'E')) {
    size_t j = i + 1;
    if (j < n && (s[j] == '+' || s[j] == '-'))
      j++;
    size_t e0 = j;
    while (j < n && isdigit(static_cast<unsigned char>(s[j])))
      j++;
    if (j > e0)
      i = j;
  }
  return i;
}

extern "C" int LLVMFuzzerTestOneInput(const uint8_t* data, size_t size)
{
  static const Table tables[4] = {make_table(0), make_table(1), make_table(2), make_table(3)};
  static const Table lenient[4] = {{}, {{"KB", 1e3L}, {"Kb", 125.0L}}, {{"KBps", 1e3L}, {"Kbps", 125.0L}},
                                   {{"zetaflops", 1e21L}, {"zettaflops", 1e21L}}};
  static const char* defunit[4] = {"s", "B", "Bps", "f"};
  if (size < 1)
    return 0;
  int kind = data[0] & 3;
  std::string s(reinterpret_cast<const char*>(data + 1), size - 1);
  if (s.find('\0') != std::string::npos)
    return 0;
  bool threw = false;
  double got = 0;
  try {
    switch (kind) {
      case 0: got = xbt_parse_get_time("fuzz", 1, s, ""); break;
      case 1: got = xbt_parse_get_size("fuzz", 1, s, ""); break;
      case 2: got = xbt_parse_get_bandwidth("fuzz", 1, s, ""); break;
      default: got = xbt_parse_get_speed("fuzz", 1, s, ""); break;
    }
  } catch (const simgrid::ParseError&) {
    threw = true;
  }
  // ---- reference reading
  std::string body = (not s.empty() && (s[0] == '+' || s[0] == '-')) ? s.substr(1) : s;
  std::string low  = body.substr(0, 3);
  for (auto& c : low)
    c = static_cast<char>(tolower(static_cast<unsigned char>(c)));
  if (not s.empty() && strchr(" \t\n\v\f\r", s[0]))
    return 0; // strtod skips blanks: open
  if (low.rfind("0x", 0) == 0 || low == "inf" || low == "nan")
    return 0; // C99 extras: open
  size_t nl = number_len(s);
  if (nl == 0) {
    if (not threw)
      oracle_fail(kind, s, "no-number-accepted", got);
    return 0;
  }
  std::string num = s.substr(0, nl), unit = s.substr(nl);
  errno           = 0;
  long double x   = strtold(num.c_str(), nullptr);
  long double ax  = fabsl(x);
  if (errno == ERANGE && not std::isinf(x))
    return 0; // underflows even long double: a subnormal/zero double, open
  const long double overflow = ldexpl(1.0L, 1024) - ldexpl(1.0L, 970);
  if (std::isinf(x) || ax > overflow * (1 + 1e-17L)) {
    if (not threw)
      oracle_fail(kind, s, "overflowing-number-accepted", got);
    return 0;
  }
  if (ax >= overflow * (1 - 1e-17L))
    return 0; // too close to the rounding boundary for long double
  if (x != 0 && ax < ldexpl(1.0L, -1022) * (1 + 1e-17L))
    return 0; // subnormal literal: open
  auto const& tab = tables[kind];
  long double mult;
  bool must_accept = true;
  if (unit.empty()) {
    mult        = tab.at(defunit[kind]);
    must_accept = x == 0; // only zero may go without a unit (non-zero: deprecated form, open)
  } else if (auto it = tab.find(unit); it != tab.end()) {
    mult = it->second;
  } else if (auto it2 = lenient[kind].find(unit); it2 != lenient[kind].end()) {
    mult        = it2->second; // spellings on which docs and code disagree: open, but never another multiplier
    must_accept = false;
  } else {
    if (not threw)
      oracle_fail(kind, s, "unknown-unit-accepted", got);
    return 0;
  }
  if (threw) {
    if (must_accept)
      oracle_fail(kind, s, "valid-rejected", 0);
    return 0;
  }
  long double want = x * mult;
  if (fabsl(want) > static_cast<long double>(DBL_MAX) * (1 - 1e-15L))
    return 0; // product beyond DBL_MAX: open
  double wd = static_cast<double>(want);
  long double ulp = fabsl(static_cast<long double>(nextafter(fabs(wd), INFINITY)) - fabsl(static_cast<long double>(wd)));
  if (std::isnan(got) || fabsl(static_cast<long double>(got) - want) > 2 * ulp + 1e-18L * fabsl(want))
    oracle_fail(kind, s, "wrong-value", got);
  return 0;
}

/* ---- stubs for the parts of libsimgrid that xbt_parse_units.cpp and Exception.cpp refer to ---- */
#include "xbt/backtrace.hpp"
#include "xbt/log.h"
#include "xbt/string.hpp"
#include <cstdarg>
s_xbt_log_category_t _XBT_LOGV(XBT_LOG_ROOT_CAT) = {};
XBT_LOG_NEW_CATEGORY(xbt, "stub");
std::string simgrid::xbt::string_printf(const char* fmt, ...)
{
  char buf[2048];
  va_list ap;
  va_start(ap, fmt);
  vsnprintf(buf, sizeof buf, fmt, ap);
  va_end(ap);
  return buf;
}
int _xbt_log_cat_init(xbt_log_category_t, e_xbt_log_priority_t)
{
  return 0; // every category is disabled
}
void _xbt_log_event_log(xbt_log_event_t, const char*, ...) {}
const char* sg_actor_self_get_name()
{
  return "fuzz";
}
aid_t sg_actor_self_get_pid()
{
  return 0;
}
simgrid::xbt::Backtrace::Backtrace(bool) {}
void xbt_throw_impossible(const char*, int, const char*)
{
  abort();
}
