// vf-driver: kind=cxx
/* smpi_blocks_driver (C35 level a): direct calls of the functions that compute which bytes of a message sent from / received
 * into a SMPI_PARTIAL_SHARED_MALLOC buffer are copied (src/smpi/internals/smpi_shared.cpp).
 *
 * case: {"q":[query,...]}   one JSON line of output per query, in order
 *   ["shift", [[b,e],...], offset, n]        -> {"r":[[b,e],...]}            shift_and_frame_private_blocks(vec, offset, n)
 *   ["merge", [[b,e],...], [[b,e],...]]      -> {"r":[[b,e],...]}            merge_private_blocks(a, b)
 *   ["copy", vec|null, so, vec|null, do, n]  -> {"s":..,"d":..,"m":..}       what smpi_comm_copy_buffer_callback computes:
 *                                               s/d = shift_and_frame(...) (or [[0,n]] for a side that is not shared),
 *                                               m = merge_private_blocks(s, d); "early":"src"|"dst" when the callback
 *                                               would return before copying anything (empty shifted list)
 *   ["alloc", size, [s0,e0,s1,e1,...], [p,...]] -> {"ptr":[[found,offset,[[b,e],..]],...]}
 *                                               real smpi_shared_malloc_partial(size, offsets, k), then smpi_is_shared(mem+p)
 *                                               for every p, then smpi_shared_free(mem)
 * No oracle here.  In-process server (nothing of this needs an engine; the allocation is freed at the end of the query).
 */
#include "smpi/smpi.h"
#include "src/smpi/include/private.hpp"
#include "xbt/log.h"

#include "forkserver.hpp"

#include <nlohmann/json.hpp>
#include <vector>

using json   = nlohmann::json;
using Blocks = std::vector<std::pair<size_t, size_t>>;

static Blocks blocks_of(const json& j)
{
  Blocks r;
  for (auto const& b : j)
    r.emplace_back(b[0].get<size_t>(), b[1].get<size_t>());
  return r;
}
static json json_of(const Blocks& v)
{
  json r = json::array();
  for (auto const& [b, e] : v)
    r.push_back({b, e});
  return r;
}

static int run_case(const std::string& text)
{
  static bool inited = false;
  if (not inited) {
    smpi_init_options(); // declares smpi/shared-malloc-blocksize & co (needed by the "alloc" query only)
    inited = true;
  }
  json c = json::parse(text);
  for (auto const& q : c["q"]) {
    std::string op = q[0];
    json out;
    if (op == "shift") {
      out["r"] = json_of(shift_and_frame_private_blocks(blocks_of(q[1]), q[2].get<size_t>(), q[3].get<size_t>()));
    } else if (op == "merge") {
      out["r"] = json_of(merge_private_blocks(blocks_of(q[1]), blocks_of(q[2])));
    } else if (op == "copy") {
      size_t n = q[5].get<size_t>();
      Blocks s;
      Blocks d;
      const char* early = nullptr;
      if (q[1].is_null())
        s.emplace_back(0, n);
      else {
        s = shift_and_frame_private_blocks(blocks_of(q[1]), q[2].get<size_t>(), n);
        if (s.empty())
          early = "src";
      }
      if (q[3].is_null())
        d.emplace_back(0, n);
      else {
        d = shift_and_frame_private_blocks(blocks_of(q[3]), q[4].get<size_t>(), n);
        if (d.empty() && early == nullptr)
          early = "dst";
      }
      out["s"] = json_of(s);
      out["d"] = json_of(d);
      out["m"] = early ? json::array() : json_of(merge_private_blocks(s, d));
      if (early)
        out["early"] = early;
    } else if (op == "alloc") {
      size_t size = q[1].get<size_t>();
      std::vector<size_t> offs;
      for (auto const& x : q[2])
        offs.push_back(x.get<size_t>());
      char* mem = static_cast<char*>(smpi_shared_malloc_partial(size, offs.data(), static_cast<int>(offs.size() / 2)));
      json res  = json::array();
      for (auto const& p : q[3]) {
        Blocks b;
        size_t off = 424242;
        int found  = smpi_is_shared(mem + p.get<size_t>(), b, &off);
        res.push_back({found, off, json_of(b)});
      }
      smpi_shared_free(mem);
      Blocks b;
      size_t off = 0;
      out["after_free"] = smpi_is_shared(mem, b, &off);
      out["ptr"]        = res;
    } else {
      out["error"] = "unknown query " + op;
    }
    printf("%s\n", out.dump().c_str());
  }
  printf("{\"done\":true}\n");
  return 0;
}

int main(int argc, char** argv)
{
  return vf_main(argc, argv, run_case, nullptr, true);
}
