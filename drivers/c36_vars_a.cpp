/* c36_vars_a.cpp: first translation unit of globals for C36 (see c36_vars.hpp).
 *  id 0 a_init        int, initialised (.data)
 *  id 1 a_bss         int, zero (.bss)
 *  id 2 a_static_init static int, initialised
 *  id 3 a_static_bss  static long, zero
 *  id 4 a_dbl         double, initialised
 *  id 5 a_arr[0]      int[1024] initialised, first element
 *  id 6 a_arr[C36_N_ARR - 1]   last element
 *  id 7 a_big_bss[0]            int[C36_N_BIG] zero (6 kB .. 1.2 MB of .bss depending on C36_SCALE: beyond the file-backed part of the data segment)
 *  id 8 a_big_bss[C36_N_BIG - 1]
 *  id 9 a_big_bss[C36_N_BIG / 2]
 */
#include "c36_vars.hpp"

int a_init = 11;
int a_bss;
static int a_static_init = 13;
static long a_static_bss;
double a_dbl = 1.5;
int a_arr[C36_N_ARR] = {21, 22, 23};
int a_big_bss[C36_N_BIG];
int c36_sbuf[C36_NBUF] = {7, 7, 7};

long long c36_get_a(int id)
{
  switch (id) {
    case 0: return a_init;
    case 1: return a_bss;
    case 2: return a_static_init;
    case 3: return a_static_bss;
    case 4: return static_cast<long long>(a_dbl * 2);
    case 5: return a_arr[0];
    case 6: return a_arr[C36_N_ARR - 1];
    case 7: return a_big_bss[0];
    case 8: return a_big_bss[C36_N_BIG - 1];
    case 9: return a_big_bss[C36_N_BIG / 2];
    default: return -999;
  }
}

void c36_set_a(int id, long long v)
{
  switch (id) {
    case 0: a_init = static_cast<int>(v); break;
    case 1: a_bss = static_cast<int>(v); break;
    case 2: a_static_init = static_cast<int>(v); break;
    case 3: a_static_bss = static_cast<long>(v); break;
    case 4: a_dbl = static_cast<double>(v) / 2; break;
    case 5: a_arr[0] = static_cast<int>(v); break;
    case 6: a_arr[C36_N_ARR - 1] = static_cast<int>(v); break;
    case 7: a_big_bss[0] = static_cast<int>(v); break;
    case 8: a_big_bss[C36_N_BIG - 1] = static_cast<int>(v); break;
    case 9: a_big_bss[C36_N_BIG / 2] = static_cast<int>(v); break;
    default: break;
  }
}

long long c36_aget_a(int arr, long idx)
{
  return arr == 0 ? a_arr[idx] : a_big_bss[idx];
}

void c36_aset_a(int arr, long idx, long long v)
{
  if (arr == 0)
    a_arr[idx] = static_cast<int>(v);
  else
    a_big_bss[idx] = static_cast<int>(v);
}
