/* s4u_ext_comm.hpp: operations and records added to the S4U interpreter for C08 (mailboxes) and C09 (message queues).
 * Documented in /verif/notes/C08.md.  Owner: the "comm" builder.
 *
 *   ["fsend", mb, size, {id, tag, dst, rate, detach, h}]   filtered send through the raw isend simcall, the way SMPI does it
 *                                                          (match function + match data).  h: asynchronous (own handle table),
 *                                                          detach: detached with a clean-up function, neither: blocking (Comm::send)
 *   ["frecv", mb, {id, tag, src, rate, h}]                 filtered receive (raw irecv simcall / Comm::recv when blocking)
 *        buffer mode (the way SMPI moves data): fsend {..., "buf": L} sends L >= 64 real bytes (header + pattern) with a copy function that
 *        memcpy()s and logs {"k":"copy","from","seq","bytes"}; frecv {..., "cap": C} receives into a buffer of C >= 64 bytes and reports
 *        {"from","seq","size","tag","intact","len": bytes received,"sent": L}.  A mailbox must not mix the two modes (the copy function
 *        of the last comer is used).
 *   ["fwait", h, {timeout}] ["ftest", h] ["fcancel", h]    on the handles of fsend/frecv (raw ActivityImpl, like smpi::Request)
 *   ["iprobe", mb, "recv"|"send", {id, tag, src|dst}]      Mailbox::iprobe with the same filters -> identity of the comm found | null
 *   ["mb_dump", mb]                                        kernel-linearised dump of the two queues of a mailbox
 *   ["mq_dump", q]                                         same for a message queue
 *   ["put_t", mb, size, timeout]                           Mailbox::put(payload, size, timeout) (the core's "put" with a timeout is put_async +
 *                                                          wait_for and never cancels: not the same thing)
 *   ["put_wait", mb, size, {timeout, rate}]                put_init()->wait_for() WITHOUT start (Comm::wait_for's one-simcall path)
 *   ["get_wait", mb, {timeout, rate}]                      get_init()->set_dst_data()->wait_for() without start
 *   ["mq_put_wait", q, {timeout}]                          MessageQueue::put_init(p)->wait_for() without start
 *   ["mq_get_wait", q, h, {timeout}]                       get_init()->set_dst_data(slot)->wait_for() without start; the slot stays in handle h
 *   ["mq_peek", h]                                         what the receive slot of h holds now (reported once)
 *   ["mq_put_detach", q]                                   put_init(p)->detach(clean-up)
 * Scenario key "comm_dump": true -> a record {"k":"final_dump","when":"deadlock"|"end","mb":[...],"mq":[...]} at the deadlock / end.
 * Record {"k":"match_misuse",...}: a match function was called with arguments that are not (own data, other side's data).
 */
#pragma once
#include "src/kernel/activity/MailboxImpl.hpp"
#include "src/kernel/activity/MessImpl.hpp"
#include "src/kernel/activity/MessageQueueImpl.hpp"
#include "src/kernel/actor/CommObserver.hpp"
#include "src/kernel/actor/WaitTestObserver.hpp"
#include <simgrid/s4u/Mess.hpp>
#include <simgrid/s4u/MessageQueue.hpp>

namespace vf {
namespace commext {

namespace ka = simgrid::kernel::activity;
namespace kr = simgrid::kernel::actor;

struct FData {
  unsigned magic = 0xFD47A001u;
  int role       = 0; // 0 send, 1 receive
  int id         = 0; // identity of the actor posting the comm
  int tag        = 0; // send: tag of the message; receive: wanted tag or -1
  int peer       = -1; // send: wanted receiver id or -1; receive: wanted sender id or -1
  char pad[1024] = {0}; // IprobeSimcall's constructor reads match_data as if it were a smpi::Request (req->tag()): keep that read in bounds
};

static bool accepts(const FData* s, const FData* r)
{
  return (r->tag < 0 || r->tag == s->tag) && (r->peer < 0 || r->peer == s->id) && (s->peer < 0 || s->peer == r->id);
}

static void misuse(const char* who, const FData* mine, const FData* other)
{
  json j = {{"k", "match_misuse"}, {"fun", who}, {"t", hx(now())}, {"mine_role", mine ? mine->role : -1},
            {"other_role", other ? other->role : -1}};
  emit(j);
}

/* contract of CommImpl match functions: fun(data of the comm that owns the function, data of the other side, other comm).
 * A side without filter (plain put/get) has no data: it accepts everything and is accepted by everybody. */
static bool match_of_send(void* mine, void* other, ka::CommImpl*)
{
  auto* s = static_cast<FData*>(mine);
  auto* r = static_cast<FData*>(other);
  if (s == nullptr || s->magic != 0xFD47A001u || s->role != 0 || (r != nullptr && (r->magic != 0xFD47A001u || r->role != 1))) {
    misuse("send", s, r);
    return false;
  }
  return r == nullptr || accepts(s, r);
}
static bool match_of_recv(void* mine, void* other, ka::CommImpl*)
{
  auto* r = static_cast<FData*>(mine);
  auto* s = static_cast<FData*>(other);
  if (r == nullptr || r->magic != 0xFD47A001u || r->role != 1 || (s != nullptr && (s->magic != 0xFD47A001u || s->role != 0))) {
    misuse("recv", r, s);
    return false;
  }
  return s == nullptr || accepts(s, r);
}

struct FHandle {
  ka::ActivityImplPtr act;
  bool is_recv    = false;
  void** slot     = nullptr;
  size_t* slot_sz = nullptr;
  bool reported   = false;
  unsigned char* buf = nullptr; // buffer mode
  size_t cap         = 0;
};
static std::map<int, FHandle>& fhandles()
{
  static std::map<int, FHandle> m;
  return m;
}

static json comm_json(const ka::CommImplPtr& c)
{
  if (c->get_type() == ka::CommImplType::SEND) {
    unsigned magic = 0;
    if (c->src_buff_ != nullptr)
      memcpy(&magic, c->src_buff_, sizeof magic);
    if (magic == 0xB0FFE701u) { // buffer mode: BufHdr (declared below) = magic, seq, tag, len, simsize, sender[32]
      int seq;
      memcpy(&seq, c->src_buff_ + sizeof(unsigned), sizeof seq);
      char sender[32];
      memcpy(sender, c->src_buff_ + sizeof(unsigned) + 3 * sizeof(int) + sizeof(double), sizeof sender);
      sender[31] = 0;
      return json::array({"s", std::string(sender), seq, c->get_state_str()});
    }
    auto* p = magic == 0xC0FFEE11u ? reinterpret_cast<Payload*>(c->src_buff_) : nullptr;
    return json::array({"s", p ? json(p->sender) : json(nullptr), p ? p->seq : -1, c->get_state_str()});
  }
  return json::array({"r", c->dst_actor_ ? json(c->dst_actor_->get_name()) : json(nullptr), c->get_state_str()});
}

static json dump_mailbox(ka::MailboxImpl* mb)
{
  json q = json::array(), d = json::array();
  for (auto const& c : mb->comm_queue_)
    q.push_back(comm_json(c));
  for (auto const& c : mb->done_comm_queue_)
    d.push_back(comm_json(c));
  json perm = nullptr;
  if (mb->permanent_receiver_)
    perm = mb->permanent_receiver_->get_name();
  return json{{"q", q}, {"done", d}, {"perm", perm}};
}

static json dump_mqueue(ka::MessageQueueImpl* mq)
{
  json q = json::array();
  for (auto const& m : mq->queue_) {
    if (m->get_type() == ka::MessImplType::PUT) {
      auto* p = static_cast<Payload*>(m->get_payload());
      q.push_back(json::array({"s", p ? json(p->sender) : json(nullptr), p ? p->seq : -1, m->get_state_str()}));
    } else
      q.push_back(json::array({"r", m->dst_actor_ ? json(m->dst_actor_->get_name()) : json(nullptr), m->get_state_str()}));
  }
  return json{{"q", q}};
}

/* ---- buffer mode */
struct BufHdr {
  unsigned magic = 0xB0FFE701u;
  int seq        = 0;
  int tag        = 0;
  int len        = 0;
  double simsize = 0;
  char sender[32] = {0};
};
static_assert(offsetof(BufHdr, sender) == sizeof(unsigned) + 3 * sizeof(int) + sizeof(double), "comm_json() decodes this layout by hand");
static unsigned char pattern(int seq, size_t i)
{
  return static_cast<unsigned char>((seq * 31 + i * 7 + 13) & 0xff);
}
static unsigned char* make_buffer(Payload* p, int len)
{
  auto* b = new unsigned char[len];
  BufHdr h;
  h.seq     = p->seq;
  h.tag     = p->tag;
  h.len     = len;
  h.simsize = p->size;
  snprintf(h.sender, sizeof h.sender, "%s", p->sender.c_str());
  memcpy(b, &h, sizeof h);
  for (size_t i = sizeof h; i < static_cast<size_t>(len); i++)
    b[i] = pattern(p->seq, i);
  return b;
}
static void buf_copy(ka::CommImpl* comm, void* buff, size_t buff_size)
{
  json j = {{"k", "copy"}, {"t", hx(now())}, {"bytes", buff_size}};
  if (buff_size >= sizeof(BufHdr)) {
    BufHdr h;
    memcpy(&h, buff, sizeof h);
    h.sender[sizeof h.sender - 1] = 0;
    j["from"] = h.magic == 0xB0FFE701u ? json(std::string(h.sender)) : json(nullptr);
    j["seq"]  = h.seq;
  }
  emit(j);
  memcpy(comm->dst_buff_, buff, buff_size);
}
/* what a receive buffer of capacity cap holds, given the number of bytes the kernel says it copied */
static json decode_buffer(unsigned char* b, size_t cap, size_t len)
{
  BufHdr h;
  memcpy(&h, b, sizeof h);
  if (h.magic != 0xB0FFE701u)
    return nullptr;
  h.sender[sizeof h.sender - 1] = 0;
  bool ok = len <= cap && len >= sizeof h;
  for (size_t i = sizeof h; ok && i < len; i++)
    ok = b[i] == pattern(h.seq, i);
  for (size_t i = len; ok && i < cap; i++)
    ok = b[i] == 0xEE; // nothing written beyond the announced length
  return json{{"from", std::string(h.sender)}, {"seq", h.seq}, {"size", h.simsize}, {"tag", h.tag}, {"intact", ok}, {"len", len}, {"sent", h.len}};
}

static json slot_result(FHandle& h)
{
  if (h.is_recv && h.buf != nullptr) {
    json r = decode_buffer(h.buf, h.cap, *h.slot_sz);
    if (not r.is_null()) {
      h.reported = true;
      memset(h.buf, 0xEE, h.cap); // consumed: a second copy would show up again
    }
    return r;
  }
  if (not h.is_recv)
    return "done";
  auto* p = static_cast<Payload*>(*h.slot);
  json r  = payload_json(p);
  if (p != nullptr)
    r["bufsz"] = *h.slot_sz; // the kernel updates it to the copied amount: must stay sizeof(void*)
  if (not h.reported && p != nullptr) {
    h.reported = true;
    delete p;
    *h.slot = nullptr;
  }
  return r;
}

/* what the receive slot of an interpreter handle holds now; a payload is consumed (freed, slot emptied) when it is reported.
 * (the core's finished_result() marks the handle as reported even when the slot is still empty) */
static json peek_slot(Handle& h)
{
  auto* p = static_cast<Payload*>(*static_cast<void**>(h.slot));
  json r  = payload_json(p);
  if (p != nullptr) {
    h.reported                   = true;
    delete p;
    *static_cast<void**>(h.slot) = nullptr;
  }
  return r;
}

static bool ops(Ctx& c, int idx, const json& op, json& result)
{
  const std::string o = op[0].get<std::string>();
  auto I              = [&op](int k) { return op[k].get<int>(); };
  auto D              = [&op](int k) { return op[k].get<double>(); };
  auto OPT            = [&op](size_t k) { return op.size() > k && op[k].is_object() ? op[k] : json::object(); };
  auto* self          = kr::ActorImpl::self();

  if (o == "fsend") { // ["fsend", mb, size, opts]
    json opts  = OPT(3);
    auto* p    = make_payload(c, D(2), opts.value("tag", 0));
    auto* fd   = new FData; // leaked on purpose: must outlive the comm
    fd->role   = 0;
    fd->id     = opts.value("id", 0);
    fd->tag    = opts.value("tag", 0);
    fd->peer   = opts.value("dst", -1);
    json id    = {{"from", p->sender}, {"seq", p->seq}, {"tag", p->tag}};
    double rate = opts.value("rate", -1.0);
    auto* mb   = S->mailboxes[I(1)];
    bool detach = opts.value("detach", false);
    int buflen  = opts.value("buf", 0);
    void* src   = p;
    size_t srcsz = sizeof(void*);
    std::function<void(ka::CommImpl*, void*, size_t)> copyfun;
    if (buflen > 0) {
      src     = make_buffer(p, buflen);
      srcsz   = buflen;
      copyfun = buf_copy;
      delete p;
    }
    if (not opts.contains("h") && not detach) {
      sg4::Comm::send(self, mb, D(2), rate, src, srcsz, match_of_send, copyfun, fd, opts.value("timeout", -1.0));
      result = id;
      return true;
    }
    std::function<void(void*)> clean;
    if (detach) {
      std::string who = c.name;
      clean           = [who, id, buflen](void* data) {
        json j = {{"k", "detach_clean"}, {"a", who}, {"t", hx(now())}, {"payload", id}};
        emit(j);
        if (buflen > 0)
          delete[] static_cast<unsigned char*>(data);
        else
          delete static_cast<Payload*>(data);
      };
    }
    kr::CommIsendSimcall observer{self, mb->get_impl(), D(2), rate, static_cast<unsigned char*>(src), srcsz,
                                  match_of_send, clean, copyfun, fd, detach, "fsend"};
    ka::ActivityImplPtr act =
        kr::simcall_answered([&observer] { return ka::CommImpl::isend(&observer); }, &observer);
    if (not detach) {
      FHandle& h = fhandles()[opts["h"].get<int>()];
      h.act      = act;
      h.is_recv  = false;
    }
    result = id;
    return true;
  }
  if (o == "frecv") { // ["frecv", mb, opts]
    json opts   = OPT(2);
    auto* fd    = new FData;
    fd->role    = 1;
    fd->id      = opts.value("id", 0);
    fd->tag     = opts.value("tag", -1);
    fd->peer    = opts.value("src", -1);
    double rate = opts.value("rate", -1.0);
    auto* mb    = S->mailboxes[I(1)];
    auto* slot  = new void*(nullptr);
    auto* sz    = new size_t(sizeof(void*));
    size_t cap  = opts.value("cap", 0);
    unsigned char* buf = nullptr;
    std::function<void(ka::CommImpl*, void*, size_t)> copyfun;
    if (cap > 0) {
      buf = new unsigned char[cap];
      memset(buf, 0xEE, cap);
      *sz     = cap;
      copyfun = buf_copy;
    }
    unsigned char* dst = cap > 0 ? buf : reinterpret_cast<unsigned char*>(slot);
    if (not opts.contains("h")) {
      sg4::Comm::recv(self, mb, dst, sz, match_of_recv, copyfun, fd, opts.value("timeout", -1.0), rate);
      if (cap > 0) {
        result = decode_buffer(buf, cap, *sz);
        return true;
      }
      auto* p = static_cast<Payload*>(*slot);
      result  = payload_json(p);
      if (p != nullptr)
        result["bufsz"] = *sz;
      delete p;
      return true;
    }
    kr::CommIrecvSimcall observer{self, mb->get_impl(), dst, sz, match_of_recv, copyfun, fd, rate, "frecv"};
    ka::ActivityImplPtr act =
        kr::simcall_answered([&observer] { return ka::CommImpl::irecv(&observer); }, &observer);
    FHandle& h = fhandles()[opts["h"].get<int>()];
    h.act      = act;
    h.is_recv  = true;
    h.slot     = slot;
    h.slot_sz  = sz;
    h.buf      = buf;
    h.cap      = cap;
    result     = nullptr;
    return true;
  }
  if (o == "fwait") { // ["fwait", h, {timeout}]
    json opts      = OPT(2);
    FHandle& h     = fhandles()[I(1)];
    double timeout = opts.value("timeout", -1.0);
    kr::ActivityWaitSimcall observer{self, h.act.get(), timeout, "fwait"};
    if (kr::simcall_blocking([&observer] { observer.get_activity()->wait_for(observer.get_issuer(), observer.get_timeout()); },
                             &observer))
      throw simgrid::TimeoutException(XBT_THROW_POINT, "Timeouted");
    result = slot_result(h);
    return true;
  }
  if (o == "ftest") {
    FHandle& h = fhandles()[I(1)];
    kr::ActivityTestSimcall observer{self, h.act.get(), "ftest"};
    if (kr::simcall_answered([&observer] { return observer.get_activity()->test(observer.get_issuer()); }, &observer))
      result = slot_result(h);
    else
      result = false;
    return true;
  }
  if (o == "fcancel") {
    FHandle& h = fhandles()[I(1)];
    auto act   = h.act;
    kr::simcall_answered([act] { boost::static_pointer_cast<ka::CommImpl>(act)->cancel(); });
    result = nullptr;
    return true;
  }
  if (o == "iprobe") { // ["iprobe", mb, "recv"|"send", opts]: "recv" = I am a receiver looking for a send
    json opts = OPT(3);
    FData fd;
    bool as_recv = op[2].get<std::string>() == "recv";
    fd.role      = as_recv ? 1 : 0;
    fd.id        = opts.value("id", 0);
    fd.tag       = opts.value("tag", as_recv ? -1 : 0);
    fd.peer      = as_recv ? opts.value("src", -1) : opts.value("dst", -1);
    bool nofilter = opts.value("nofilter", false);
    auto found   = S->mailboxes[I(1)]->iprobe(as_recv ? sg4::Mailbox::IprobeKind::RECV : sg4::Mailbox::IprobeKind::SEND,
                                            nofilter ? std::function<bool(void*, void*, ka::CommImpl*)>()
                                                     : (as_recv ? match_of_recv : match_of_send),
                                            nofilter ? nullptr : &fd);
    if (found == nullptr)
      result = nullptr;
    else
      result = comm_json(boost::static_pointer_cast<ka::CommImpl>(found));
    return true;
  }
  if (o == "mb_dump") {
    auto* mb = S->mailboxes[I(1)]->get_impl();
    result   = kr::simcall_answered([mb] { return dump_mailbox(mb); });
    return true;
  }
  if (o == "mq_dump") {
    auto* mq = S->mqueues[I(1)]->get_impl();
    result   = kr::simcall_answered([mq] { return dump_mqueue(mq); });
    return true;
  }
  if (o == "put_t") { // ["put_t", mb, size, timeout]: the real blocking put with timeout (cancels the comm on timeout)
    auto* p = make_payload(c, D(2), 0);
    json id = {{"from", p->sender}, {"seq", p->seq}};
    S->mailboxes[I(1)]->put(p, static_cast<uint64_t>(D(2)), D(3));
    result = id;
    return true;
  }
  if (o == "put_wait") { // ["put_wait", mb, size, {timeout, rate}]
    json opts = OPT(3);
    auto* p   = make_payload(c, D(2), 0);
    json id   = {{"from", p->sender}, {"seq", p->seq}};
    auto comm = S->mailboxes[I(1)]->put_init(p, static_cast<uint64_t>(D(2)));
    comm->set_name(c.name + "#" + std::to_string(idx));
    if (opts.contains("rate"))
      comm->set_rate(opts["rate"].get<double>());
    comm->wait_for(opts.value("timeout", -1.0)); // Comm::wait_for on an INITED comm
    result = id;
    return true;
  }
  if (o == "get_wait") { // ["get_wait", mb, {timeout, rate}]
    json opts  = OPT(2);
    auto* slot = new void*(nullptr);
    auto comm  = S->mailboxes[I(1)]->get_init()->set_dst_data(slot, sizeof(void*));
    comm->set_name(c.name + "#" + std::to_string(idx));
    if (opts.contains("rate"))
      comm->set_rate(opts["rate"].get<double>());
    comm->wait_for(opts.value("timeout", -1.0));
    auto* p = static_cast<Payload*>(*slot);
    result  = payload_json(p);
    delete p;
    return true;
  }
  if (o == "mq_put_wait") { // ["mq_put_wait", q, {timeout}]
    json opts = OPT(2);
    auto* p   = make_payload(c, 0, 0);
    json id   = {{"from", p->sender}, {"seq", p->seq}};
    auto m    = S->mqueues[I(1)]->put_init(p);
    m->wait_for(opts.value("timeout", -1.0)); // Mess::wait_for on an INITED mess
    Handle& h = handle(opts.value("h", -1000 - idx));
    h.act     = m; // keep it alive
    h.kind    = "mess_put";
    result    = id;
    return true;
  }
  if (o == "mq_get_wait") { // ["mq_get_wait", q, h, {timeout}]
    json opts  = OPT(3);
    auto* slot = new void*(nullptr);
    auto m     = S->mqueues[I(1)]->get_init()->set_dst_data(slot, sizeof(void*));
    Handle& h  = handle(I(2));
    h.act      = m;
    h.kind     = "mess_get";
    h.slot     = slot;
    m->wait_for(opts.value("timeout", -1.0));
    result = peek_slot(h);
    return true;
  }
  if (o == "mq_peek") {
    result = peek_slot(handle(I(1)));
    return true;
  }
  if (o == "mq_put_detach") {
    auto* p         = make_payload(c, 0, 0);
    json id         = {{"from", p->sender}, {"seq", p->seq}};
    std::string who = c.name;
    S->mqueues[I(1)]->put_init(p)->detach([who, id](void* data) {
      json j = {{"k", "detach_clean"}, {"a", who}, {"t", hx(now())}, {"payload", id}};
      emit(j);
      delete static_cast<Payload*>(data);
    });
    result = id;
    return true;
  }
  return false;
}

static void final_dump(const char* when)
{
  json mbs = json::array(), mqs = json::array();
  for (auto* mb : S->mailboxes)
    mbs.push_back(dump_mailbox(mb->get_impl()));
  for (auto* mq : S->mqueues)
    mqs.push_back(dump_mqueue(mq->get_impl()));
  json j = {{"k", "final_dump"}, {"when", when}, {"t", hx(now())}, {"mb", mbs}, {"mq", mqs}};
  emit(j);
}

static void setup_ext()
{
  if (S->mc_mode || not S->scenario.value("comm_dump", false))
    return;
  sg4::Engine::on_deadlock_cb([]() { final_dump("deadlock"); });
  sg4::Engine::on_simulation_end_cb([]() { final_dump("end"); });
}

static ExtRegister reg(ops, setup_ext);
} // namespace commext
} // namespace vf
