/* mpi_ops_rma.cpp: one-sided communication for C34 (builder mpi2).  Part of the mpi_interp family (see mpi_interp.hpp /
 * notes/MPI_INFRA.md); linked into the `mpi2_interp` driver.
 *
 *   win_create   MPI_Win_create over a named buffer / MPI_Win_allocate
 *   rma          a sequence of synchronisation and RMA calls executed by one rank (one JSON line per sequence)
 *   win_read     hex dump of the local window memory (optionally inside an exclusive lock on oneself)
 *   win_free
 *
 * Origin and result buffers of the RMA calls are created by the calls themselves (named "o<id>", "c<id>" and "r<id>") and kept
 * until `rma_results` reads them: MPI requires them to stay untouched until the epoch is closed.
 */
#include "mpi_interp.hpp"

#include <simgrid/s4u/Actor.hpp>

using namespace mpii;

static constexpr size_t GUARD = mpii::BUF_GUARD;

static MPI_Win& find_win(Rank& R, const json& a)
{
  return Rank::find(R.wins, a.value("win", std::string("w")), "win");
}

static unsigned char* new_buf(Rank& R, const std::string& name, const std::vector<unsigned char>& content)
{
  std::vector<unsigned char> b(content.size() + 2 * GUARD, 0xA5);
  if (not content.empty())
    memcpy(b.data() + GUARD, content.data(), content.size());
  auto& slot = R.bufs[name];
  slot       = std::move(b);
  return slot.data() + GUARD;
}

static bool guards_ok(const std::vector<unsigned char>& b)
{
  for (size_t i = 0; i < GUARD; i++)
    if (b[i] != 0xA5 || b[b.size() - 1 - i] != 0xA5)
      return false;
  return true;
}

/* bulk pattern: element j of a buffer with seed s = low bytes of (s * 0x9E3779B97F4A7C15 + j * 0xBF58476D1CE4E5B9 + 1) */
static std::vector<unsigned char> pattern(unsigned long long seed, size_t count, int tsize)
{
  std::vector<unsigned char> b(count * tsize);
  for (size_t j = 0; j < count; j++) {
    unsigned long long v = seed * 0x9E3779B97F4A7C15ULL + j * 0xBF58476D1CE4E5B9ULL + 1;
    memcpy(b.data() + j * tsize, &v, tsize);
  }
  return b;
}

static uint32_t crc32_of(const unsigned char* p, size_t n)
{
  static uint32_t table[256];
  static bool init = false;
  if (not init) {
    for (uint32_t i = 0; i < 256; i++) {
      uint32_t c = i;
      for (int k = 0; k < 8; k++)
        c = (c & 1) ? 0xEDB88320u ^ (c >> 1) : c >> 1;
      table[i] = c;
    }
    init = true;
  }
  uint32_t c = 0xFFFFFFFFu;
  for (size_t i = 0; i < n; i++)
    c = table[(c ^ p[i]) & 0xFF] ^ (c >> 8);
  return c ^ 0xFFFFFFFFu;
}

/* base addresses of the windows created with MPI_Win_allocate: (rank, window name) -> (pointer, bytes) */
static std::map<std::pair<int, std::string>, std::pair<unsigned char*, size_t>> allocated;

/* {"op":"win_create","win":name,"hex":initial content (per rank with {"@":[..]}),"unit":disp_unit,"comm"?,"alloc":bool?}
 *   alloc: MPI_Win_allocate (the memory is then initialised from hex after the creation); else MPI_Win_create over buffer "wb:<name>" */
MPI_OPERATION(win_create)
{
  std::string name = a.value("win", std::string("w"));
  auto content     = from_hex(a.at("hex").get<std::string>());
  int unit         = a.value("unit", 1);
  if (a.contains("bulk")) { // {"bulk": {"seed": s, "count": n, "tsize": bytes}}: a patterned area after the hex part
    auto extra = pattern(a.at("bulk").at("seed").get<unsigned long long>(), a.at("bulk").at("count").get<size_t>(),
                         a.at("bulk").at("tsize").get<int>());
    content.insert(content.end(), extra.begin(), extra.end());
  }
  MPI_Win win      = MPI_WIN_NULL;
  if (a.value("alloc", false)) {
    void* base = nullptr;
    o["rc"]    = MPI_Win_allocate(static_cast<MPI_Aint>(content.size()), unit, MPI_INFO_NULL, R.comm(a), &base, &win);
    if (base != nullptr && not content.empty())
      memcpy(base, content.data(), content.size());
    allocated[{R.rank, name}] = {static_cast<unsigned char*>(base), content.size()};
    o["base_null"]            = base == nullptr;
  } else {
    unsigned char* p = new_buf(R, "wb:" + name, content);
    o["rc"]          = MPI_Win_create(p, static_cast<MPI_Aint>(content.size()), unit, MPI_INFO_NULL, R.comm(a), &win);
    allocated.erase({R.rank, name});
  }
  R.wins[name] = win;
  o["null"]    = win == MPI_WIN_NULL;
}

/* {"op":"win_free","win":name} */
MPI_OPERATION(win_free)
{
  MPI_Win& w = find_win(R, a);
  o["rc"]    = MPI_Win_free(&w);
  o["null"]  = w == MPI_WIN_NULL;
}

static void read_window(Rank& R, const std::string& name, json& o, size_t head)
{
  auto it = allocated.find({R.rank, name});
  const unsigned char* p;
  size_t n;
  if (it != allocated.end()) {
    p           = it->second.first;
    n           = it->second.second;
    o["guards"] = true;
  } else {
    auto& b     = Rank::find(R.bufs, "wb:" + name, "window buffer");
    p           = b.data() + GUARD;
    n           = b.size() - 2 * GUARD;
    o["guards"] = guards_ok(b);
  }
  head     = std::min(head, n);
  o["hex"] = to_hex(p, head);
  if (head < n)
    o["crc"] = crc32_of(p + head, n - head);
}

/* {"op":"win_read","win":name,"lock":bool?,"head":bytes?} -> "hex" (of the first `head` bytes),"crc" (CRC-32 of the rest),"guards"; lock: inside MPI_Win_lock(EXCLUSIVE, self) / MPI_Win_unlock(self) */
MPI_OPERATION(win_read)
{
  std::string name = a.value("win", std::string("w"));
  MPI_Win w        = find_win(R, a);
  int rc           = MPI_SUCCESS;
  int me           = -1;
  bool lock        = a.value("lock", false);
  if (lock) {
    MPI_Group g;
    MPI_Win_get_group(w, &g);
    MPI_Group_rank(g, &me);
    MPI_Group_free(&g);
    rc = MPI_Win_lock(MPI_LOCK_EXCLUSIVE, me, 0, w);
  }
  read_window(R, name, o, a.value("head", static_cast<size_t>(1) << 30));
  if (lock) {
    int rc2 = MPI_Win_unlock(me, w);
    rc      = rc != MPI_SUCCESS ? rc : rc2;
  }
  o["rc"] = rc;
}

/* {"op":"rma","win":name,"type":datatype name,"seq":[step...]}   (per-rank sequences with {"@":[seq0, seq1, ...]})
 * step = {"k":"fence","assert":["noprecede"|"nosucceed"|"nostore"|"noput"...]} | {"k":"lock","rank":t,"shared":bool} | {"k":"unlock","rank":t} | {"k":"lock_all"} |
 *        {"k":"unlock_all"} | {"k":"flush","rank":t} | {"k":"flush_all"} | {"k":"flush_local","rank":t} |
 *        {"k":"flush_local_all"} | {"k":"barrier"} | {"k":"sleep","d":simulated seconds} |
 *        {"k":"put","id":n,"data":hex,"t":target,"disp":d}                       count = bytes(data)/size(type)
 *        {"k":"put","id":n,"pat":seed,"count":c,"t":target,"disp":d}             a big patterned origin buffer (see pattern())
 *        {"k":"get","id":n,"count":c,"t":target,"disp":d}                        result in buffer r<id>
 *        {"k":"acc","id":n,"data":hex,"t":..,"disp":..,"mop":op}
 *        {"k":"getacc","id":n,"data":hex,"count":c,"t":..,"disp":..,"mop":op}  (data may be empty with NO_OP)
 *        {"k":"fop","id":n,"data":hex,"t":..,"disp":..,"mop":op}
 *        {"k":"cas","id":n,"data":hex,"cmp":hex,"t":..,"disp":..}
 *        {"k":"rmw","id":n,"add":hex (one element),"t":..,"disp":..}            Get, Win_flush(t), Put(fetched + add); fetched in r<id>
 *        "req":true on put/get/acc/getacc = the request-based variant (MPI_Rput...) completed by MPI_Wait at once
 * -> "rcs": [return code of every step] */
MPI_OPERATION(rma)
{
  MPI_Win w      = find_win(R, a);
  MPI_Datatype t = a.contains("type") ? R.type(a) : MPI_INT;
  int tsize      = 0;
  MPI_Type_size(t, &tsize);
  if (tsize <= 0)
    throw BadCase("rma: bad type");
  json rcs = json::array();
  for (auto const& s : a.at("seq")) {
    std::string k = s.at("k").get<std::string>();
    int rc        = MPI_SUCCESS;
    auto id       = [&s]() { return std::to_string(s.at("id").get<long>()); };
    auto target   = [&s]() { return s.at("t").get<int>(); };
    auto disp     = [&s]() { return static_cast<MPI_Aint>(s.at("disp").get<long>()); };
    bool req      = s.value("req", false);
    if (k == "fence") {
      int as = 0;
      if (s.contains("assert"))
        for (auto const& n : s.at("assert")) {
          std::string name = n.get<std::string>();
          as |= name == "noprecede" ? MPI_MODE_NOPRECEDE : name == "nosucceed" ? MPI_MODE_NOSUCCEED : name == "nostore" ? MPI_MODE_NOSTORE
                : name == "noput" ? MPI_MODE_NOPUT : 0;
        }
      rc = MPI_Win_fence(as, w);
    }
    else if (k == "lock")
      rc = MPI_Win_lock(s.value("shared", false) ? MPI_LOCK_SHARED : MPI_LOCK_EXCLUSIVE, s.at("rank").get<int>(), s.value("assert", 0), w);
    else if (k == "unlock")
      rc = MPI_Win_unlock(s.at("rank").get<int>(), w);
    else if (k == "lock_all")
      rc = MPI_Win_lock_all(s.value("assert", 0), w);
    else if (k == "unlock_all")
      rc = MPI_Win_unlock_all(w);
    else if (k == "flush")
      rc = MPI_Win_flush(s.at("rank").get<int>(), w);
    else if (k == "flush_all")
      rc = MPI_Win_flush_all(w);
    else if (k == "flush_local")
      rc = MPI_Win_flush_local(s.at("rank").get<int>(), w);
    else if (k == "flush_local_all")
      rc = MPI_Win_flush_local_all(w);
    else if (k == "barrier")
      rc = MPI_Barrier(R.comm(a));
    else if (k == "sleep") // simulated delay: shifts this origin's calls against the other origins'
      simgrid::s4u::this_actor::sleep_for(s.at("d").get<double>());
    else if (k == "put" || k == "acc") {
      auto data        = s.contains("pat") ? pattern(s.at("pat").get<unsigned long long>(), s.at("count").get<size_t>(), tsize)
                                           : from_hex(s.at("data").get<std::string>());
      int count        = static_cast<int>(data.size() / tsize);
      unsigned char* p = new_buf(R, "o" + id(), data);
      MPI_Request rq   = MPI_REQUEST_NULL;
      if (k == "put")
        rc = req ? MPI_Rput(p, count, t, target(), disp(), count, t, w, &rq) : MPI_Put(p, count, t, target(), disp(), count, t, w);
      else {
        MPI_Op op = Rank::find(R.ops, s.at("mop").get<std::string>(), "op");
        rc        = req ? MPI_Raccumulate(p, count, t, target(), disp(), count, t, op, w, &rq)
                        : MPI_Accumulate(p, count, t, target(), disp(), count, t, op, w);
      }
      if (req && rc == MPI_SUCCESS)
        rc = MPI_Wait(&rq, MPI_STATUS_IGNORE);
    } else if (k == "get") {
      int count        = s.at("count").get<int>();
      unsigned char* p = new_buf(R, "r" + id(), std::vector<unsigned char>(static_cast<size_t>(count) * tsize, 0xEE));
      MPI_Request rq   = MPI_REQUEST_NULL;
      rc = req ? MPI_Rget(p, count, t, target(), disp(), count, t, w, &rq) : MPI_Get(p, count, t, target(), disp(), count, t, w);
      if (req && rc == MPI_SUCCESS)
        rc = MPI_Wait(&rq, MPI_STATUS_IGNORE);
    } else if (k == "getacc") {
      auto data         = from_hex(s.at("data").get<std::string>());
      int count         = s.at("count").get<int>();
      unsigned char* po = new_buf(R, "o" + id(), data);
      unsigned char* pr = new_buf(R, "r" + id(), std::vector<unsigned char>(static_cast<size_t>(count) * tsize, 0xEE));
      MPI_Op op         = Rank::find(R.ops, s.at("mop").get<std::string>(), "op");
      int ocount        = static_cast<int>(data.size() / tsize);
      MPI_Request rq    = MPI_REQUEST_NULL;
      rc = req ? MPI_Rget_accumulate(po, ocount, t, pr, count, t, target(), disp(), count, t, op, w, &rq)
               : MPI_Get_accumulate(po, ocount, t, pr, count, t, target(), disp(), count, t, op, w);
      if (req && rc == MPI_SUCCESS)
        rc = MPI_Wait(&rq, MPI_STATUS_IGNORE);
    } else if (k == "fop") {
      auto data         = from_hex(s.at("data").get<std::string>());
      unsigned char* po = new_buf(R, "o" + id(), data);
      unsigned char* pr = new_buf(R, "r" + id(), std::vector<unsigned char>(tsize, 0xEE));
      MPI_Op op         = Rank::find(R.ops, s.at("mop").get<std::string>(), "op");
      rc                = MPI_Fetch_and_op(po, pr, t, target(), disp(), op, w);
    } else if (k == "cas") {
      unsigned char* po = new_buf(R, "o" + id(), from_hex(s.at("data").get<std::string>()));
      unsigned char* pc = new_buf(R, "c" + id(), from_hex(s.at("cmp").get<std::string>()));
      unsigned char* pr = new_buf(R, "r" + id(), std::vector<unsigned char>(tsize, 0xEE));
      rc                = MPI_Compare_and_swap(po, pc, pr, t, target(), disp(), w);
    } else if (k == "rmw") {
      /* read-modify-write inside the caller's epoch: Get, Win_flush, Put(fetched + add): only atomic if the epoch is exclusive */
      auto add = from_hex(s.at("add").get<std::string>());
      if (static_cast<int>(add.size()) != tsize || tsize > 8)
        throw BadCase("rmw: bad operand");
      unsigned char* pr = new_buf(R, "r" + id(), std::vector<unsigned char>(tsize, 0xEE));
      rc                = MPI_Get(pr, 1, t, target(), disp(), 1, t, w);
      if (rc == MPI_SUCCESS)
        rc = MPI_Win_flush(target(), w);
      unsigned long long x = 0, y = 0;
      memcpy(&x, pr, tsize);
      memcpy(&y, add.data(), tsize);
      x += y;
      std::vector<unsigned char> nv(tsize);
      memcpy(nv.data(), &x, tsize);
      unsigned char* po = new_buf(R, "o" + id(), nv);
      if (rc == MPI_SUCCESS)
        rc = MPI_Put(po, 1, t, target(), disp(), 1, t, w);
    } else
      throw BadCase("rma: unknown step " + k);
    rcs.push_back(rc);
  }
  o["rcs"] = rcs;
  o["rc"]  = 0;
}

/* {"op":"rma_results","ids":[n...]} -> "res": {"<id>": [hex of r<id>, guards ok of o/c/r buffers, hex of o<id> (must be unchanged)]};
 * the buffers are released */
MPI_OPERATION(rma_results)
{
  json res = json::object();
  for (auto const& x : a.at("ids")) {
    std::string id = std::to_string(x.get<long>());
    bool ok        = true;
    json entry     = json::array({nullptr, true, nullptr});
    for (const char* pre : {"o", "c", "r"}) {
      auto it = R.bufs.find(pre + id);
      if (it == R.bufs.end())
        continue;
      ok = ok && guards_ok(it->second);
      size_t n = it->second.size() - 2 * GUARD;
      if (pre[0] == 'r')
        entry[0] = n <= 512 ? json(to_hex(it->second.data() + GUARD, n))
                            : json("crc:" + std::to_string(crc32_of(it->second.data() + GUARD, n)) + ":" + std::to_string(n));
      if (pre[0] == 'o' && n <= 512)
        entry[2] = to_hex(it->second.data() + GUARD, n);
      R.bufs.erase(it);
    }
    entry[1] = ok;
    res[id]  = entry;
  }
  o["res"] = res;
  o["rc"]  = 0;
}
