/* mpi_interp.hpp: core of the generic MPI scenario interpreter (see /verif/notes/MPI_INFRA.md).
 *
 * One simulated MPI application per case, started INSIDE the driver process with SMPI_app_instance_start() (no smpirun,
 * no exec, no dlopen): every rank is an s4u actor that runs rank_main(), which executes the operation list of the case
 * and prints one JSON line per executed operation.
 *
 * Adding operations: write a new drivers/mpi_ops_<topic>.cpp, list it in the `extra=` of mpi_interp.cpp's vf-driver
 * line, and define handlers with
 *
 *     MPI_OPERATION(my_op) { // available: Rank& R, const json& a (arguments, per-rank values resolved), json& o (output)
 *       o["rc"] = MPI_Something(R.comm(a, "comm"), ...);
 *     }
 *
 * Handles live in per-rank name tables (R.comms, R.groups, R.types, R.bufs, R.reqs, R.ops, R.wins).
 */
#pragma once
#include <smpi/smpi.h>

#include <cstdio>
#include <cstring>
#include <functional>
#include <map>
#include <nlohmann/json.hpp>
#include <stdexcept>
#include <string>
#include <vector>

using json = nlohmann::json;

namespace mpii {

struct BadCase : std::runtime_error {
  using std::runtime_error::runtime_error;
};

/* every buffer of R.bufs is surrounded by two guard zones of BUF_GUARD bytes (value 0xA5) that `dump` verifies */
constexpr size_t BUF_GUARD = 512;

struct Rank {
  int rank = -1; // rank in MPI_COMM_WORLD
  int size = 0;
  std::map<std::string, MPI_Comm> comms;
  std::map<std::string, MPI_Group> groups;
  std::map<std::string, MPI_Datatype> types;
  std::map<std::string, MPI_Op> ops;
  std::map<std::string, MPI_Request> reqs;
  std::map<std::string, MPI_Win> wins;
  std::map<std::string, std::vector<unsigned char>> bufs;

  template <class T> static T& find(std::map<std::string, T>& m, const std::string& name, const char* what)
  {
    auto it = m.find(name);
    if (it == m.end())
      throw BadCase(std::string("unknown ") + what + " handle '" + name + "'");
    return it->second;
  }
  MPI_Comm comm(const json& a, const char* key = "comm") { return find(comms, a.value(key, std::string("world")), "comm"); }
  MPI_Group group(const json& a, const char* key = "group") { return find(groups, a.at(key).get<std::string>(), "group"); }
  MPI_Datatype type(const json& a, const char* key = "type") { return find(types, a.at(key).get<std::string>(), "type"); }
  MPI_Op op(const json& a, const char* key = "mop") { return find(ops, a.at(key).get<std::string>(), "op"); }
  std::vector<unsigned char>& buf(const json& a, const char* key = "buf") { return find(bufs, a.at(key).get<std::string>(), "buffer"); }
};

using Handler = void (*)(Rank& R, const json& a, json& o);

std::map<std::string, Handler>& registry();

struct Registrar {
  Registrar(const char* name, Handler h) { registry()[name] = h; }
};

/* helpers */
std::string to_hex(const unsigned char* p, size_t n);
std::vector<unsigned char> from_hex(const std::string& s);
inline std::vector<int> ints(const json& a, const char* key)
{
  std::vector<int> v;
  if (a.contains(key))
    for (auto const& x : a.at(key))
      v.push_back(x.get<int>());
  return v;
}
/* data() of a vector, but never nullptr (SMPI rejects nullptr arrays even when they are empty; MPI allows them) */
template <class T> T* ptr(std::vector<T>& v)
{
  static T dummy[4];
  return v.empty() ? dummy : v.data();
}

/* output (buffered; flushed at the end and by the fatal-signal handler) */
void emit_line(const json& o);
void flush_all();
void install_crash_reporting();

/* the program of one rank: called inside an SMPI actor */
void rank_main(const json& kase);

/* register the predefined handles (world, self, null, basic datatypes, predefined ops) in a fresh Rank */
void predefined(Rank& R);

} // namespace mpii

#define MPI_OPERATION(name)                                                                                            \
  static void mpii_op_##name(mpii::Rank& R, const json& a, json& o);                                                   \
  static mpii::Registrar mpii_reg_##name(#name, mpii_op_##name);                                                       \
  static void mpii_op_##name([[maybe_unused]] mpii::Rank& R, [[maybe_unused]] const json& a, [[maybe_unused]] json& o)
