// vf-driver: kind=cxx extra=mpi_interp.cpp,mpi_ops_base.cpp,mpi_ops_group.cpp,mpi_ops_p2p.cpp,mpi_ops_rma.cpp
/* mpi2_interp: the generic MPI scenario interpreter of mpi_interp.cpp (main, engine, fork server: see notes/MPI_INFRA.md) linked
 * with the operation files needed by C28 / C34 (builder mpi2): the base and communicator operations of the finished checks,
 * unchanged, plus mpi_ops_p2p.cpp (completion calls, probe+receive) and mpi_ops_rma.cpp (one-sided operations).
 *
 * A separate binary rather than one more entry in the `extra=` list of mpi_interp.cpp: several builders add operation files at the
 * same time, and a file that does not compile yet must not break the driver of the finished checks C30-C33.  Merging is trivial
 * (append mpi_ops_p2p.cpp,mpi_ops_rma.cpp to that list): the operation names do not collide.
 *
 * This translation unit is intentionally empty: `main` is in mpi_interp.cpp. */
