/* s4u_ext_model.hpp: operations and records added for C19 / C20 / C21 (owner: builder "model").  See notes/C20.md, notes/C21.md.
 *
 * Scenario key
 *   "msample": {"rate":true, "raw":false, "disks":[disk names], "cpu":[hosts], "links":[resolved link names]}
 *       one record per time advance (after the core's own "s" record when both are requested):
 *       {"k":"ms","t", "rate":{h:[rate, remaining, penalty, state, suspended]},   one entry per handle that has a model action: rate =
 *                             Action::get_rate() (the rate granted by the last solve, i.e. over the time advance that just ended), remaining =
 *                             Activity::get_remaining() (the public getter; with "raw":true the raw remains_ field instead, which
 *                             is stale under a lazy model but does not make the model fold its pending progress), state = Action::State as an int (1 = STARTED, 3 = FINISHED)
 *                      "disk":{name:[usage, read_usage, write_usage, capacity, read_capacity, write_capacity]},
 *                      "cpu":{host:[usage, capacity]}, "link":{name:[usage, capacity]}}
 *       (usage = Constraint::get_load() = what Host::get_load() / Link::get_load() return; capacity = Constraint::bound_)
 *
 * Operations
 *   ["update_prio", h, prio]        Exec::update_priority (change of the sharing penalty of a running execution; "skipped" when it is over)
 *   ["act_set_bound", h, bound]     kernel Action::set_bound on the model action of a running activity, inside a simcall
 *                                   (what VirtualMachineImpl / plugins do; the S4U interface only sets bounds before the start)
 *   ["route_info", src, dst]        {"links":[names], "lat": hex} as Host::route_to reports it
 *   ["ptask_ratio", h]              Exec::get_remaining_ratio
 */
#pragma once
#include "src/kernel/activity/ActivityImpl.hpp"
#include "src/kernel/lmm/maxmin.hpp"
#include "src/kernel/resource/CpuImpl.hpp"
#include "src/kernel/resource/DiskImpl.hpp"
#include "src/kernel/resource/StandardLinkImpl.hpp"

namespace vf {

static const char* const model_ext_version = "model-ext-v5"; // `strings s4u_model | grep model-ext` tells which header was compiled

static json model_arr(std::initializer_list<std::string> l)
{
  json r = json::array();
  for (auto const& x : l)
    r.push_back(x);
  return r;
}

static simgrid::kernel::resource::Action* model_action_of(const Handle& h)
{
  if (h.act == nullptr || h.act->get_impl() == nullptr)
    return nullptr;
  return h.act->get_impl()->model_action_;
}

static bool model_ops(Ctx& c, int idx, const json& op, json& result)
{
  const std::string o = op[0].get<std::string>();
  if (o == "update_prio") {
    Handle& h = handle(op[1].get<int>());
    // Exec::update_priority dereferences the model action: only legal on a running execution ("skipped" otherwise)
    auto act  = h.act;
    bool live = simgrid::kernel::actor::simcall_answered(
        [act]() { return act->get_impl() != nullptr && act->get_impl()->model_action_ != nullptr; });
    if (live)
      boost::static_pointer_cast<sg4::Exec>(h.act)->update_priority(op[2].get<double>());
    result = live ? json(nullptr) : json("skipped");
    return true;
  }
  if (o == "act_set_bound") {
    Handle& h    = handle(op[1].get<int>());
    double bound = op[2].get<double>();
    auto act     = h.act;
    result       = simgrid::kernel::actor::simcall_answered([act, bound]() -> bool {
      auto* impl = act->get_impl();
      if (impl == nullptr || impl->model_action_ == nullptr)
        return false;
      impl->model_action_->set_bound(bound);
      return true;
    });
    return true;
  }
  if (o == "route_info") {
    std::vector<sg4::Link*> links;
    double lat = 0;
    host_by(op[1])->route_to(host_by(op[2]), links, &lat);
    json names = json::array();
    for (auto* l : links)
      names.push_back(l->get_name());
    result = {{"links", names}, {"lat", hx(lat)}};
    return true;
  }
  if (o == "ptask_ratio") {
    Handle& h = handle(op[1].get<int>());
    result    = hx(boost::static_pointer_cast<sg4::Exec>(h.act)->get_remaining_ratio());
    return true;
  }
  return false;
}

static void model_setup()
{
  if (S->mc_mode || not S->scenario.contains("msample"))
    return;
  sg4::Engine::on_time_advance_cb([](double) {
    const json& sp = S->scenario["msample"];
    json j         = {{"k", "ms"}, {"t", hx(now())}};
    if (sp.value("rate", false)) {
      // "raw": never call the getter (which makes a lazy model fold its pending progress, i.e. observing changes the bookkeeping):
      // report the raw remains_ field, stale under a lazy model; the oracle then only uses the granted rates
      bool raw = sp.value("raw", false);
      std::lock_guard<std::mutex> g(S->lock);
      for (auto const& [k, h] : S->handles) {
        auto* a = model_action_of(h);
        if (a == nullptr)
          continue;
        double rem   = raw ? a->get_remains_no_update() : h.act->get_remaining();
        j["rate"][std::to_string(k)] = model_arr({hx(a->get_rate()), hx(rem), hx(a->get_sharing_penalty()),
                                                  std::to_string(static_cast<int>(a->get_state())), a->is_suspended() ? "1" : "0"});
      }
    }
    auto cn = [](const simgrid::kernel::lmm::Constraint* c) -> double { return c == nullptr ? 0.0 : c->get_load(); };
    auto cb = [](const simgrid::kernel::lmm::Constraint* c) -> double { return c == nullptr ? 0.0 : c->bound_; };
    if (sp.contains("disks"))
      for (auto const& d : sp["disks"]) {
        auto* impl = disk_by(d.get<std::string>())->get_impl();
        j["disk"][d.get<std::string>()] =
            model_arr({hx(cn(impl->get_constraint())), hx(cn(impl->get_read_constraint())), hx(cn(impl->get_write_constraint())),
                         hx(cb(impl->get_constraint())), hx(cb(impl->get_read_constraint())), hx(cb(impl->get_write_constraint()))});
      }
    if (sp.contains("cpu"))
      for (auto const& h : sp["cpu"]) {
        auto* c = host_by(h)->get_cpu()->get_constraint();
        j["cpu"][h.get<std::string>()] = model_arr({hx(cn(c)), hx(cb(c))});
      }
    if (sp.contains("links"))
      for (auto const& l : sp["links"]) {
        auto* c = sg4::Link::by_name(l.get<std::string>())->get_impl()->get_constraint();
        j["link"][l.get<std::string>()] = model_arr({hx(cn(c)), hx(cb(c))});
      }
    emit(j);
  });
}

static ExtRegister model_reg(model_ops, model_setup);

} // namespace vf
