/* mpi_ops_base.cpp: predefined handles, buffers, point-to-point, basic collectives, communicator management.
 * Part of mpi_interp (see mpi_interp.hpp / notes/MPI_INFRA.md). */
#include "mpi_interp.hpp"

#include <simgrid/s4u/Actor.hpp>

/* smpi.h #defines these three handles but forgets to declare the objects they point to (a C++ user program that names
 * them does not compile); the objects exist in libsimgrid. */
extern "C" {
extern SMPI_Datatype smpi_MPI_CXX_FLOAT_COMPLEX;
extern SMPI_Datatype smpi_MPI_CXX_DOUBLE_COMPLEX;
extern SMPI_Datatype smpi_MPI_CXX_LONG_DOUBLE_COMPLEX;
}

namespace mpii {

void predefined(Rank& R)
{
  R.comms["world"] = MPI_COMM_WORLD;
  R.comms["self"]  = MPI_COMM_SELF;
  R.comms["null"]  = MPI_COMM_NULL;
  R.groups["empty"] = MPI_GROUP_EMPTY;
  R.groups["null"]  = MPI_GROUP_NULL;
#define T(n) R.types[#n] = MPI_##n;
  T(DATATYPE_NULL) T(CHAR) T(SHORT) T(INT) T(LONG) T(LONG_LONG) T(SIGNED_CHAR) T(UNSIGNED_CHAR) T(UNSIGNED_SHORT)
  T(UNSIGNED) T(UNSIGNED_LONG) T(UNSIGNED_LONG_LONG) T(FLOAT) T(DOUBLE) T(LONG_DOUBLE) T(WCHAR) T(C_BOOL) T(INT8_T)
  T(INT16_T) T(INT32_T) T(INT64_T) T(UINT8_T) T(BYTE) T(UINT16_T) T(UINT32_T) T(UINT64_T) T(C_FLOAT_COMPLEX)
  T(C_DOUBLE_COMPLEX) T(C_LONG_DOUBLE_COMPLEX) T(AINT) T(OFFSET) T(COUNT) T(LB) T(UB) T(FLOAT_INT) T(LONG_INT)
  T(DOUBLE_INT) T(SHORT_INT) T(2INT) T(LONG_DOUBLE_INT) T(2FLOAT) T(2DOUBLE) T(2LONG) T(REAL) T(REAL4) T(REAL8)
  T(REAL16) T(COMPLEX8) T(COMPLEX16) T(COMPLEX32) T(INTEGER1) T(INTEGER2) T(INTEGER4) T(INTEGER8) T(INTEGER16)
  T(CXX_BOOL) T(CXX_FLOAT_COMPLEX) T(CXX_DOUBLE_COMPLEX) T(CXX_LONG_DOUBLE_COMPLEX) T(PACKED) T(INTEGER) T(LOGICAL)
  T(2INTEGER) T(COMPLEX) T(DOUBLE_COMPLEX) T(LOGICAL1) T(LOGICAL2) T(LOGICAL4) T(LOGICAL8) T(2REAL) T(CHARACTER)
  T(DOUBLE_PRECISION) T(2DOUBLE_PRECISION)
#undef T
#define O(n) R.ops[#n] = MPI_##n;
  O(MAX) O(MIN) O(MAXLOC) O(MINLOC) O(SUM) O(PROD) O(LAND) O(LOR) O(LXOR) O(BAND) O(BOR) O(BXOR) O(REPLACE) O(NO_OP)
  O(OP_NULL)
#undef O
  R.reqs["null"] = MPI_REQUEST_NULL;
}

} // namespace mpii

using namespace mpii;

/* ---- buffers: every buffer is surrounded by two guard zones of GUARD bytes (value 0xA5) that `dump` verifies ---- */
static constexpr size_t GUARD = mpii::BUF_GUARD;

static unsigned char* bufptr(Rank& R, const json& a, const char* key = "buf", const char* offkey = "off")
{
  if (a.contains(key) && a.at(key).is_string() && a.at(key).get<std::string>() == "IN_PLACE")
    return static_cast<unsigned char*>(MPI_IN_PLACE);
  if (a.contains(key) && a.at(key).is_string() && a.at(key).get<std::string>() == "BOTTOM")
    return static_cast<unsigned char*>(MPI_BOTTOM);
  auto& b    = R.buf(a, key);
  size_t off = a.value(offkey, 0);
  if (off > b.size() - 2 * GUARD)
    throw BadCase("offset outside the buffer");
  return b.data() + GUARD + off;
}

static bool guards_ok(const std::vector<unsigned char>& b)
{
  for (size_t i = 0; i < GUARD; i++)
    if (b[i] != 0xA5 || b[b.size() - 1 - i] != 0xA5)
      return false;
  return true;
}

/* {"op":"buf","name":n,"size":bytes,"fill":byte? | "hex":data? | "pat":seed?}
 *   pat: byte k = (seed + 37*rank + 11*k + k/251) % 251 + 1  (never 0, differs between ranks) */
MPI_OPERATION(buf)
{
  std::string name = a.at("name").get<std::string>();
  size_t size      = a.at("size").get<size_t>();
  if (size > (64u << 20))
    throw BadCase("buffer too large");
  std::vector<unsigned char> b(size + 2 * GUARD, 0xA5);
  unsigned char* d = b.data() + GUARD;
  if (a.contains("hex")) {
    auto h = from_hex(a.at("hex").get<std::string>());
    if (h.size() > size)
      throw BadCase("hex data larger than the buffer");
    memset(d, 0, size);
    memcpy(d, h.data(), h.size());
  } else if (a.contains("pat")) {
    long seed = a.at("pat").get<long>();
    for (size_t k = 0; k < size; k++)
      d[k] = static_cast<unsigned char>((seed + 37L * R.rank + 11L * static_cast<long>(k) + static_cast<long>(k / 251)) % 251 + 1);
  } else {
    memset(d, a.value("fill", 0), size);
  }
  R.bufs[name] = std::move(b);
  o["rc"]      = 0;
}

/* {"op":"dump","buf":n,"off":0?,"len":bytes?} -> "hex", "guards": bool */
MPI_OPERATION(dump)
{
  auto& b    = R.buf(a);
  size_t sz  = b.size() - 2 * GUARD;
  size_t off = a.value("off", 0);
  size_t len = a.value("len", sz - std::min(off, sz));
  if (off + len > sz)
    throw BadCase("dump outside the buffer");
  o["hex"]    = to_hex(b.data() + GUARD + off, len);
  o["guards"] = guards_ok(b);
  o["rc"]     = 0;
}

static void put_status(json& o, const MPI_Status& st, MPI_Datatype type)
{
  o["src"] = st.MPI_SOURCE;
  o["tag"] = st.MPI_TAG;
  o["err"] = st.MPI_ERROR;
  if (type != MPI_DATATYPE_NULL) {
    int cnt = -12345;
    int rc  = MPI_Get_count(&st, type, &cnt);
    o["count"]    = cnt;
    o["count_rc"] = rc;
  }
}

/* {"op":"send","buf","off"?,"count","type","dest","tag"?,"comm"?,"mode":"std|ssend|bsend|rsend"?} */
MPI_OPERATION(send)
{
  void* p          = bufptr(R, a);
  int count        = a.at("count").get<int>();
  MPI_Datatype t   = R.type(a);
  int dest         = a.at("dest").get<int>();
  int tag          = a.value("tag", 0);
  MPI_Comm c       = R.comm(a);
  std::string mode = a.value("mode", std::string("std"));
  if (mode == "std")
    o["rc"] = MPI_Send(p, count, t, dest, tag, c);
  else if (mode == "ssend")
    o["rc"] = MPI_Ssend(p, count, t, dest, tag, c);
  else if (mode == "rsend")
    o["rc"] = MPI_Rsend(p, count, t, dest, tag, c);
  else if (mode == "bsend")
    o["rc"] = MPI_Bsend(p, count, t, dest, tag, c);
  else
    throw BadCase("unknown send mode");
}

/* {"op":"recv","buf","off"?,"count","type","src","tag"?,"comm"?} -> status fields */
MPI_OPERATION(recv)
{
  void* p        = bufptr(R, a);
  int count      = a.at("count").get<int>();
  MPI_Datatype t = R.type(a);
  int src        = a.at("src").get<int>();
  int tag        = a.value("tag", 0);
  MPI_Status st;
  memset(&st, 0x5a, sizeof st);
  o["rc"] = MPI_Recv(p, count, t, src, tag, R.comm(a), &st);
  put_status(o, st, t);
}

/* {"op":"isend"/"irecv", ..., "req": name}; {"op":"wait","req":name,"type":t?} */
MPI_OPERATION(isend)
{
  MPI_Request rq = MPI_REQUEST_NULL;
  std::string mode = a.value("mode", std::string("std"));
  void* p          = bufptr(R, a);
  int count        = a.at("count").get<int>();
  MPI_Datatype t   = R.type(a);
  int dest         = a.at("dest").get<int>();
  int tag          = a.value("tag", 0);
  MPI_Comm c       = R.comm(a);
  if (mode == "std")
    o["rc"] = MPI_Isend(p, count, t, dest, tag, c, &rq);
  else if (mode == "ssend")
    o["rc"] = MPI_Issend(p, count, t, dest, tag, c, &rq);
  else if (mode == "rsend")
    o["rc"] = MPI_Irsend(p, count, t, dest, tag, c, &rq);
  else if (mode == "bsend")
    o["rc"] = MPI_Ibsend(p, count, t, dest, tag, c, &rq);
  else
    throw BadCase("unknown send mode");
  R.reqs[a.at("req").get<std::string>()] = rq;
}

MPI_OPERATION(irecv)
{
  MPI_Request rq = MPI_REQUEST_NULL;
  o["rc"] = MPI_Irecv(bufptr(R, a), a.at("count").get<int>(), R.type(a), a.at("src").get<int>(), a.value("tag", 0),
                      R.comm(a), &rq);
  R.reqs[a.at("req").get<std::string>()] = rq;
}

MPI_OPERATION(wait)
{
  MPI_Request& rq = Rank::find(R.reqs, a.at("req").get<std::string>(), "request");
  MPI_Status st;
  memset(&st, 0x5a, sizeof st);
  o["rc"] = MPI_Wait(&rq, &st);
  put_status(o, st, a.contains("type") ? R.type(a) : MPI_DATATYPE_NULL);
  o["null_after"] = rq == MPI_REQUEST_NULL;
}

/* {"op":"waitall","reqs":[names]} */
MPI_OPERATION(waitall)
{
  std::vector<MPI_Request> rqs;
  for (auto const& n : a.at("reqs"))
    rqs.push_back(Rank::find(R.reqs, n.get<std::string>(), "request"));
  std::vector<MPI_Status> sts(rqs.size());
  o["rc"] = MPI_Waitall(static_cast<int>(rqs.size()), ptr(rqs), ptr(sts));
  json js = json::array();
  size_t k = 0;
  for (auto const& n : a.at("reqs")) {
    R.reqs[n.get<std::string>()] = rqs[k];
    js.push_back({{"src", sts[k].MPI_SOURCE}, {"tag", sts[k].MPI_TAG}, {"err", sts[k].MPI_ERROR}});
    k++;
  }
  o["st"] = js;
}

/* {"op":"test","req":name} -> flag */
MPI_OPERATION(test)
{
  MPI_Request& rq = Rank::find(R.reqs, a.at("req").get<std::string>(), "request");
  MPI_Status st;
  memset(&st, 0x5a, sizeof st);
  int flag = -1;
  o["rc"]  = MPI_Test(&rq, &flag, &st);
  o["flag"] = flag;
  if (flag == 1)
    put_status(o, st, a.contains("type") ? R.type(a) : MPI_DATATYPE_NULL);
}

/* {"op":"probe"/"iprobe","src","tag"?,"comm"?,"type"?} */
MPI_OPERATION(probe)
{
  MPI_Status st;
  memset(&st, 0x5a, sizeof st);
  o["rc"] = MPI_Probe(a.at("src").get<int>(), a.value("tag", 0), R.comm(a), &st);
  put_status(o, st, a.contains("type") ? R.type(a) : MPI_DATATYPE_NULL);
}

MPI_OPERATION(iprobe)
{
  MPI_Status st;
  memset(&st, 0x5a, sizeof st);
  int flag = -1;
  o["rc"]  = MPI_Iprobe(a.at("src").get<int>(), a.value("tag", 0), R.comm(a), &flag, &st);
  o["flag"] = flag;
  if (flag == 1)
    put_status(o, st, a.contains("type") ? R.type(a) : MPI_DATATYPE_NULL);
}

/* {"op":"sendrecv","sbuf","soff"?,"scount","stype","dest","stag"?,"rbuf","roff"?,"rcount","rtype","src","rtag"?,"comm"?} */
MPI_OPERATION(sendrecv)
{
  MPI_Status st;
  memset(&st, 0x5a, sizeof st);
  MPI_Datatype rt = R.type(a, "rtype");
  o["rc"] = MPI_Sendrecv(bufptr(R, a, "sbuf", "soff"), a.at("scount").get<int>(), R.type(a, "stype"),
                         a.at("dest").get<int>(), a.value("stag", 0), bufptr(R, a, "rbuf", "roff"),
                         a.at("rcount").get<int>(), rt, a.at("src").get<int>(), a.value("rtag", 0), R.comm(a), &st);
  put_status(o, st, rt);
}

/* {"op":"bsend_buffer","size":bytes} attaches a buffer for bsend (kept alive in R.bufs["__bsend"]) */
MPI_OPERATION(buffer_attach)
{
  auto& b = R.bufs["__bsend"];
  b.assign(a.at("size").get<size_t>() + 2 * GUARD, 0);
  o["rc"] = MPI_Buffer_attach(b.data() + GUARD, static_cast<int>(b.size() - 2 * GUARD));
}
MPI_OPERATION(buffer_detach)
{
  void* p  = nullptr;
  int size = 0;
  o["rc"]  = MPI_Buffer_detach(&p, &size);
  o["size"] = size;
}

/* ---- collectives (the minimum needed by C30-C33; extend in mpi_ops_coll.cpp) ---- */
MPI_OPERATION(barrier)
{
  o["rc"] = MPI_Barrier(R.comm(a));
}

/* {"op":"bcast","buf","off"?,"count","type","root","comm"?} */
MPI_OPERATION(bcast)
{
  o["rc"] = MPI_Bcast(bufptr(R, a), a.at("count").get<int>(), R.type(a), a.at("root").get<int>(), R.comm(a));
}

/* {"op":"gather","sbuf","soff"?,"scount","stype","rbuf","roff"?,"rcount","rtype","root","comm"?} */
MPI_OPERATION(gather)
{
  o["rc"] = MPI_Gather(bufptr(R, a, "sbuf", "soff"), a.at("scount").get<int>(), R.type(a, "stype"),
                       bufptr(R, a, "rbuf", "roff"), a.at("rcount").get<int>(), R.type(a, "rtype"),
                       a.at("root").get<int>(), R.comm(a));
}
MPI_OPERATION(scatter)
{
  o["rc"] = MPI_Scatter(bufptr(R, a, "sbuf", "soff"), a.at("scount").get<int>(), R.type(a, "stype"),
                        bufptr(R, a, "rbuf", "roff"), a.at("rcount").get<int>(), R.type(a, "rtype"),
                        a.at("root").get<int>(), R.comm(a));
}
MPI_OPERATION(allgather)
{
  o["rc"] = MPI_Allgather(bufptr(R, a, "sbuf", "soff"), a.at("scount").get<int>(), R.type(a, "stype"),
                          bufptr(R, a, "rbuf", "roff"), a.at("rcount").get<int>(), R.type(a, "rtype"), R.comm(a));
}
MPI_OPERATION(alltoall)
{
  o["rc"] = MPI_Alltoall(bufptr(R, a, "sbuf", "soff"), a.at("scount").get<int>(), R.type(a, "stype"),
                         bufptr(R, a, "rbuf", "roff"), a.at("rcount").get<int>(), R.type(a, "rtype"), R.comm(a));
}

/* {"op":"allreduce"/"reduce","sbuf","soff"?,"rbuf","roff"?,"count","type","mop","root"?,"comm"?} */
MPI_OPERATION(allreduce)
{
  o["rc"] = MPI_Allreduce(bufptr(R, a, "sbuf", "soff"), bufptr(R, a, "rbuf", "roff"), a.at("count").get<int>(),
                          R.type(a), R.op(a), R.comm(a));
}
MPI_OPERATION(reduce)
{
  o["rc"] = MPI_Reduce(bufptr(R, a, "sbuf", "soff"), bufptr(R, a, "rbuf", "roff"), a.at("count").get<int>(), R.type(a),
                       R.op(a), a.at("root").get<int>(), R.comm(a));
}
MPI_OPERATION(scan)
{
  o["rc"] = MPI_Scan(bufptr(R, a, "sbuf", "soff"), bufptr(R, a, "rbuf", "roff"), a.at("count").get<int>(), R.type(a),
                     R.op(a), R.comm(a));
}
MPI_OPERATION(exscan)
{
  o["rc"] = MPI_Exscan(bufptr(R, a, "sbuf", "soff"), bufptr(R, a, "rbuf", "roff"), a.at("count").get<int>(), R.type(a),
                       R.op(a), R.comm(a));
}
/* {"op":"reduce_local","sbuf"(in),"rbuf"(inout),"count","type","mop"} */
MPI_OPERATION(reduce_local)
{
  o["rc"] = MPI_Reduce_local(bufptr(R, a, "sbuf", "soff"), bufptr(R, a, "rbuf", "roff"), a.at("count").get<int>(),
                             R.type(a), R.op(a));
}

/* ---- misc ---- */
MPI_OPERATION(wtime)
{
  o["t"]  = MPI_Wtime();
  o["rc"] = 0;
}
/* {"op":"sleep","d":seconds}: simulated sleep (orders ranks in simulated time) */
MPI_OPERATION(sleep)
{
  simgrid::s4u::this_actor::sleep_for(a.at("d").get<double>());
  o["rc"] = 0;
}
MPI_OPERATION(errhandler)
{
  std::string h = a.value("h", std::string("return"));
  o["rc"]       = MPI_Comm_set_errhandler(R.comm(a), h == "fatal" ? MPI_ERRORS_ARE_FATAL : MPI_ERRORS_RETURN);
}
