// vf-driver: kind=cxx
/* c36_driver: runs the real smpi_main() path (what `smpirun` ends up doing) on the MPI program drivers/c36_prog.cpp, once per case,
 * inside a forked child of the fork server: no exec, no shell script.
 *
 * case: {"prog": path of the shared object built by smpicxx, "platform": xml, "np": n, "priv": "mmap"|"dlopen"|"no",
 *        "script": text of the script (see c36_prog.cpp), "tmpdir": directory for the script file and the dlopen copies,
 *        "cfg": [extra --cfg items]?}
 * output: what the program prints (V/G/E/D lines), then {"k":"end","rc":exit status of smpi_main}
 */
#include "forkserver.hpp"
#include <nlohmann/json.hpp>
#include <smpi/smpi.h>
#include <vector>

using json = nlohmann::json;

static int run_case(const std::string& text)
{
  json kase;
  try {
    kase = json::parse(text);
  } catch (json::exception const& e) {
    fprintf(stderr, "c36_driver: cannot parse the case: %s\n", e.what());
    return 64;
  }
  std::string prog, platform, tmpdir, script;
  std::vector<std::string> args;
  try {
    prog     = kase.at("prog").get<std::string>();
    platform = kase.at("platform").get<std::string>();
    tmpdir   = kase.value("tmpdir", std::string("/tmp"));
    script   = tmpdir + "/c36_script_" + std::to_string(getpid()) + ".txt";
    std::ofstream out(script);
    out << kase.at("script").get<std::string>();
    out.close();
    args = {prog,
            "--cfg=smpi/privatization:" + kase.value("priv", std::string("mmap")),
            "--cfg=smpi/np:" + std::to_string(kase.at("np").get<int>()),
            "--cfg=smpi/tmpdir:" + tmpdir,
            "--cfg=smpi/host-speed:1Gf",
            "--log=xbt_cfg.thres:warning",
            "--log=smpi_config.thres:warning"};
    if (kase.contains("cfg"))
      for (auto const& c : kase.at("cfg"))
        args.push_back("--cfg=" + c.get<std::string>());
    args.push_back(platform);
    args.push_back(script);
  } catch (json::exception const& e) {
    fprintf(stderr, "c36_driver: bad case: %s\n", e.what());
    return 64;
  }
  std::vector<char*> argv;
  for (auto& a : args)
    argv.push_back(a.data());
  argv.push_back(nullptr);
  int rc = smpi_main(prog.c_str(), static_cast<int>(args.size()), argv.data());
  fflush(stdout);
  unlink(script.c_str());
  printf("{\"k\":\"end\",\"rc\":%d}\n", rc);
  return 0;
}

int main(int argc, char** argv)
{
  return vf_main(argc, argv, run_case);
}
