// vf-driver: kind=cxx
/* smpi_replay_driver: replays time-independent SMPI traces (C37) inside the driver process, with the documented
 * "override the replayer" pattern (examples/smpi/replay/replay.cpp): every rank is an actor started by
 * SMPI_app_instance_start() that runs smpi_replay_init(), registers its own "finalize" action (to note the date at which
 * the rank reaches the end of its trace) and calls smpi_replay_main().
 *
 * usage: smpi_replay_driver <case.json | -> | --serve <errfile>
 * case: {"np": n, "platform": "/path.xml", "hosts": [name of the host of each rank], "traces": [trace file of each rank],
 *        "cfg": ["smpi/...:..."], "log": [...]}
 * output: {"k":"fin","r":rank,"t":date of the finalize action,"actions":n} ; {"k":"done","r":rank,"t":date at which smpi_replay_main() returned};
 *         {"k":"end","t":final simulated date}.   Exit status 64 = malformed case.
 */
#include "forkserver.hpp"

#include <nlohmann/json.hpp>
#include <simgrid/s4u.hpp>
#include <smpi/smpi.h>
#include <xbt/replay.hpp>

#include <cstdio>
#include <string>
#include <vector>

using json   = nlohmann::json;
namespace sg4 = simgrid::s4u;

static std::string outbuf;
static void emit(const json& o)
{
  outbuf += o.dump();
  outbuf.push_back('\n');
}
static void flush_out()
{
  size_t done = 0;
  while (done < outbuf.size()) {
    ssize_t n = write(1, outbuf.data() + done, outbuf.size() - done);
    if (n <= 0)
      break;
    done += static_cast<size_t>(n);
  }
  outbuf.clear();
}

static std::vector<std::string> traces;

static void rank_code()
{
  const auto* props = sg4::Actor::self()->get_properties();
  int rank          = std::stoi(props->at("rank"));
  smpi_replay_init(props->at("instance_id").c_str(), rank, 0);
  /* our own "finalize" action: the date at which a rank is done with its trace (the online run prints MPI_Wtime() just
   * before MPI_Finalize).  The action table is global: the same handler for every rank (the default one does nothing). */
  xbt_replay_action_register("finalize", [](simgrid::xbt::ReplayAction&) {
    int r = std::stoi(sg4::Actor::self()->get_properties()->at("rank"));
    emit(json{{"k", "fin"}, {"r", r}, {"t", sg4::Engine::get_clock()}});
  });
  smpi_replay_main(rank, traces.at(rank).c_str());
  emit(json{{"k", "done"}, {"r", rank}, {"t", sg4::Engine::get_clock()}});
}

static int run_case(const std::string& text)
{
  json kase;
  try {
    kase = json::parse(text);
    int np = kase.at("np").get<int>();
    std::vector<std::string> args = {"smpi_replay_driver", "--cfg=smpi/errors-are-fatal:no", "--cfg=smpi/simulate-computation:no",
                                     "--cfg=smpi/privatization:no", "--log=xbt_cfg.thres:warning", "--log=smpi_config.thres:warning"};
    if (kase.contains("cfg"))
      for (auto const& c : kase.at("cfg"))
        args.push_back("--cfg=" + c.get<std::string>());
    if (kase.contains("log"))
      for (auto const& c : kase.at("log"))
        args.push_back("--log=" + c.get<std::string>());
    std::vector<char*> argv;
    for (auto& a : args)
      argv.push_back(a.data());
    argv.push_back(nullptr);
    int argc = static_cast<int>(args.size());
    smpi_init_options();
    auto& e = *new sg4::Engine(&argc, argv.data()); // never destroyed: the process exits right after the run
    e.load_platform(kase.at("platform").get<std::string>());
    std::vector<sg4::Host*> hosts;
    for (auto const& h : kase.at("hosts"))
      hosts.push_back(e.host_by_name(h.get<std::string>()));
    traces.clear();
    for (auto const& t : kase.at("traces"))
      traces.push_back(t.get<std::string>());
    if (static_cast<int>(hosts.size()) != np || static_cast<int>(traces.size()) != np) {
      fprintf(stderr, "smpi_replay_driver: bad case: hosts/traces must have np entries\n");
      return 64;
    }
    e.set_default_comm_data_copy_callback(smpi_comm_copy_buffer_callback);
    SMPI_init();
    atexit(flush_out);
    SMPI_app_instance_start("app", rank_code, hosts);
    e.run();
    emit(json{{"k", "end"}, {"t", e.get_clock()}});
    flush_out();
    SMPI_finalize();
  } catch (json::exception const& ex) {
    flush_out();
    fprintf(stderr, "smpi_replay_driver: bad case: %s\n", ex.what());
    return 64;
  } catch (std::invalid_argument const& ex) {
    flush_out();
    fprintf(stderr, "smpi_replay_driver: bad case: %s\n", ex.what());
    return 64;
  } catch (std::out_of_range const& ex) {
    flush_out();
    fprintf(stderr, "smpi_replay_driver: bad case: %s\n", ex.what());
    return 64;
  }
  return 0;
}

int main(int argc, char** argv)
{
  return vf_main(argc, argv, run_case);
}
