/* c36_vars.hpp: the per-rank globals of the C36 test programs (drivers/c36_prog*.cpp + c36_vars_a.cpp + c36_vars_b.cpp).
 * Every scalar variable has an id (c36_get / c36_set dispatch to the translation unit that owns it) and every ARRAY has an id
 * (c36_aget / c36_aset / c36_alen: any element).  See vf/props/c36.py for the tables.
 *
 * C36_SCALE chooses the sizes of the uninitialised arrays, i.e. how far .bss spills past the last file-backed page of the data segment
 * (the part that mmap privatization has to find in the anonymous mapping that follows):
 *     1: ~6 kB of .bss     2: ~20 kB     3: ~36 kB     0 (default): 1.2 MB (+ 280 kB of .data) */
#pragma once
#ifndef C36_SCALE
#define C36_SCALE 0
#endif
#if C36_SCALE == 1
constexpr long C36_N_BIG = 1000, C36_N_MID = 300, C36_N_FS = 100, C36_N_DATA = 1500;
#elif C36_SCALE == 2
constexpr long C36_N_BIG = 3000, C36_N_MID = 1500, C36_N_FS = 200, C36_N_DATA = 1500;
#elif C36_SCALE == 3
constexpr long C36_N_BIG = 6000, C36_N_MID = 2500, C36_N_FS = 256, C36_N_DATA = 3000;
#else
constexpr long C36_N_BIG = 300000, C36_N_MID = 5000, C36_N_FS = 2048, C36_N_DATA = 70000;
#endif
constexpr long C36_N_ARR  = 1024;  /* a_arr: initialised */
constexpr long C36_N_MAIN = 700;   /* main_bss: shorts */
constexpr int C36_NVARS  = 24;
constexpr int C36_NARRS  = 6;
constexpr int C36_NBUF   = 64;
long long c36_get_a(int id);
void c36_set_a(int id, long long v);
long long c36_get_b(int id);
void c36_set_b(int id, long long v);
long long c36_get_main(int id);
void c36_set_main(int id, long long v);
/* arrays: 0 a_arr (int, .data)  1 a_big_bss (int, .bss)  2 b_mid_bss (static int, .bss, file b)  3 function-static long array (file b)
 *         4 b_big_data (int, .data, file b)  5 main_bss (static short, .bss, main file) */
long c36_alen(int arr);
long long c36_aget_a(int arr, long idx);
void c36_aset_a(int arr, long idx, long long v);
long long c36_aget_b(int arr, long idx);
void c36_aset_b(int arr, long idx, long long v);
/* communication buffers that are themselves globals */
extern int c36_sbuf[C36_NBUF];       /* initialised data, file a */
int* c36_rbuf();                     /* static BSS array of file b */
extern long long c36_bcast_var;      /* BSS, file b */
