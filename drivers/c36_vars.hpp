/* c36_vars.hpp: the per-rank globals of the C36 test program (drivers/c36_prog.cpp + c36_vars_a.cpp + c36_vars_b.cpp).
 * Every variable has an id; c36_get / c36_set dispatch to the translation unit that owns it.  See vf/props/c36.py for the table. */
#pragma once
constexpr int C36_NVARS = 24;
constexpr int C36_NBUF  = 64;
long long c36_get_a(int id);
void c36_set_a(int id, long long v);
long long c36_get_b(int id);
void c36_set_b(int id, long long v);
long long c36_get_main(int id);
void c36_set_main(int id, long long v);
/* communication buffers that are themselves globals */
extern int c36_sbuf[C36_NBUF];       /* initialised data, file a */
int* c36_rbuf();                     /* static BSS array of file b */
extern long long c36_bcast_var;      /* BSS, file b */
