// vf-driver: kind=cxx
/* lmm_driver: executes a history of LMM operations on a real simgrid::kernel::lmm::System.
 *
 * usage: lmm_driver <history.json> | --serve <errfile>   (see forkserver.hpp)
 * history: {"solver":"maxmin|fairbottleneck|bmf","selective":bool,"debug":bool,"ops":[...]}  (see vf/lmm.py)
 * Prints one JSON line per operation: the driver's own shadow of what was requested, next to what SimGrid holds.
 * No oracle here: the driver only executes and reports.  Built with -fno-access-control.
 */
#include "simgrid/kernel/resource/Action.hpp"
#include "simgrid/kernel/resource/Model.hpp"
#include "src/kernel/lmm/System.hpp"
#include "src/kernel/lmm/maxmin.hpp"
#include "xbt/log.h"

#include "forkserver.hpp"

#include <climits>
#include <cmath>
#include <cstdio>
#include <fstream>
#include <iostream>
#include <nlohmann/json.hpp>
#include <vector>

namespace lmm = simgrid::kernel::lmm;
namespace res = simgrid::kernel::resource;
using json    = nlohmann::json;

class DummyModel : public res::Model {
public:
  DummyModel() : res::Model("dummy") {}
};
class DummyAction : public res::Action {
public:
  DummyAction(res::Model* m) : res::Action(m, 1.0, false) {}
  void update_remains_lazy(double) override {}
};

struct SVar;
struct SCnst {
  lmm::Constraint* c;
  double bound;
  int policy; // 1 shared, 0 fatpipe, 2 nonlinear
  int cb;
  int limit;
};
struct SElem {
  int c;
  double w;
  double wmax; // largest single weight given to expand() for this pair (what BMF calls the max consumption)
};
struct SVar {
  lmm::Variable* v;
  DummyAction* act;
  double penalty; // requested
  double bound;
  size_t cap;
  std::vector<SElem> elems;
  int uid;
  bool solved = false; // a solve happened since this variable was created
};

static double cb_apply(int kind, double cap, int n)
{
  switch (kind) {
    case 0:
      return cap / std::sqrt(static_cast<double>(n < 1 ? 1 : n));
    case 1:
      return cap * (0.5 + 0.5 / (n < 1 ? 1 : n));
    default:
      return n > 2 ? cap * 0.75 : cap;
  }
}

static std::vector<SCnst> cnsts;
static std::vector<SVar> vars;
static lmm::System* sys = nullptr;
static DummyModel* model = nullptr;

static json dump(bool solved, const json& fresh)
{
  json o;
  json jc = json::array();
  for (auto const& sc : cnsts) {
    json e;
    e["bound"]   = sc.bound;
    e["policy"]  = sc.policy;
    e["cb"]      = sc.cb;
    e["limit"]   = sc.limit;
    e["cur"]     = sc.c->concurrency_current_;
    e["max"]     = sc.c->concurrency_maximum_;
    e["dyn"]     = sc.c->dynamic_bound_;
    e["sg_bound"] = sc.c->bound_;
    e["sg_limit"] = sc.c->get_concurrency_limit();
    e["n_en"]    = sc.c->enabled_element_set_.size();
    e["n_dis"]   = sc.c->disabled_element_set_.size();
    e["load"]    = sc.c->get_load();
    jc.push_back(e);
  }
  json jv = json::array();
  for (auto const& sv : vars) {
    json e;
    e["uid"]     = sv.uid;
    e["penalty"] = sv.penalty;
    e["bound"]   = sv.bound;
    json je      = json::array();
    for (auto const& el : sv.elems)
      je.push_back({el.c, el.w, el.wmax});
    e["elems"]     = je;
    e["sg_pen"]    = sv.v->sharing_penalty_;
    e["sg_staged"] = sv.v->staged_sharing_penalty_;
    e["sg_bound"]  = sv.v->bound_;
    e["value"]     = sv.v->value_;
    e["slack"]     = sv.v->get_min_concurrency_slack();
    json se        = json::array();
    bool en = false, dis = false;
    for (auto const& el : sv.v->cnsts_) {
      int ci = -1;
      for (size_t i = 0; i < cnsts.size(); i++)
        if (cnsts[i].c == el.constraint)
          ci = i;
      se.push_back({ci, el.consumption_weight});
      en  = en || el.enabled_element_set_hook.is_linked();
      dis = dis || el.disabled_element_set_hook.is_linked();
    }
    e["sg_elems"] = se;
    e["in_en"]    = en;
    e["in_dis"]   = dis;
    jv.push_back(e);
  }
  o["cnst"]   = jc;
  o["var"]    = jv;
  o["solved"] = solved;
  if (not fresh.is_null())
    o["fresh"] = fresh;
  return o;
}

/* Fresh, non-selective system holding the current enabled activities (from the shadow), solved from scratch */
static json solve_fresh(const std::string& solver)
{
  lmm::System* f = lmm::System::build(solver, false);
  std::vector<lmm::Constraint*> fc;
  for (auto const& sc : cnsts) {
    auto* c = f->constraint_new(nullptr, sc.bound);
    if (sc.policy == 0)
      c->set_sharing_policy(lmm::Constraint::SharingPolicy::FATPIPE, {});
    else if (sc.policy == 2) {
      int kind = sc.cb;
      c->set_sharing_policy(lmm::Constraint::SharingPolicy::NONLINEAR,
                            [kind](double cap, int n) { return cb_apply(kind, cap, n); });
    }
    c->set_concurrency_limit(-1);
    fc.push_back(c);
  }
  std::vector<lmm::Variable*> fv;
  for (auto const& sv : vars) {
    // effective penalty: what SimGrid currently applies (a staged variable is not running)
    double pen = sv.v->sharing_penalty_;
    auto* v    = f->variable_new(nullptr, pen, sv.bound, sv.elems.size() + 1);
    for (auto const& el : sv.elems)
      f->expand(fc[el.c], v, el.w);
    fv.push_back(v);
  }
  f->solve();
  json out = json::array();
  for (auto* v : fv)
    out.push_back(v->value_);
  for (auto* v : fv)
    f->variable_free(v);
  delete f;
  return out;
}

static int run_case(const std::string& text)
{
  json h = json::parse(text);
  std::string solver = h.value("solver", "maxmin");
  bool selective     = h.value("selective", false);
  bool debug         = h.value("debug", false);
  bool want_fresh    = h.value("fresh", false);
  bool late_expand   = h.value("late_expand", false);
  xbt_log_control_set(debug ? "ker_lmm.thres:debug" : "ker_lmm.thres:info");
  // reset what the previous case of this process left (in-process server mode)
  for (auto& sv : vars)
    delete sv.act; // frees the variable too
  vars.clear();
  cnsts.clear();
  delete model; // owns the system
  model = nullptr;
  sys   = nullptr;
  setvbuf(stdout, nullptr, _IOLBF, 0);
  sys   = lmm::System::build(solver, selective);
  if (sys == nullptr) {
    printf("{\"error\":\"solver-unavailable\"}\n");
    return 3;
  }
  model = new DummyModel();
  model->set_maxmin_system(sys);
  int uid = 0;
  int idx = 0;
  for (auto const& op : h["ops"]) {
    std::string name = op[0];
    json line;
    line["i"]  = idx++;
    line["op"] = op;
    bool solved = false;
    json fresh;
    if (name == "cnst") {
      SCnst sc;
      sc.bound  = op[1];
      sc.policy = op[2];
      sc.cb     = op[3];
      sc.limit  = op[4];
      sc.c      = sys->constraint_new(nullptr, sc.bound);
      if (sc.policy == 0)
        sc.c->set_sharing_policy(lmm::Constraint::SharingPolicy::FATPIPE, {});
      else if (sc.policy == 2) {
        int kind = sc.cb;
        sc.c->set_sharing_policy(lmm::Constraint::SharingPolicy::NONLINEAR,
                                 [kind](double cap, int n) { return cb_apply(kind, cap, n); });
      }
      sc.c->set_concurrency_limit(sc.limit);
      cnsts.push_back(sc);
    } else if (name == "var") {
      SVar sv;
      sv.penalty = op[1];
      sv.bound   = op[2];
      sv.cap     = op[3];
      sv.uid     = uid++;
      sv.act     = new DummyAction(model);
      sv.v       = sys->variable_new(sv.act, sv.penalty, sv.bound, sv.cap);
      sv.act->set_variable(sv.v);
      vars.push_back(sv);
    } else if (name == "expand") {
      if (cnsts.empty() || vars.empty()) {
        line["skip"] = true;
      } else {
        int c    = op[1].get<int>() % cnsts.size();
        int v    = op[2].get<int>() < 0 ? vars.size() - 1 : op[2].get<int>() % vars.size();
        double w = op[3];
        SVar& sv = vars[v];
        auto it  = std::find_if(sv.elems.begin(), sv.elems.end(), [c](SElem const& e) { return e.c == c; });
        if (it == sv.elems.end() && sv.elems.size() >= sv.cap) {
          line["skip"] = true;
        } else if (sv.solved && not late_expand) {
          // Precondition of every real caller: an activity declares all the resources it uses when it is created,
          // before the next solve (see DESIGN.md, C17 triage).
          line["skip"] = true;
          line["late"] = true;
        } else {
          sys->expand(cnsts[c].c, sv.v, w);
          if (it == sv.elems.end())
            sv.elems.push_back({c, w, w});
          else {
            it->wmax = std::max(it->wmax, w);
            if (cnsts[c].policy != 0)
              it->w += w;
            else
              it->w = std::max(it->w, w);
          }
        }
      }
    } else if (name == "reexpand") { // ["reexpand", v, k, w]: declare again, with weight w, the k-th resource that variable v already uses
      if (vars.empty()) {
        line["skip"] = true;
      } else {
        SVar& sv = vars[op[1].get<int>() % vars.size()];
        if (sv.elems.empty() || (sv.solved && not late_expand)) {
          line["skip"] = true;
        } else {
          SElem& el = sv.elems[op[2].get<int>() % sv.elems.size()];
          double w  = op[3];
          sys->expand(cnsts[el.c].c, sv.v, w);
          el.wmax = std::max(el.wmax, w);
          if (cnsts[el.c].policy != 0)
            el.w += w;
          else
            el.w = std::max(el.w, w);
        }
      }
    } else if (name == "vbound") {
      if (vars.empty())
        line["skip"] = true;
      else {
        SVar& sv = vars[op[1].get<int>() % vars.size()];
        sv.bound = op[2];
        sys->update_variable_bound(sv.v, sv.bound);
      }
    } else if (name == "vpen") {
      if (vars.empty())
        line["skip"] = true;
      else {
        SVar& sv   = vars[op[1].get<int>() % vars.size()];
        sv.penalty = op[2];
        sys->update_variable_penalty(sv.v, sv.penalty);
      }
    } else if (name == "cbound") {
      if (cnsts.empty())
        line["skip"] = true;
      else {
        SCnst& sc = cnsts[op[1].get<int>() % cnsts.size()];
        sc.bound  = op[2];
        sys->update_constraint_bound(sc.c, sc.bound);
      }
    } else if (name == "free") {
      if (vars.empty())
        line["skip"] = true;
      else {
        int v    = op[1].get<int>() % vars.size();
        SVar& sv = vars[v];
        if (sv.act->is_within_modified_set())
          simgrid::xbt::intrusive_erase(*sys->get_modified_action_set(), *sv.act);
        sv.act->set_variable(nullptr);
        sys->variable_free(sv.v);
        delete sv.act;
        vars.erase(vars.begin() + v);
      }
    } else if (name == "jump") {
      // "a long time passes": the counter only ever grows between two wrap-arounds, so a jump never moves it backwards
      // (stamps larger than the counter would be states that no execution reaches)
      if (unsigned target = UINT_MAX - op[1].get<unsigned>(); target > sys->visited_counter_)
        sys->visited_counter_ = target;
      else
        line["skip"] = true;
    } else if (name == "solve") {
      sys->solve();
      solved = true;
      for (auto& sv : vars)
        sv.solved = true;
      if (selective) {
        auto* ms = sys->get_modified_action_set();
        json mod = json::array();
        while (not ms->empty()) {
          auto* a = &ms->front();
          ms->pop_front();
          for (auto const& sv : vars)
            if (sv.act == a)
              mod.push_back(sv.uid);
        }
        line["modified"] = mod;
      }
      if (want_fresh)
        fresh = solve_fresh(solver);
    } else {
      fprintf(stderr, "unknown op %s\n", name.c_str());
      return 64;
    }
    line["visited_counter"] = sys->visited_counter_;
    line["st"]              = dump(solved, fresh);
    printf("%s\n", line.dump().c_str());
  }
  printf("{\"done\":true}\n");
  return 0; // vf_main _exit()s: destructors are skipped (leaked variables are warned about, not our business here)
}

int main(int argc, char** argv)
{
  return vf_main(argc, argv, run_case, nullptr, true);
}
