// vf-driver: kind=cxx
/* s4u_fault: the S4U scenario interpreter (s4u_core.hpp, see notes/S4U_INTERP.md) built as a driver of its own for C10 / C22 / C23.
 *
 * Same program as s4u_interp (plain runs only).  Why a separate binary: s4u_core.hpp pulls the extension headers in through
 * `__has_include`, which ccache's direct mode does not track: s4u_interp was repeatedly served from a cache entry recorded before
 * s4u_ext_fault.hpp existed (or with an older version of it), and ninja's cached depfile then lacked the header too.  Including the
 * header explicitly here makes both ninja and ccache see the dependency.
 *
 *   s4u_fault <scenario.json|->            plain run (one process)
 *   s4u_fault --serve <errfile>            fork server (see forkserver.hpp): one scenario per request line
 */
#include "s4u_core.hpp"

#include "s4u_ext_fault.hpp" // explicit on purpose (see above); the header has an include guard

#include "forkserver.hpp"

static int run_case(const std::string& text)
{
  json sc = json::parse(text);
  std::vector<std::string> args = {"s4u_fault", "--log=root.fmt:[%10.6r]%e[%a]%e%m%n", "--log=no_loc"};
  if (sc.contains("log"))
    for (auto const& l : sc["log"])
      args.push_back("--log=" + l.get<std::string>());
  std::vector<char*> argv;
  for (auto& a : args)
    argv.push_back(a.data());
  argv.push_back(nullptr);
  int argc = static_cast<int>(args.size());
  setvbuf(stdout, nullptr, _IOLBF, 0);
  sg4::Engine e(&argc, argv.data());
  vf::setup(e, sc, false);
  if (sc.contains("horizon"))
    e.run_until(sc["horizon"].get<double>());
  else
    e.run();
  json j = {{"k", "done"}, {"t", vf::hx(sg4::Engine::get_clock())}, {"ext", vf::fault_ext_version}};
  vf::emit(j);
  return 0;
}

int main(int argc, char** argv)
{
  return vf_main(argc, argv, run_case);
}
