// vf-driver: kind=cxx extra=mpi_ops_base.cpp,mpi_ops_topo.cpp,mpi_ops_group.cpp,mpi_ops_type.cpp,mpi_ops_op.cpp,mpi_ops_coll.cpp
/* mpi_interp: generic MPI scenario interpreter running on SMPI *inside* the driver process (one fork per case).
 *
 * usage: mpi_interp <case.json | -> | --serve <errfile>    (fork-server protocol: drivers/forkserver.hpp)
 *
 * case: { "np": 4,                       number of ranks (actors)
 *         "prog": [ {"op": "...", ...} ],  the SPMD program: every rank executes the list in order
 *         "cfg": ["smpi/coll-selector:mpich"],   optional extra --cfg items
 *         "log": ["smpi_mpi.thres:verbose"],     optional --log items
 *         "platform": "/path/file.xml",          optional: default = star cluster built here, one host per rank
 *         "nhosts": 2,                           optional (built-in platform): ranks are placed round-robin on nhosts hosts
 *         "hosts": ["Tremblay", ...] }           optional (xml platform): host of each rank (cycled)
 *
 * operation: {"op": name, "only": [ranks]?, ...arguments}.  Any argument value of the form {"@": [v0, v1, ...]} is
 * replaced by v<world rank> before the handler runs (per-rank arguments).  "only" restricts the op to some world ranks.
 *
 *         "hello": true                          optional: print first a line {"k":"hello","const":{..},"err":{..}} (MPI constants)
 *         "world": "uninitialized"               optional: leave the global MPI_COMM_WORLD as SMPI_app_instance_start() does
 *
 * output: one line per executed operation
 *     {"r": world rank, "i": index in prog, "op": name, "rc": MPI return code, ...results}
 *   "exc": text when the call threw a C++ exception; last line of each rank {"r":..,"k":"done"}; finally {"k":"end","t":clock}.
 *   A fatal signal (SIGFPE, SIGSEGV, abort from xbt_assert...) prints {"k":"crash","sig":n,"r":rank,"i":index,"op":name}
 *   after everything that was printed before, then the process dies of that signal.
 * Exit status 64 = malformed case (a generator bug, never a verdict).
 *
 * See /verif/notes/MPI_INFRA.md.
 */
#include "mpi_interp.hpp"

#include "forkserver.hpp"
#include <simgrid/Exception.hpp>
#include <simgrid/s4u.hpp>
#include "smpi/include/smpi_actor.hpp" // internal: to read the instance's MPI_COMM_WORLD (src/smpi/include)

namespace sg4 = simgrid::s4u;

namespace mpii {

std::map<std::string, Handler>& registry()
{
  static std::map<std::string, Handler> r;
  return r;
}

std::string to_hex(const unsigned char* p, size_t n)
{
  static const char d[] = "0123456789abcdef";
  std::string s(2 * n, '0');
  for (size_t i = 0; i < n; i++) {
    s[2 * i]     = d[p[i] >> 4];
    s[2 * i + 1] = d[p[i] & 15];
  }
  return s;
}

std::vector<unsigned char> from_hex(const std::string& s)
{
  auto v = [](char c) { return c <= '9' ? c - '0' : (c | 32) - 'a' + 10; };
  std::vector<unsigned char> r(s.size() / 2);
  for (size_t i = 0; i < r.size(); i++)
    r[i] = static_cast<unsigned char>(v(s[2 * i]) * 16 + v(s[2 * i + 1]));
  return r;
}

static json resolve(const json& v, int rank)
{
  if (v.is_object()) {
    if (v.size() == 1 && v.contains("@")) {
      auto const& l = v.at("@");
      if (not l.is_array() || l.empty())
        throw BadCase("per-rank value must be a non-empty list");
      return resolve(l.at(rank % l.size()), rank);
    }
    json r = json::object();
    for (auto it = v.begin(); it != v.end(); ++it)
      r[it.key()] = resolve(it.value(), rank);
    return r;
  }
  if (v.is_array()) {
    json r = json::array();
    for (auto const& x : v)
      r.push_back(resolve(x, rank));
    return r;
  }
  return v;
}

/* ---- output: own buffer, written with write(2); flushed by the fatal-signal handler so that the lines printed before a
 * crash are never lost, followed by a {"k":"crash"} line naming the operation that was running ---- */
static std::string outbuf;
static volatile int cur_rank = -1, cur_idx = -1;
static char cur_op[64]       = "";

static void flush_out()
{
  size_t done = 0;
  while (done < outbuf.size()) {
    ssize_t n = write(1, outbuf.data() + done, outbuf.size() - done);
    if (n <= 0)
      break;
    done += static_cast<size_t>(n);
  }
  outbuf.clear();
}

static void emit(const json& o)
{
  outbuf += o.dump();
  outbuf.push_back('\n');
  if (outbuf.size() > (1u << 16))
    flush_out();
}

static void on_fatal_signal(int sig)
{
  flush_out();
  char line[200];
  int n = snprintf(line, sizeof line, "{\"k\":\"crash\",\"sig\":%d,\"r\":%d,\"i\":%d,\"op\":\"%s\"}\n", sig, cur_rank, cur_idx, cur_op);
  if (n > 0 && write(1, line, static_cast<size_t>(n)) < 0) { /* nothing to do */
  }
  signal(sig, SIG_DFL);
  raise(sig);
}

void flush_all()
{
  flush_out();
}

void emit_line(const json& o)
{
  emit(o);
}

void install_crash_reporting()
{
  outbuf.reserve(1u << 17);
  atexit(flush_out);
  for (int sig : {SIGFPE, SIGABRT, SIGBUS, SIGILL, SIGSEGV}) {
    struct sigaction sa;
    memset(&sa, 0, sizeof sa);
    sa.sa_handler = on_fatal_signal;
    sa.sa_flags   = SA_ONSTACK | SA_NODEFER;
    sigaction(sig, &sa, nullptr);
  }
}

void rank_main(const json& kase)
{
  MPI_Init();
  /* smpirun sets the global MPI_COMM_WORLD to the communicator of the (single) instance; SMPI_app_instance_start()
   * leaves it "uninitialized" (every call then looks the instance up).  Default: behave like smpirun. */
  if (kase.value("world", std::string("global")) == "global")
    MPI_COMM_WORLD = simgrid::s4u::Actor::self()->extension<simgrid::smpi::ActorExt>()->comm_world();
  Rank R;
  MPI_Comm_rank(MPI_COMM_WORLD, &R.rank);
  MPI_Comm_size(MPI_COMM_WORLD, &R.size);
  predefined(R);
  auto const& prog = kase.at("prog");
  int idx          = -1;
  for (auto const& raw : prog) {
    idx++;
    if (raw.contains("only")) {
      bool mine = false;
      for (auto const& x : raw.at("only"))
        mine = mine || x.get<int>() == R.rank;
      if (not mine)
        continue;
    }
    json o;
    o["r"] = R.rank;
    o["i"] = idx;
    try {
      json a           = resolve(raw, R.rank);
      std::string name = a.at("op").get<std::string>();
      o["op"]          = name;
      cur_rank         = R.rank;
      cur_idx          = idx;
      snprintf(cur_op, sizeof cur_op, "%s", name.c_str());
      auto it          = registry().find(name);
      if (it == registry().end())
        throw BadCase("unknown operation '" + name + "'");
      it->second(R, a, o);
    } catch (simgrid::ForcefulKillException const&) {
      throw;
    } catch (BadCase const& e) {
      flush_out();
      fprintf(stderr, "mpi_interp: bad case at op #%d: %s\n", idx, e.what());
      fflush(stderr);
      _exit(64);
    } catch (json::exception const& e) {
      flush_out();
      fprintf(stderr, "mpi_interp: bad case at op #%d: %s\n", idx, e.what());
      fflush(stderr);
      _exit(64);
    } catch (std::exception const& e) {
      o["exc"] = e.what();
    }
    emit(o);
  }
  emit(json{{"r", R.rank}, {"k", "done"}});
  cur_idx = -2; // in MPI_Finalize
  snprintf(cur_op, sizeof cur_op, "finalize");
  MPI_Finalize();
}

} // namespace mpii

static void hello()
{
  json h;
  h["k"] = "hello";
  json c;
#define CONST(x) c[#x] = static_cast<long long>(x);
  CONST(MPI_PROC_NULL) CONST(MPI_UNDEFINED) CONST(MPI_ANY_SOURCE) CONST(MPI_ANY_TAG) CONST(MPI_IDENT)
  CONST(MPI_SIMILAR) CONST(MPI_UNEQUAL) CONST(MPI_CONGRUENT) CONST(MPI_CART) CONST(MPI_GRAPH) CONST(MPI_DIST_GRAPH)
  CONST(MPI_BSEND_OVERHEAD) CONST(MPI_ROOT) CONST(MPI_ORDER_C) CONST(MPI_ORDER_FORTRAN)
#undef CONST
  h["const"] = c;
  json e;
#define ERR(x) e[#x] = static_cast<int>(x);
  FOREACH_ERROR(ERR)
#undef ERR
  h["err"] = e;
  mpii::emit_line(h);
}

static double cpu_now()
{
  struct timespec ts;
  clock_gettime(CLOCK_PROCESS_CPUTIME_ID, &ts);
  return static_cast<double>(ts.tv_sec) * 1e3 + static_cast<double>(ts.tv_nsec) / 1e6;
}

/* ---- engine and platform ---- */
static std::vector<std::string> default_args()
{
  return {"mpi_interp", "--cfg=smpi/errors-are-fatal:no", "--cfg=smpi/simulate-computation:no", "--cfg=smpi/privatization:no",
          "--log=xbt_cfg.thres:warning", "--log=smpi_config.thres:warning"};
}

static std::vector<sg4::Host*> build_star(sg4::Engine& e, int nhosts)
{
  auto* cluster       = e.get_netzone_root()->add_netzone_star("cluster");
  const sg4::Link* bb = cluster->add_link("backbone", "10Gbps")->set_latency("10us");
  std::vector<sg4::Host*> all;
  for (int i = 0; i < nhosts; i++) {
    std::string name     = "h" + std::to_string(i);
    sg4::Host* host      = cluster->add_host(name, "1Gf");
    const sg4::Link* lnk = cluster->add_link(name + "_link", "1Gbps")->set_latency("20us");
    cluster->add_route(host, nullptr, {sg4::LinkInRoute(lnk), sg4::LinkInRoute(bb)}, true);
    all.push_back(host);
  }
  cluster->seal();
  e.get_netzone_root()->seal();
  return all;
}

static sg4::Engine* make_engine(std::vector<std::string>& args)
{
  std::vector<char*> argv;
  for (auto& a : args)
    argv.push_back(a.data());
  argv.push_back(nullptr);
  int argc = static_cast<int>(args.size());
  smpi_init_options(); // declare the smpi/ configuration items before the command line is parsed
  return new sg4::Engine(&argc, argv.data());
}

/* Server mode: the engine and the default platform (a star of PRE_HOSTS hosts) are built ONCE in the server, before the
 * per-case fork: in this sandbox the copy-on-write page faults of a forked child cost 5-10x more than the same work in a
 * fresh process (engine + platform: 50-150 ms of CPU per case when done after the fork).  Cases that need another
 * platform or a non-smpi configuration item cannot use it (exit 65): vf/mpi.py sends them to a second server started
 * with MPI_INTERP_FRESH=1, which builds everything after the fork.  `mpi_interp <file>` always builds everything. */
static int PRE_HOSTS             = getenv("MPI_INTERP_PRE_HOSTS") ? atoi(getenv("MPI_INTERP_PRE_HOSTS")) : 128;
static sg4::Engine* pre_engine   = nullptr;
static std::vector<sg4::Host*> pre_hosts;

static void preload()
{
  if (getenv("MPI_INTERP_FRESH") != nullptr)
    return;
  static std::vector<std::string> args = default_args();
  pre_engine                           = make_engine(args);
  pre_hosts                            = build_star(*pre_engine, PRE_HOSTS);
  pre_engine->set_default_comm_data_copy_callback(smpi_comm_copy_buffer_callback);
}

static bool needs_fresh_engine(const json& kase)
{
  if (kase.contains("platform") && kase.at("platform").is_string())
    return true;
  if (kase.value("nhosts", 1) > PRE_HOSTS)
    return true;
  if (kase.contains("cfg"))
    for (auto const& c : kase.at("cfg"))
      if (c.get<std::string>().rfind("smpi/", 0) != 0)
        return true;
  return kase.value("fresh", false);
}

static int run_case(const std::string& text)
{
  double t0 = cpu_now();
  json kase;
  try {
    kase = json::parse(text);
  } catch (json::exception const& e) {
    fprintf(stderr, "mpi_interp: cannot parse the case: %s\n", e.what());
    return 64;
  }
  try {
    int np = kase.at("np").get<int>();
    if (np < 1 || np > 4096)
      throw mpii::BadCase("np out of range");
    double t1 = cpu_now();
    sg4::Engine* e;
    std::vector<sg4::Host*> hosts;
    if (pre_engine != nullptr) {
      if (needs_fresh_engine(kase)) {
        fprintf(stderr, "mpi_interp: this case needs its own engine (platform / non-smpi cfg): use the MPI_INTERP_FRESH=1 server\n");
        return 65;
      }
      e = pre_engine;
      if (kase.contains("cfg"))
        for (auto const& c : kase.at("cfg"))
          sg4::Engine::set_config(c.get<std::string>());
      if (kase.contains("log"))
        for (auto const& c : kase.at("log"))
          xbt_log_control_set(c.get<std::string>().c_str());
      int nhosts = std::min(kase.value("nhosts", np), PRE_HOSTS);
      for (int i = 0; i < np; i++)
        hosts.push_back(pre_hosts[i % nhosts]);
    } else {
      std::vector<std::string> args = default_args();
      if (kase.contains("cfg"))
        for (auto const& c : kase.at("cfg"))
          args.push_back("--cfg=" + c.get<std::string>());
      if (kase.contains("log"))
        for (auto const& c : kase.at("log"))
          args.push_back("--log=" + c.get<std::string>());
      e = make_engine(args);
      std::vector<sg4::Host*> all;
      if (kase.contains("platform") && kase.at("platform").is_string()) {
        e->load_platform(kase.at("platform").get<std::string>());
        all = e->get_all_hosts();
        if (kase.contains("hosts")) {
          all.clear();
          for (auto const& h : kase.at("hosts"))
            all.push_back(e->host_by_name(h.get<std::string>()));
        }
      } else {
        all = build_star(*e, kase.value("nhosts", np));
      }
      if (all.empty())
        throw mpii::BadCase("no host");
      for (int i = 0; i < np; i++)
        hosts.push_back(all[i % all.size()]);
      e->set_default_comm_data_copy_callback(smpi_comm_copy_buffer_callback);
    }

    double t2 = cpu_now();
    SMPI_init();
    mpii::install_crash_reporting(); // after the engine: SimGrid installs its own SIGSEGV handler (stack overflow message)
    if (kase.value("hello", false))
      hello();
    const json* kp = &kase;
    SMPI_app_instance_start("app", [kp]() { mpii::rank_main(*kp); }, hosts);
    double t3 = cpu_now();
    e->run();
    double t4 = cpu_now();
    /* cpu: milliseconds of CPU spent in [parsing the case, engine + platform creation, SMPI_init + actor creation, the simulation] */
    mpii::emit_line(json{{"k", "end"}, {"t", e->get_clock()}, {"cpu", {t1 - t0, t2 - t1, t3 - t2, t4 - t3}}});
    mpii::flush_all();
    SMPI_finalize();
    /* the engine is not destroyed: the process exits right after */
  } catch (mpii::BadCase const& e) {
    mpii::flush_all();
    fprintf(stderr, "mpi_interp: bad case: %s\n", e.what());
    return 64;
  } catch (json::exception const& e) {
    mpii::flush_all();
    fprintf(stderr, "mpi_interp: bad case: %s\n", e.what());
    return 64;
  }
  return 0;
}

int main(int argc, char** argv)
{
  return vf_main(argc, argv, run_case, preload);
}
