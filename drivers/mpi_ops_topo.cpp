/* mpi_ops_topo.cpp: Cartesian topology operations of mpi_interp (C33). */
#include "mpi_interp.hpp"

using namespace mpii;

static constexpr int CANARY = -777777;

/* {"op":"cart_create","comm"?,"dims":[..],"periods":[..],"reorder":0?,"out":name} -> "null": bool */
MPI_OPERATION(cart_create)
{
  auto dims    = ints(a, "dims");
  auto periods = ints(a, "periods");
  if (dims.size() != periods.size())
    throw BadCase("dims/periods sizes differ");
  MPI_Comm nc = MPI_COMM_NULL;
  o["rc"]     = MPI_Cart_create(R.comm(a), static_cast<int>(dims.size()), ptr(dims), ptr(periods), a.value("reorder", 0), &nc);
  R.comms[a.at("out").get<std::string>()] = nc;
  o["null"] = nc == MPI_COMM_NULL;
  if (nc != MPI_COMM_NULL) {
    int r = -1, s = -1;
    MPI_Comm_rank(nc, &r);
    MPI_Comm_size(nc, &s);
    o["rank"] = r;
    o["size"] = s;
  }
}

/* {"op":"cart_sub","comm":c,"remain":[0/1..],"out":name} */
MPI_OPERATION(cart_sub)
{
  auto remain = ints(a, "remain");
  MPI_Comm nc = MPI_COMM_NULL;
  o["rc"]     = MPI_Cart_sub(R.comm(a), ptr(remain), &nc);
  R.comms[a.at("out").get<std::string>()] = nc;
  o["null"] = nc == MPI_COMM_NULL;
  if (nc != MPI_COMM_NULL) {
    int r = -1, s = -1;
    MPI_Comm_rank(nc, &r);
    MPI_Comm_size(nc, &s);
    o["rank"] = r;
    o["size"] = s;
  }
}

/* {"op":"cartdim_get","comm":c} -> ndims */
MPI_OPERATION(cartdim_get)
{
  int nd     = CANARY;
  o["rc"]    = MPI_Cartdim_get(R.comm(a), &nd);
  o["ndims"] = nd;
}

/* {"op":"topo_test","comm":c} -> status */
MPI_OPERATION(topo_test)
{
  int st      = CANARY;
  o["rc"]     = MPI_Topo_test(R.comm(a), &st);
  o["status"] = st;
}

/* {"op":"cart_get","comm":c,"maxdims":n} -> dims, periods, coords (n entries each; canaries where untouched) */
MPI_OPERATION(cart_get)
{
  int n = a.at("maxdims").get<int>();
  if (n < 0 || n > 64)
    throw BadCase("maxdims");
  std::vector<int> d(n + 1, CANARY), p(n + 1, CANARY), c(n + 1, CANARY);
  o["rc"]      = MPI_Cart_get(R.comm(a), n, d.data(), p.data(), c.data());
  o["dims"]    = d;
  o["periods"] = p;
  o["coords"]  = c;
}

/* {"op":"cart_coords","comm":c,"ranks":[r..],"maxdims":n} -> "res": [[rc, [coords]]..] */
MPI_OPERATION(cart_coords)
{
  int n = a.at("maxdims").get<int>();
  if (n < 0 || n > 64)
    throw BadCase("maxdims");
  json res   = json::array();
  MPI_Comm c = R.comm(a);
  for (int r : ints(a, "ranks")) {
    std::vector<int> co(n + 1, CANARY);
    int rc = MPI_Cart_coords(c, r, n, co.data());
    res.push_back({rc, co});
  }
  o["res"] = res;
  o["rc"]  = 0;
}

/* {"op":"cart_rank","comm":c,"coords":[[..]..]} -> "res": [[rc, rank]..] */
MPI_OPERATION(cart_rank)
{
  json res   = json::array();
  MPI_Comm c = R.comm(a);
  for (auto const& jc : a.at("coords")) {
    std::vector<int> co;
    for (auto const& x : jc)
      co.push_back(x.get<int>());
    int r  = CANARY;
    int rc = MPI_Cart_rank(c, ptr(co), &r);
    res.push_back({rc, r});
  }
  o["res"] = res;
  o["rc"]  = 0;
}

/* {"op":"cart_shift","comm":c,"shifts":[[direction, disp]..]} -> "res": [[rc, source, dest]..] */
MPI_OPERATION(cart_shift)
{
  json res   = json::array();
  MPI_Comm c = R.comm(a);
  for (auto const& s : a.at("shifts")) {
    int src = CANARY, dst = CANARY;
    int rc = MPI_Cart_shift(c, s.at(0).get<int>(), s.at(1).get<int>(), &src, &dst);
    res.push_back({rc, src, dst});
  }
  o["res"] = res;
  o["rc"]  = 0;
}

/* {"op":"dims_create","nnodes":n,"dims":[..]} -> "dims" after the call */
MPI_OPERATION(dims_create)
{
  auto dims = ints(a, "dims");
  int nd    = a.value("ndims", static_cast<int>(dims.size()));
  dims.push_back(CANARY);
  o["rc"]   = MPI_Dims_create(a.at("nnodes").get<int>(), nd, dims.data());
  o["dims"] = dims;
}
