// vf-driver: kind=cxx
/* smpi_pshared_driver (C35 level b): a 2-rank MPI application (started inside this process with SMPI_app_instance_start,
 * like mpi_interp) that transfers parts of SMPI_PARTIAL_SHARED_MALLOC buffers from rank 0 to rank 1.
 *
 * case: {"cfg":["smpi/send-is-detached-thresh:0",...],
 *        "xfers":[{"src":{"size":S,"shared":[s0,e0,...]} (no "shared" key = plain malloc), "so":offset,
 *                  "dst":{...}, "do":offset, "n":bytes sent, "rn":bytes the receive accepts (>= n),
 *                  "send":"send"|"isend"|"ssend"|"issend"|"rsend"|"bsend", "recv":"recv"|"irecv", "first":"send"|"recv"}, ...]}
 * For every transfer both ranks allocate their buffer, fill ALL of it (sender: even bytes derived from the index, receiver:
 * odd bytes), synchronise, transfer (the side that is not "first" posts its call one simulated second later), then
 *   rank 1 prints {"x":k,"side":"recv","status":[source,tag,count],"runs":[[c,b,e],...]}: its whole buffer classified byte by
 *     byte, run-length encoded: c = "R" the receiver's own fill, "S" the sender's byte for that position of the message,
 *     "X" anything else;
 *   rank 0 prints {"x":k,"side":"send","runs":[...]}: its buffer after the send ("O" own fill, "X" anything else).
 * No oracle here.
 */
#include "simgrid/s4u.hpp"
#include "smpi/smpi.h"
#include "src/smpi/include/private.hpp"
#include "src/smpi/include/smpi_actor.hpp"

#include "forkserver.hpp"

#include <nlohmann/json.hpp>
#include <vector>

namespace sg4 = simgrid::s4u;
using json    = nlohmann::json;

static unsigned char sfill(int k, size_t i)
{
  return static_cast<unsigned char>((((i * 13 + k * 5 + 1) & 0x7f) << 1)); // even
}
static unsigned char rfill(int k, size_t i)
{
  return static_cast<unsigned char>((((i * 11 + k * 3 + 2) & 0x7f) << 1) | 1); // odd
}

static unsigned char* alloc(const json& b)
{
  size_t size = b["size"].get<size_t>();
  if (not b.contains("shared"))
    return static_cast<unsigned char*>(malloc(size > 0 ? size : 1));
  std::vector<size_t> offs;
  for (auto const& x : b["shared"])
    offs.push_back(x.get<size_t>());
  return static_cast<unsigned char*>(SMPI_PARTIAL_SHARED_MALLOC(size, offs.data(), static_cast<int>(offs.size() / 2)));
}
static void release(const json& b, unsigned char* p)
{
  if (b.contains("shared"))
    SMPI_SHARED_FREE(p);
  else
    free(p);
}

static json rle(const std::string& cls)
{
  json runs = json::array();
  size_t b  = 0;
  for (size_t i = 1; i <= cls.size(); i++)
    if (i == cls.size() || cls[i] != cls[b]) {
      runs.push_back({std::string(1, cls[b]), b, i});
      b = i;
    }
  return runs;
}

static void emit(const json& o)
{
  std::string s = o.dump() + "\n";
  fwrite(s.data(), 1, s.size(), stdout);
  fflush(stdout);
}

static void rank_main(const json& kase)
{
  MPI_Init();
  MPI_COMM_WORLD = sg4::Actor::self()->extension<simgrid::smpi::ActorExt>()->comm_world();
  int rank;
  MPI_Comm_rank(MPI_COMM_WORLD, &rank);
  static char bsend_buf[1 << 20];
  if (rank == 0)
    MPI_Buffer_attach(bsend_buf, sizeof bsend_buf);
  int k = -1;
  for (auto const& x : kase["xfers"]) {
    k++;
    const json& mine = rank == 0 ? x["src"] : x["dst"];
    size_t size      = mine["size"].get<size_t>();
    size_t off       = (rank == 0 ? x["so"] : x["do"]).get<size_t>();
    int n            = x["n"].get<int>();
    int rn           = x.value("rn", n);
    unsigned char* buf = alloc(mine);
    for (size_t i = 0; i < size; i++)
      buf[i] = rank == 0 ? sfill(k, i) : rfill(k, i);
    MPI_Barrier(MPI_COMM_WORLD);
    std::string first = x.value("first", std::string("recv"));
    json o;
    o["x"] = k;
    if (rank == 0) {
      if (first == "recv")
        sg4::this_actor::sleep_for(1.0);
      std::string m = x.value("send", std::string("send"));
      MPI_Request req = MPI_REQUEST_NULL;
      int rc;
      if (m == "send")
        rc = MPI_Send(buf + off, n, MPI_BYTE, 1, 7, MPI_COMM_WORLD);
      else if (m == "ssend")
        rc = MPI_Ssend(buf + off, n, MPI_BYTE, 1, 7, MPI_COMM_WORLD);
      else if (m == "rsend")
        rc = MPI_Rsend(buf + off, n, MPI_BYTE, 1, 7, MPI_COMM_WORLD);
      else if (m == "bsend")
        rc = MPI_Bsend(buf + off, n, MPI_BYTE, 1, 7, MPI_COMM_WORLD);
      else if (m == "isend") {
        rc = MPI_Isend(buf + off, n, MPI_BYTE, 1, 7, MPI_COMM_WORLD, &req);
        MPI_Wait(&req, MPI_STATUS_IGNORE);
      } else {
        rc = MPI_Issend(buf + off, n, MPI_BYTE, 1, 7, MPI_COMM_WORLD, &req);
        MPI_Wait(&req, MPI_STATUS_IGNORE);
      }
      o["rc"] = rc;
      MPI_Barrier(MPI_COMM_WORLD); // the message has been received when this returns
      std::string cls(size, 'X');
      for (size_t i = 0; i < size; i++)
        if (buf[i] == sfill(k, i))
          cls[i] = 'O';
      o["side"] = "send";
      o["runs"] = rle(cls);
    } else {
      if (first == "send")
        sg4::this_actor::sleep_for(1.0);
      MPI_Status st;
      memset(&st, 0, sizeof st);
      int rc;
      if (x.value("recv", std::string("recv")) == "recv")
        rc = MPI_Recv(buf + off, rn, MPI_BYTE, 0, 7, MPI_COMM_WORLD, &st);
      else {
        MPI_Request req;
        rc = MPI_Irecv(buf + off, rn, MPI_BYTE, 0, 7, MPI_COMM_WORLD, &req);
        MPI_Wait(&req, &st);
      }
      int count = -1;
      MPI_Get_count(&st, MPI_BYTE, &count);
      o["rc"]     = rc;
      o["status"] = {st.MPI_SOURCE, st.MPI_TAG, count};
      MPI_Barrier(MPI_COMM_WORLD);
      size_t so = x["so"].get<size_t>();
      std::string cls(size, 'X');
      for (size_t i = 0; i < size; i++) {
        if (buf[i] == rfill(k, i))
          cls[i] = 'R';
        else if (i >= off && i < off + static_cast<size_t>(n) && buf[i] == sfill(k, so + (i - off)))
          cls[i] = 'S';
      }
      o["side"] = "recv";
      o["runs"] = rle(cls);
    }
    emit(o);
    release(mine, buf);
  }
  if (rank == 0) {
    void* b;
    int s;
    MPI_Buffer_detach(&b, &s);
  }
  emit(json{{"done", rank}});
  MPI_Finalize();
}

static int run_case(const std::string& text)
{
  json kase                     = json::parse(text);
  std::vector<std::string> args = {"smpi_pshared_driver", "--cfg=smpi/simulate-computation:no", "--cfg=smpi/privatization:no",
                                   "--log=xbt_cfg.thres:warning", "--log=smpi_config.thres:warning"};
  if (kase.contains("cfg"))
    for (auto const& c : kase.at("cfg"))
      args.push_back("--cfg=" + c.get<std::string>());
  std::vector<char*> argv;
  for (auto& a : args)
    argv.push_back(a.data());
  argv.push_back(nullptr);
  int argc = static_cast<int>(args.size());

  smpi_init_options();
  sg4::Engine e(&argc, argv.data());
  auto* cluster       = e.get_netzone_root()->add_netzone_star("cluster");
  const sg4::Link* bb = cluster->add_link("backbone", "10Gbps")->set_latency("10us");
  std::vector<sg4::Host*> hosts;
  for (int i = 0; i < 2; i++) {
    std::string name     = "h" + std::to_string(i);
    sg4::Host* host      = cluster->add_host(name, "1Gf");
    const sg4::Link* lnk = cluster->add_link(name + "_link", "1Gbps")->set_latency("20us");
    cluster->add_route(host, nullptr, {sg4::LinkInRoute(lnk), sg4::LinkInRoute(bb)}, true);
    hosts.push_back(host);
  }
  cluster->seal();
  e.get_netzone_root()->seal();
  e.set_default_comm_data_copy_callback(smpi_comm_copy_buffer_callback);
  SMPI_init();
  const json* kp = &kase;
  SMPI_app_instance_start("app", [kp]() { rank_main(*kp); }, hosts);
  e.run();
  emit(json{{"end", e.get_clock()}});
  SMPI_finalize();
  return 0;
}

int main(int argc, char** argv)
{
  return vf_main(argc, argv, run_case);
}
