// vf-driver: kind=cxx
/* units_driver: calls the xbt_parse_get_* functions of src/xbt/xbt_parse_units.cpp on a batch of strings.
 *
 * request: {"items":[[kind, string, entity_kind], ...]}      kind in time|size|bandwidth|speed|bandwidths|all_speeds
 * answer : one JSON line {"res":[ ... ]} with, per item,
 *            {"v":"<hexfloat>"}  or {"l":["<hexfloat>",...]}   value(s) returned
 *            {"e":"ParseError","m":"<what>"}                    the documented rejection
 *            {"e":"other","m":"<what>"}                         any other C++ exception
 * No oracle here.  In-process server: the parsers keep no state besides their static tables.
 */
#include "simgrid/Exception.hpp"
#include "xbt/log.h"
#include "xbt/parse_units.hpp"

#include "forkserver.hpp"

#include <cstdio>
#include <nlohmann/json.hpp>
#include <string>
#include <vector>

using json = nlohmann::json;

static std::string hexf(double d)
{
  char buf[64];
  snprintf(buf, sizeof buf, "%a", d);
  return buf;
}

static int run_case(const std::string& text)
{
  json in = json::parse(text);
  json res = json::array();
  for (auto const& it : in["items"]) {
    std::string kind   = it[0];
    std::string s      = it[1];
    std::string entity = it[2];
    json o;
    try {
      if (kind == "time")
        o["v"] = hexf(xbt_parse_get_time("vf.xml", 7, s, entity));
      else if (kind == "size")
        o["v"] = hexf(xbt_parse_get_size("vf.xml", 7, s, entity));
      else if (kind == "bandwidth")
        o["v"] = hexf(xbt_parse_get_bandwidth("vf.xml", 7, s, entity));
      else if (kind == "speed")
        o["v"] = hexf(xbt_parse_get_speed("vf.xml", 7, s, entity));
      else if (kind == "bandwidths" || kind == "all_speeds") {
        std::vector<double> v = kind == "bandwidths" ? xbt_parse_get_bandwidths("vf.xml", 7, s, entity)
                                                     : xbt_parse_get_all_speeds("vf.xml", 7, s, entity);
        json l = json::array();
        for (double d : v)
          l.push_back(hexf(d));
        o["l"] = l;
      } else {
        o["e"] = "driver";
        o["m"] = "unknown kind";
      }
    } catch (const simgrid::ParseError& e) {
      o["e"] = "ParseError";
      o["m"] = e.what();
    } catch (const std::exception& e) {
      o["e"] = "other";
      o["m"] = e.what();
    }
    res.push_back(o);
  }
  json out;
  out["res"] = res;
  // pure ASCII output (U+0085 and co would be line breaks for Python's splitlines); invalid UTF-8 is replaced
  printf("%s\n", out.dump(-1, ' ', true, json::error_handler_t::replace).c_str());
  return 0;
}

int main(int argc, char** argv)
{
  xbt_log_control_set("root.thres:critical"); // unit-less values emit a deprecation warning per call
  return vf_main(argc, argv, run_case, nullptr, true);
}
