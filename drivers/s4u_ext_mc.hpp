/* s4u_ext_mc.hpp: operations of the S4U interpreter needed by the model-checker properties (C39, C43).  Owner: mc1.
 *
 *   ["mc_iprobe", mb, kind, tag]   Mailbox::iprobe(kind == 0 ? SEND : RECV, no match function, data) -> true when a matching
 *                               communication is queued.  In a build with SMPI the IprobeSimcall observer reads the tag of the
 *                               smpi::Request that `data` is supposed to designate: `data` is a block of memory in which every
 *                               int is `tag`, so that whatever the layout of smpi::Request the observer reads `tag`.
 *                               Only for programs whose other communications have no match function (plain put/get).
 */
#pragma once

namespace vf {
static bool mc_ops(Ctx& c, int idx, const json& op, json& result)
{
  const std::string o = op[0].get<std::string>();
  if (o == "mc_iprobe") {
    auto* mb = S->mailboxes[op[1].get<int>()];
    static std::vector<std::vector<int>*> blocks; // kept: the observer may be read after the simcall
    auto* blk = new std::vector<int>(1024, op[3].get<int>());
    blocks.push_back(blk);
    std::function<bool(void*, void*, simgrid::kernel::activity::CommImpl*)> no_match;
    auto found = mb->iprobe(op[2].get<int>() == 0 ? sg4::Mailbox::IprobeKind::SEND : sg4::Mailbox::IprobeKind::RECV, no_match, blk->data());
    result     = (found != nullptr);
    return true;
  }
  return false;
}
static ExtRegister mc_reg(mc_ops);
} // namespace vf
