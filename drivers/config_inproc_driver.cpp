// vf-driver: kind=cxx
/* config_inproc_driver: config_driver as an in-process server (no fork per case; see config_driver.cpp). */
#define VF_CONFIG_INPROC 1
#include "config_driver.cpp"
