// vf-driver: kind=cxx
/* config_argv_driver: config_driver without the pre-created Engine, so that each case can put --cfg=... words on the command
 * line of the Engine constructor (the route a user's command line takes).  See config_driver.cpp. */
#define VF_CONFIG_ARGV 1
#include "config_driver.cpp"
