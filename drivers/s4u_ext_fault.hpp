/* s4u_ext_fault.hpp: operations added for C10 / C22 / C23 (owner: builder "fault").  See notes/C10.md.
 *
 *   ["xput", mb, size, {init_wait}]      blocking put of a NAMED comm ("<actor>#<op index>"): put_init()->start()->wait() like Mailbox::put, or with
 *                                        init_wait: put_init()->wait() on the unstarted comm (the one-simcall path Comm::send)
 *   ["xget", mb, {init_wait}]            blocking get of a named comm into a variable of the actor's stack (like Mailbox::get<T>()): get_init()->
 *                                        set_dst_data()->start()->wait(), or with init_wait the one-simcall path Comm::recv
 *   ["turn_sd", name, on]                turn a SPLITDUPLEX link (both directions) off / on (the core's turn_off looks up plain links only)
 *   ["sendto", src, dst, size]           Comm::sendto(src host, dst host, size): blocking host-to-host communication without mailbox
 *   ["sendto_async", src, dst, size, h]  Comm::sendto_async -> handle h (kind comm_send)
 *   ["speed_info", host]                 {"speed","avail","on","pstate"} like the core's host_info without Host::get_load(), which segfaults under
 *                                        cpu/optim:TI (no LMM constraint)
 *   ["is_on", "host"|"link", name]       state of a resource read inside a simcall
 *   ["pstate_speed", host, p]            Host::get_pstate_speed (hex)
 *   ["watts", host]                      {"pstate", "idle","epsilon","max" of the pstate in force, "now": sg_host_get_current_consumption} (hex floats; host_energy plugin)
 */
#pragma once
#include "simgrid/plugins/energy.h"

namespace vf {

static const char* const fault_ext_version = "fault-ext-v3"; // `strings s4u_fault | grep fault-ext` tells which header was compiled

static bool fault_ops(Ctx& c, int idx, const json& op, json& result)
{
  const std::string o = op[0].get<std::string>();
  if (o == "xput") {
    json opts = op.size() > 3 && op[3].is_object() ? op[3] : json::object();
    auto* p   = make_payload(c, op[2].get<double>(), 0);
    json id   = {{"from", p->sender}, {"seq", p->seq}};
    auto comm = S->mailboxes[op[1].get<int>()]->put_init(p, static_cast<uint64_t>(op[2].get<double>()));
    comm->set_name(c.name + "#" + std::to_string(idx));
    if (not opts.value("init_wait", false))
      comm->start();
    comm->wait();
    result = id;
    return true;
  }
  if (o == "xget") {
    json opts    = op.size() > 2 && op[2].is_object() ? op[2] : json::object();
    Payload* res = nullptr;
    auto comm    = S->mailboxes[op[1].get<int>()]->get_init()->set_dst_data(reinterpret_cast<void**>(&res), sizeof(res));
    comm->set_name(c.name + "#" + std::to_string(idx));
    if (not opts.value("init_wait", false))
      comm->start();
    comm->wait();
    result = payload_json(res);
    delete res;
    return true;
  }
  if (o == "turn_sd") {
    auto* l = sg4::SplitDuplexLink::by_name(op[1].get<std::string>());
    if (op[2].get<bool>())
      l->turn_on();
    else
      l->turn_off();
    result = nullptr;
    return true;
  }
  if (o == "sendto") {
    sg4::Comm::sendto(host_by(op[1]), host_by(op[2]), static_cast<uint64_t>(op[3].get<double>()));
    result = nullptr;
    return true;
  }
  if (o == "sendto_async") {
    auto comm = sg4::Comm::sendto_init(host_by(op[1]), host_by(op[2]));
    comm->set_name(c.name + "#" + std::to_string(idx));
    comm->set_payload_size(static_cast<uint64_t>(op[3].get<double>()));
    comm->start();
    Handle& h = handle(op[4].get<int>());
    h.act     = comm;
    h.kind    = "comm_send";
    result    = nullptr;
    return true;
  }
  if (o == "speed_info") {
    auto* h = host_by(op[1]);
    result  = simgrid::kernel::actor::simcall_answered([h]() {
      return json{{"speed", hx(h->get_speed())}, {"avail", hx(h->get_available_speed())}, {"on", h->is_on()}, {"pstate", h->get_pstate()}};
    });
    return true;
  }
  if (o == "is_on") {
    if (op[1].get<std::string>() == "host") {
      auto* h = host_by(op[2]);
      result  = simgrid::kernel::actor::simcall_answered([h]() { return h->is_on(); });
    } else {
      auto* l = sg4::Link::by_name(op[2].get<std::string>());
      result  = simgrid::kernel::actor::simcall_answered([l]() { return l->is_on(); });
    }
    return true;
  }
  if (o == "pstate_speed") {
    result = hx(host_by(op[1])->get_pstate_speed(op[2].get<int>()));
    return true;
  }
  if (o == "watts") {
    auto* h = host_by(op[1]);
    result  = simgrid::kernel::actor::simcall_answered([h]() {
      int p = static_cast<int>(h->get_pstate());
      return json{{"pstate", p},
                  {"idle", hx(sg_host_get_idle_consumption_at(h, p))},
                  {"epsilon", hx(sg_host_get_wattmin_at(h, p))},
                  {"max", hx(sg_host_get_wattmax_at(h, p))},
                  {"now", hx(sg_host_get_current_consumption(h))}};
    });
    return true;
  }
  return false;
}

static ExtRegister fault_reg(fault_ops, nullptr);

} // namespace vf
