/* mpi_ops_group.cpp: group and communicator management operations of mpi_interp (C32). */
#include "mpi_interp.hpp"

using namespace mpii;

static constexpr int CANARY = -777777;

static void describe_group(Rank& R, MPI_Group g, json& o)
{
  /* members of g as world ranks (observed through MPI_Group_size + MPI_Group_translate_ranks to the world group) */
  if (g == MPI_GROUP_NULL) {
    o["gnull"] = true;
    return;
  }
  int n = CANARY;
  MPI_Group_size(g, &n);
  o["size"] = n;
  int me    = CANARY;
  MPI_Group_rank(g, &me);
  o["me"] = me;
  if (n >= 0 && n <= 100000) {
    std::vector<int> in(n), out(n + 1, CANARY);
    for (int i = 0; i < n; i++)
      in[i] = i;
    MPI_Group wg = R.groups.at("world");
    int rc = MPI_Group_translate_ranks(g, n, ptr(in), wg, out.data());
    out.resize(n);
    o["members"]    = out;
    o["members_rc"] = rc;
  }
}

static void store_group(Rank& R, const json& a, MPI_Group g, json& o)
{
  R.groups[a.at("out").get<std::string>()] = g;
  o["is_empty_handle"]                      = g == MPI_GROUP_EMPTY;
  if (int rc = o.at("rc").get<int>(); rc == MPI_SUCCESS)
    describe_group(R, g, o);
}

static void need_world_group(Rank& R)
{
  if (R.groups.find("world") == R.groups.end()) {
    MPI_Group wg = MPI_GROUP_NULL;
    MPI_Comm_group(MPI_COMM_WORLD, &wg);
    R.groups["world"] = wg;
  }
}

/* {"op":"comm_group","comm":c,"out":g} */
MPI_OPERATION(comm_group)
{
  need_world_group(R);
  MPI_Group g = MPI_GROUP_NULL;
  o["rc"]     = MPI_Comm_group(R.comm(a), &g);
  store_group(R, a, g, o);
}

/* {"op":"group_incl"/"group_excl","group":g,"ranks":[..],"out":name} */
MPI_OPERATION(group_incl)
{
  need_world_group(R);
  auto ranks  = ints(a, "ranks");
  MPI_Group g = MPI_GROUP_NULL;
  o["rc"]     = MPI_Group_incl(R.group(a), static_cast<int>(ranks.size()), ptr(ranks), &g);
  store_group(R, a, g, o);
}
MPI_OPERATION(group_excl)
{
  need_world_group(R);
  auto ranks  = ints(a, "ranks");
  MPI_Group g = MPI_GROUP_NULL;
  o["rc"]     = MPI_Group_excl(R.group(a), static_cast<int>(ranks.size()), ptr(ranks), &g);
  store_group(R, a, g, o);
}

static std::vector<int> flat_ranges(const json& a)
{
  std::vector<int> f;
  for (auto const& r : a.at("ranges"))
    for (int k = 0; k < 3; k++)
      f.push_back(r.at(k).get<int>());
  return f;
}

/* {"op":"group_range_incl"/"group_range_excl","group":g,"ranges":[[first,last,stride]..],"out":name} */
MPI_OPERATION(group_range_incl)
{
  need_world_group(R);
  auto f      = flat_ranges(a);
  MPI_Group g = MPI_GROUP_NULL;
  o["rc"]     = MPI_Group_range_incl(R.group(a), static_cast<int>(f.size() / 3), reinterpret_cast<int(*)[3]>(ptr(f)), &g);
  store_group(R, a, g, o);
}
MPI_OPERATION(group_range_excl)
{
  need_world_group(R);
  auto f      = flat_ranges(a);
  MPI_Group g = MPI_GROUP_NULL;
  o["rc"]     = MPI_Group_range_excl(R.group(a), static_cast<int>(f.size() / 3), reinterpret_cast<int(*)[3]>(ptr(f)), &g);
  store_group(R, a, g, o);
}

/* {"op":"group_union"/"group_intersection"/"group_difference","g1":a,"g2":b,"out":name} */
MPI_OPERATION(group_union)
{
  need_world_group(R);
  MPI_Group g = MPI_GROUP_NULL;
  o["rc"]     = MPI_Group_union(R.group(a, "g1"), R.group(a, "g2"), &g);
  store_group(R, a, g, o);
}
MPI_OPERATION(group_intersection)
{
  need_world_group(R);
  MPI_Group g = MPI_GROUP_NULL;
  o["rc"]     = MPI_Group_intersection(R.group(a, "g1"), R.group(a, "g2"), &g);
  store_group(R, a, g, o);
}
MPI_OPERATION(group_difference)
{
  need_world_group(R);
  MPI_Group g = MPI_GROUP_NULL;
  o["rc"]     = MPI_Group_difference(R.group(a, "g1"), R.group(a, "g2"), &g);
  store_group(R, a, g, o);
}

/* {"op":"group_translate","g1":a,"ranks":[..],"g2":b} -> "res" */
MPI_OPERATION(group_translate)
{
  auto ranks = ints(a, "ranks");
  std::vector<int> out(ranks.size() + 1, CANARY);
  o["rc"] = MPI_Group_translate_ranks(R.group(a, "g1"), static_cast<int>(ranks.size()), ptr(ranks), R.group(a, "g2"), out.data());
  out.resize(ranks.size());
  o["res"] = out;
}

/* {"op":"group_compare","g1":a,"g2":b} -> "res" */
MPI_OPERATION(group_compare)
{
  int res  = CANARY;
  o["rc"]  = MPI_Group_compare(R.group(a, "g1"), R.group(a, "g2"), &res);
  o["res"] = res;
}

/* {"op":"group_info","group":g} -> size, me (MPI_Group_rank), members */
MPI_OPERATION(group_info)
{
  need_world_group(R);
  MPI_Group g = R.group(a);
  int n = CANARY, me = CANARY;
  o["rc"]      = MPI_Group_size(g, &n);
  o["rank_rc"] = MPI_Group_rank(g, &me);
  describe_group(R, g, o);
}

MPI_OPERATION(group_free)
{
  MPI_Group& g    = Rank::find(R.groups, a.at("group").get<std::string>(), "group");
  o["rc"]         = MPI_Group_free(&g);
  o["null_after"] = g == MPI_GROUP_NULL;
}

/* ---- communicators ---- */
static void store_comm(Rank& R, const json& a, MPI_Comm c, json& o)
{
  need_world_group(R);
  R.comms[a.at("out").get<std::string>()] = c;
  o["null"]                                = c == MPI_COMM_NULL;
  if (c != MPI_COMM_NULL && o.at("rc").get<int>() == MPI_SUCCESS) {
    int r = CANARY, s = CANARY;
    MPI_Comm_rank(c, &r);
    MPI_Comm_size(c, &s);
    o["rank"] = r;
    o["csize"] = s;
    MPI_Group g = MPI_GROUP_NULL;
    MPI_Comm_group(c, &g);
    describe_group(R, g, o);
    MPI_Group_free(&g);
  }
}

/* {"op":"comm_split","comm":c,"color":k,"key":k,"out":name}  (color null = MPI_UNDEFINED) */
MPI_OPERATION(comm_split)
{
  int color   = a.at("color").is_null() ? MPI_UNDEFINED : a.at("color").get<int>();
  MPI_Comm nc = MPI_COMM_NULL;
  o["rc"]     = MPI_Comm_split(R.comm(a), color, a.at("key").get<int>(), &nc);
  store_comm(R, a, nc, o);
}
MPI_OPERATION(comm_dup)
{
  MPI_Comm nc = MPI_COMM_NULL;
  o["rc"]     = MPI_Comm_dup(R.comm(a), &nc);
  store_comm(R, a, nc, o);
}
/* {"op":"comm_create","comm":c,"group":g,"out":name} */
MPI_OPERATION(comm_create)
{
  MPI_Comm nc = MPI_COMM_NULL;
  o["rc"]     = MPI_Comm_create(R.comm(a), R.group(a), &nc);
  store_comm(R, a, nc, o);
}
/* {"op":"comm_create_group","comm":c,"group":g,"tag":t,"out":name}: only the members of g call it */
MPI_OPERATION(comm_create_group)
{
  MPI_Comm nc = MPI_COMM_NULL;
  o["rc"]     = MPI_Comm_create_group(R.comm(a), R.group(a), a.value("tag", 0), &nc);
  store_comm(R, a, nc, o);
}
MPI_OPERATION(comm_compare)
{
  int res  = CANARY;
  o["rc"]  = MPI_Comm_compare(R.comm(a, "c1"), R.comm(a, "c2"), &res);
  o["res"] = res;
}
MPI_OPERATION(comm_info)
{
  MPI_Comm c = R.comm(a);
  int r = CANARY, s = CANARY;
  o["rc"]      = MPI_Comm_rank(c, &r);
  o["size_rc"] = MPI_Comm_size(c, &s);
  o["rank"]    = r;
  o["csize"]   = s;
}
MPI_OPERATION(comm_free)
{
  MPI_Comm& c     = Rank::find(R.comms, a.at("comm").get<std::string>(), "comm");
  o["rc"]         = MPI_Comm_free(&c);
  o["null_after"] = c == MPI_COMM_NULL;
}
