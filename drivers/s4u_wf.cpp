// vf-driver: kind=cxx
/* s4u_wf: the S4U scenario interpreter (s4u_core.hpp, see notes/S4U_INTERP.md) built as a driver of its own for C46 / C13 / C47
 * (builder "wf").  Same program as s4u_interp (plain runs only); the extension header is included explicitly so that ninja and
 * ccache see the dependency (see s4u_time.cpp for the story).
 *
 *   s4u_wf <scenario.json|->            plain run (one process)
 *   s4u_wf --serve <errfile>            fork server (see forkserver.hpp): one scenario per request line
 *
 * Additional scenario keys handled here: "args": ["--cfg=...", ...] extra command-line arguments given to the Engine constructor
 * (tracing options must be known when the engine is created).
 */
#include "s4u_core.hpp"

#include "s4u_ext_wf.hpp" // explicit on purpose; the header has an include guard

#include "forkserver.hpp"

static int run_case(const std::string& text)
{
  json sc = json::parse(text);
  std::vector<std::string> args = {"s4u_wf", "--log=root.fmt:[%10.6r]%e[%a]%e%m%n", "--log=no_loc"};
  if (sc.contains("log"))
    for (auto const& l : sc["log"])
      args.push_back("--log=" + l.get<std::string>());
  if (sc.contains("args"))
    for (auto const& l : sc["args"])
      args.push_back(l.get<std::string>());
  std::vector<char*> argv;
  for (auto& a : args)
    argv.push_back(a.data());
  argv.push_back(nullptr);
  int argc = static_cast<int>(args.size());
  setvbuf(stdout, nullptr, _IOLBF, 0);
  sg4::Engine e(&argc, argv.data());
  vf::setup(e, sc, false);
  if (sc.contains("main")) { // C13: the main thread builds (part of) the workflow, and may schedule at every veto
    const json& m = sc["main"];
    std::set<sg4::Activity*> vetoed;
    bool loop = m.value("veto_loop", false);
    if (loop)
      e.track_vetoed_activities(&vetoed);
    vf::wf_main_ops(m["ops"]);
    if (not loop)
      e.run();
    // with the veto loop, the vetoes of the build phase are handled before the first run (Engine::run only looks at the set after a time advance)
    int rounds = 0;
    bool first = loop;
    while (loop && (first || not vetoed.empty()) && rounds++ < 10000) {
      first = false;
      std::vector<sg4::Activity*> todo(vetoed.begin(), vetoed.end());
      std::sort(todo.begin(), todo.end(), [](auto* a, auto* b) { return a->get_name() < b->get_name(); });
      vetoed.clear();
      for (auto* a : todo) {
        bool had = m.contains("on_veto") && m["on_veto"].contains(a->get_name()) && not a->is_assigned();
        json j   = {{"k", "veto_seen"}, {"name", a->get_name()}, {"t", vf::hx(sg4::Engine::get_clock())}, {"assign", had}};
        vf::emit(j);
        if (had)
          vf::wf_assign(a, m["on_veto"][a->get_name()]);
      }
      e.run();
    }
  } else if (sc.contains("horizon"))
    e.run_until(sc["horizon"].get<double>());
  else
    e.run();
  json j = {{"k", "done"}, {"t", vf::hx(sg4::Engine::get_clock())}, {"ext", vf::wf_ext_version}};
  vf::emit(j);
  return 0;
}

int main(int argc, char** argv)
{
  return vf_main(argc, argv, run_case);
}
