// vf-driver: kind=cxx
/* s4u_interp: runs one S4U scenario (see s4u_core.hpp and /verif/notes/S4U_INTERP.md) and prints its observation log.
 *
 *   s4u_interp <scenario.json|->            plain run (one process)
 *   s4u_interp --serve <errfile>            fork server (see forkserver.hpp): one scenario per request line
 *   simgrid-mc s4u_interp --mc <scenario.json> [--cfg=...]   application for the model checker: no log, one OUTCOME line
 */
#include "s4u_core.hpp"

#include "forkserver.hpp"

static std::vector<std::string> extra_args;

static int run_case(const std::string& text)
{
  json sc = json::parse(text);
  std::vector<std::string> args = {"s4u_interp", "--log=root.fmt:[%10.6r]%e[%a]%e%m%n", "--log=no_loc"};
  if (sc.contains("log"))
    for (auto const& l : sc["log"])
      args.push_back("--log=" + l.get<std::string>());
  std::vector<char*> argv;
  for (auto& a : args)
    argv.push_back(a.data());
  argv.push_back(nullptr);
  int argc = static_cast<int>(args.size());
  setvbuf(stdout, nullptr, _IOLBF, 0);
  if (sc.contains("pad")) { // shift the heap (addresses and hash values of everything allocated later) by a case-chosen amount
    long pad       = sc["pad"].get<long>();
    static void* a = malloc(pad);
    static std::vector<void*> small;
    for (long i = 0; i < pad % 97; i++)
      small.push_back(malloc(24 + 8 * (i % 5)));
    if (a != nullptr)
      memset(a, 1, pad);
  }
  sg4::Engine e(&argc, argv.data());
  vf::setup(e, sc, false);
  if (sc.contains("horizon"))
    e.run_until(sc["horizon"].get<double>());
  else
    e.run();
  json j = {{"k", "done"}, {"t", vf::hx(sg4::Engine::get_clock())}};
  vf::emit(j);
  return 0;
}

int main(int argc, char** argv)
{
  if (argc >= 3 && strcmp(argv[1], "--mc") == 0) {
    std::ifstream in(argv[2]);
    json sc = json::parse(in);
    // simgrid-mc passes its own --cfg arguments after ours: hand them to the engine
    std::vector<char*> av = {argv[0]};
    for (int i = 3; i < argc; i++)
      av.push_back(argv[i]);
    av.push_back(nullptr);
    int ac = static_cast<int>(av.size()) - 1;
    sg4::Engine e(&ac, av.data());
    vf::setup(e, sc, true);
    e.run();
    return 0;
  }
  return vf_main(argc, argv, run_case);
}
