/* c36_vars_b.cpp: second translation unit of globals for C36 (see c36_vars.hpp).
 *  id 10 b_init          long, initialised
 *  id 11 b_bss           char, zero
 *  id 12 b_static        static short, initialised
 *  id 13 function-local static int (initialised 7)
 *  id 14 member of a global object with a constructor (dynamic initialisation, inline storage): 31
 *  id 15 b_big_data[C36_N_DATA - 1]   int[70000] initialised (280 kB of .data), last element
 *  id 16 static data member of a class: 41
 *  id 17 variable in an anonymous namespace: 43
 *  id 18 *b_ptr, a global pointer initialised with the address of another global (b_target = 47)
 *  id 19 c36_bcast_var   long long, zero: written by MPI_Bcast (the receive buffer IS the global)
 */
#include "c36_vars.hpp"

long b_init = 17;
char b_bss;
static short b_static = 19;
static int& b_local()
{
  static int v = 7;
  return v;
}
struct WithCtor {
  int x;
  int y;
  WithCtor(int a) : x(a + 1), y(a + 2) {}
};
static int thirty() { return 30; }
WithCtor b_obj(thirty());
int b_big_data[C36_N_DATA] = {1, 2, 3};
static int b_mid_bss[C36_N_MID];
static long* b_fs()
{
  static long fs_arr[C36_N_FS];
  return fs_arr;
}
struct Counter {
  static int count;
};
int Counter::count = 41;
namespace {
int b_anon = 43;
}
int b_target = 47;
int* b_ptr   = &b_target;
long long c36_bcast_var;
static int b_rbuf[C36_NBUF];
int* c36_rbuf() { return b_rbuf; }

long long c36_get_b(int id)
{
  switch (id) {
    case 10: return b_init;
    case 11: return b_bss;
    case 12: return b_static;
    case 13: return b_local();
    case 14: return b_obj.x;
    case 15: return b_big_data[C36_N_DATA - 1];
    case 16: return Counter::count;
    case 17: return b_anon;
    case 18: return *b_ptr;
    case 19: return c36_bcast_var;
    default: return -999;
  }
}

void c36_set_b(int id, long long v)
{
  switch (id) {
    case 10: b_init = static_cast<long>(v); break;
    case 11: b_bss = static_cast<char>(v); break;
    case 12: b_static = static_cast<short>(v); break;
    case 13: b_local() = static_cast<int>(v); break;
    case 14: b_obj.x = static_cast<int>(v); break;
    case 15: b_big_data[C36_N_DATA - 1] = static_cast<int>(v); break;
    case 16: Counter::count = static_cast<int>(v); break;
    case 17: b_anon = static_cast<int>(v); break;
    case 18: *b_ptr = static_cast<int>(v); break;
    case 19: c36_bcast_var = v; break;
    default: break;
  }
}

long long c36_aget_b(int arr, long idx)
{
  return arr == 2 ? b_mid_bss[idx] : arr == 3 ? b_fs()[idx] : b_big_data[idx];
}

void c36_aset_b(int arr, long idx, long long v)
{
  if (arr == 2)
    b_mid_bss[idx] = static_cast<int>(v);
  else if (arr == 3)
    b_fs()[idx] = static_cast<long>(v);
  else
    b_big_data[idx] = static_cast<int>(v);
}
