/* s4u_ext_wf.hpp: operations and records added for C46 (file system plugin), C13 (workflows) and C47 (tracing).
 * Owner: builder "wf".  Documented in notes/C46.md, notes/C13.md, notes/C47.md.
 *
 * ---- C46: files (scenario "plugins": ["file_system"]; disks carry the props "size", "mount", "content")
 *   ["f_open", fid, fullpath, {"api":"c"}]   File::open / sg_file_open on the actor's host; fid = integer handle chosen by the scenario
 *   ["f_write", fid, n, inside?, {"api":"c"}] File::write(n, inside) / sg_file_write
 *   ["f_read", fid, n, {"api":"c"}]          File::read / sg_file_read
 *   ["f_seek", fid, offset, "SET"|"CUR"|"END"|"ABS", {"api":"c"}]   seek(offset, origin); "ABS" = the one-argument File::seek(offset)
 *   ["f_tell", fid] ["f_size", fid]
 *   ["f_move", fid, fullpath, {"api":"c"}]
 *   ["f_unlink", fid]                        File::unlink() (the handle stays open); ["f_unlink_close", fid] = sg_file_unlink (unlink + close)
 *   ["f_close", fid, {"api":"c"}]
 *   ["fs_state"]                             snapshot only
 * Every result is {"ret": value returned by the call (or null), "f": {"size","pos","path"} of the handle when it is still open,
 *  "disks": {disk: {"used","free","size","mount","content":{path:size}}}} (the disk part is read inside one simcall).
 *
 * ---- C13: workflows.  `a` below = integer handle (shared with the core's handle table: "wait", "test", "act_info" work) or the NAME of
 *      an activity (loaded DAGs).  Activities created here are named "n<handle>".  All these operations may also be run from the main
 *      thread before the simulation starts: scenario key "main": {"ops": [...], "veto_loop": bool, "on_veto": {name: assignment}}
 *      (handled by drivers/s4u_wf.cpp: with "veto_loop" the engine tracks vetoed activities (Engine::track_vetoed_activities), run()
 *      returns at every veto, the main thread applies the "on_veto" assignment of each vetoed activity (record "veto_assign") and runs again,
 *      like examples/cpp/dag-scheduling).
 *   ["wf_exec", h, flops, {"host": name, "via": "init"|"exec_init"}]   Exec::init()->set_flops_amount | this_actor::exec_init(flops)
 *   ["wf_comm", h, bytes, {"src": host, "dst": host}]                   Comm::sendto_init()->set_payload_size
 *   ["wf_io", h, bytes, "read"|"write", {"disk": name}]                 Io::init()->set_size()->set_op_type()
 *   ["wf_dep", a_pred, a_succ]                                          add_successor
 *   ["wf_start", a]                                                     Activity::start() (vetoed unless assigned and dependencies solved)
 *   ["wf_assign", a, {"host"|"src"|"dst"|"disk": name}]                 set_host / set_source / set_destination / set_disk (keys applied in the order host, src, dst, disk)
 *   ["wf_info", a]                                                      {"state","assigned","deps_solved","preds":[names],"succs":[names]}
 *   ["wf_wait_each", [a...]]                                            ActivitySet of these activities, wait_any until it is empty; result [[name, date]...]
 *   ["wf_load", "json"|"dax", file]                                     create_DAG_from_json / _DAX; result: [{"name","kind","amount","state","assigned","preds","succs","host"|"src","dst"}] in the loader's order
 * Scenario key "wf": {} enables the veto records; "wf": {"veto_cb": {name: assignment}} assigns from the on_veto callback once the
 * dependencies of the activity are solved.
 * Records: {"k":"veto","type","name","t","assigned","deps_solved"} from the on_veto signals; act_start / act_end come from the core.
 */
#pragma once
#include "simgrid/instr.h"
#include "simgrid/plugins/file_system.h"
#include "simgrid/s4u/Disk.hpp"

namespace vf {

static const char* const wf_ext_version = "wf-ext-v3";

static std::map<int, sg4::File*>& wf_files()
{
  static std::map<int, sg4::File*> m;
  return m;
}

static json wf_disks_snapshot()
{
  return simgrid::kernel::actor::simcall_answered([]() {
    json res = json::object();
    for (auto* h : sg4::Engine::get_instance()->get_all_hosts())
      for (auto* d : h->get_disks()) {
        if (d->get_host() != h)
          continue; // a remote disk is reported with its owner
        auto* ext = d->extension<sg4::FileSystemDiskExt>();
        json c    = json::object();
        if (ext->get_content() != nullptr)
          for (auto const& [p, s] : *ext->get_content())
            c[p] = s;
        res[d->get_name()] = {{"used", sg_disk_get_size_used(d)}, {"free", sg_disk_get_size_free(d)}, {"size", sg_disk_get_size(d)},
                              {"mount", std::string(sg_disk_get_mount_point(d))}, {"content", c}};
      }
    return res;
  });
}

static json wf_file_result(const json& ret, int fid)
{
  json r   = {{"ret", ret}};
  auto it  = wf_files().find(fid);
  if (it != wf_files().end() && it->second != nullptr)
    r["f"] = {{"size", it->second->size()}, {"pos", it->second->tell()}, {"path", std::string(it->second->get_path())}};
  r["disks"] = wf_disks_snapshot();
  return r;
}

static bool wf_file_ops(Ctx&, int, const json& op, json& result)
{
  const std::string o = op[0].get<std::string>();
  if (o.rfind("f_", 0) != 0 && o != "fs_state")
    return false;
  if (o == "fs_state") {
    result = {{"ret", nullptr}, {"disks", wf_disks_snapshot()}};
    return true;
  }
  int fid   = op[1].get<int>();
  bool capi = false;
  for (size_t k = 2; k < op.size(); k++)
    if (op[k].is_object() && op[k].value("api", "") == "c")
      capi = true;
  if (o == "f_open") {
    std::string path = op[2].get<std::string>();
    wf_files()[fid]  = capi ? sg_file_open(path.c_str(), nullptr) : sg4::File::open(path, nullptr);
    result           = wf_file_result(nullptr, fid);
    return true;
  }
  auto it = wf_files().find(fid);
  if (it == wf_files().end() || it->second == nullptr) { // a shrunk history may use a handle that is not open (any more)
    result = "no-handle";
    return true;
  }
  sg4::File* f = it->second;
  if (o == "f_write") {
    sg_size_t n = op[2].get<sg_size_t>();
    bool inside = op.size() > 3 && op[3].is_boolean() && op[3].get<bool>();
    sg_size_t w = capi ? sg_file_write(f, n) : f->write(n, inside);
    result      = wf_file_result(w, fid);
  } else if (o == "f_read") {
    sg_size_t n = op[2].get<sg_size_t>();
    sg_size_t r = capi ? sg_file_read(f, n) : f->read(n);
    result      = wf_file_result(r, fid);
  } else if (o == "f_seek") {
    sg_offset_t off = op[2].get<sg_offset_t>();
    std::string org = op[3].get<std::string>();
    int origin      = org == "SET" ? SEEK_SET : org == "CUR" ? SEEK_CUR : SEEK_END;
    if (org == "ABS")
      f->seek(off);
    else if (capi)
      sg_file_seek(f, off, origin);
    else
      f->seek(off, origin);
    result = wf_file_result(nullptr, fid);
  } else if (o == "f_tell") {
    result = wf_file_result(capi ? sg_file_tell(f) : f->tell(), fid);
  } else if (o == "f_size") {
    result = wf_file_result(capi ? sg_file_get_size(f) : f->size(), fid);
  } else if (o == "f_move") {
    std::string path = op[2].get<std::string>();
    if (capi)
      sg_file_move(f, path.c_str());
    else
      f->move(path);
    result = wf_file_result(nullptr, fid);
  } else if (o == "f_unlink") {
    int r  = f->unlink();
    result = wf_file_result(r, fid);
  } else if (o == "f_unlink_close") {
    sg_file_unlink(f);
    wf_files().erase(fid);
    result = wf_file_result(nullptr, fid);
  } else if (o == "f_close") {
    if (capi)
      sg_file_close(f);
    else
      f->close();
    wf_files().erase(fid);
    result = wf_file_result(nullptr, fid);
  } else
    return false;
  return true;
}

static ExtRegister wf_file_reg(wf_file_ops);

/* ------------------------------------------------------------------------------------------------ C13: workflows */
static std::map<std::string, sg4::ActivityPtr>& wf_named()
{
  static std::map<std::string, sg4::ActivityPtr> m;
  return m;
}

static sg4::ActivityPtr wf_act(const json& a)
{
  if (a.is_string()) {
    auto it = wf_named().find(a.get<std::string>());
    if (it == wf_named().end()) // (a loader that did not create what the file describes: reported by the oracle from the wf_load result)
      throw std::invalid_argument("no activity named " + a.get<std::string>());
    return it->second;
  }
  return handle(a.get<int>()).act;
}

static const char* wf_kind(sg4::Activity* a)
{
  if (dynamic_cast<sg4::Exec*>(a))
    return "exec";
  if (dynamic_cast<sg4::Comm*>(a))
    return "comm";
  if (dynamic_cast<sg4::Io*>(a))
    return "io";
  return "other";
}

static json wf_describe(sg4::Activity* a)
{
  json j = {{"name", a->get_name()}, {"kind", wf_kind(a)}, {"state", a->get_state_str()}, {"assigned", a->is_assigned()},
            {"deps_solved", a->dependencies_solved()}, {"amount", hx(a->get_remaining())}};
  json preds = json::array();
  for (auto const& p : a->get_dependencies())
    preds.push_back(p->get_name());
  std::sort(preds.begin(), preds.end());
  json succs = json::array();
  for (auto const& p : a->get_successors())
    succs.push_back(p->get_name());
  j["preds"] = preds;
  j["succs"] = succs;
  if (auto* e = dynamic_cast<sg4::Exec*>(a))
    j["host"] = e->is_assigned() && e->get_host() ? e->get_host()->get_name() : "";
  if (auto* c = dynamic_cast<sg4::Comm*>(a)) {
    j["src"] = c->get_source() ? c->get_source()->get_name() : "";
    j["dst"] = c->get_destination() ? c->get_destination()->get_name() : "";
  }
  return j;
}

static void wf_assign(sg4::Activity* a, const json& how)
{
  if (how.contains("host"))
    dynamic_cast<sg4::Exec&>(*a).set_host(host_by(how["host"]));
  if (how.contains("src"))
    dynamic_cast<sg4::Comm&>(*a).set_source(host_by(how["src"]));
  if (how.contains("dst"))
    dynamic_cast<sg4::Comm&>(*a).set_destination(host_by(how["dst"]));
  if (how.contains("disk"))
    dynamic_cast<sg4::Io&>(*a).set_disk(disk_by(how["disk"].get<std::string>()));
}

static bool wf_dag_ops(Ctx&, int, const json& op, json& result)
{
  const std::string o = op[0].get<std::string>();
  if (o.rfind("wf_", 0) != 0)
    return false;
  result = nullptr;
  if (o == "wf_exec" || o == "wf_comm" || o == "wf_io") {
    int hid   = op[1].get<int>();
    json opts = op.back().is_object() ? op.back() : json::object();
    sg4::ActivityPtr act;
    std::string kind;
    if (o == "wf_exec") {
      sg4::ExecPtr e;
      if (opts.value("via", "init") == "exec_init")
        e = sg4::this_actor::exec_init(op[2].get<double>());
      else
        e = sg4::Exec::init()->set_flops_amount(op[2].get<double>());
      act  = e;
      kind = "exec";
    } else if (o == "wf_comm") {
      act  = sg4::Comm::sendto_init()->set_payload_size(static_cast<uint64_t>(op[2].get<double>()));
      kind = "comm_wf";
    } else {
      act  = sg4::Io::init()
                ->set_size(static_cast<sg_size_t>(op[2].get<double>()))
                ->set_op_type(op[3].get<std::string>() == "read" ? sg4::Io::OpType::READ : sg4::Io::OpType::WRITE);
      kind = "io";
    }
    std::string name = "n" + std::to_string(hid);
    if (auto* e = dynamic_cast<sg4::Exec*>(act.get()))
      e->set_name(name);
    if (auto* c = dynamic_cast<sg4::Comm*>(act.get()))
      c->set_name(name);
    if (auto* i = dynamic_cast<sg4::Io*>(act.get()))
      i->set_name(name);
    Handle& h       = handle(hid);
    h.act           = act;
    h.kind          = kind;
    wf_named()[name] = act;
    wf_assign(act.get(), opts);
    return true;
  }
  if (o == "wf_dep") {
    wf_act(op[1])->add_successor(wf_act(op[2]));
    return true;
  }
  if (o == "wf_start") {
    wf_act(op[1])->start();
    return true;
  }
  if (o == "wf_assign") {
    wf_assign(wf_act(op[1]).get(), op[2]);
    return true;
  }
  if (o == "wf_info") {
    result = wf_describe(wf_act(op[1]).get());
    return true;
  }
  if (o == "wf_wait_each") { // ["wf_wait_each", [h...]]: ActivitySet + wait_any until the set is empty (the pattern of examples/cpp/exec-dependent)
    sg4::ActivitySet set;
    for (auto const& hh : op[1])
      set.push(wf_act(hh));
    result = json::array();
    while (not set.empty()) {
      auto a = set.wait_any();
      result.push_back({a->get_name(), hx(now())});
    }
    return true;
  }
  if (o == "wf_load") {
    std::vector<sg4::ActivityPtr> dag = op[1].get<std::string>() == "json" ? sg4::create_DAG_from_json(op[2].get<std::string>())
                                                                          : sg4::create_DAG_from_DAX(op[2].get<std::string>());
    result = json::array();
    for (auto const& a : dag) {
      wf_named()[a->get_name()] = a;
      result.push_back(wf_describe(a.get()));
    }
    return true;
  }
  return false;
}

template <class A> static void wf_veto_record(const char* type, A& a)
{
  json j = {{"k", "veto"}, {"type", type}, {"name", a.get_name()}, {"t", hx(now())}, {"assigned", a.is_assigned()},
            {"deps_solved", a.dependencies_solved()}};
  emit(j);
  // scenario "wf": {"veto_cb": {name: assignment}}: schedule from the callback once the dependencies are solved (examples/cpp/exec-dependent)
  const json& wf = S->scenario["wf"];
  static std::set<std::string> busy; // Comm::set_source vetoes again (the destination is still missing): do not re-enter
  if (wf.is_object() && wf.contains("veto_cb") && wf["veto_cb"].contains(a.get_name()) && a.dependencies_solved() && not a.is_assigned() &&
      busy.insert(a.get_name()).second) {
    wf_assign(&a, wf["veto_cb"][a.get_name()]);
    busy.erase(a.get_name());
  }
}

static void wf_dag_setup()
{
  if (S->mc_mode || not S->scenario.contains("wf"))
    return;
  sg4::Exec::on_veto_cb([](sg4::Exec& a) { wf_veto_record("exec", a); });
  sg4::Comm::on_veto_cb([](sg4::Comm& a) { wf_veto_record("comm", a); });
  sg4::Io::on_veto_cb([](sg4::Io& a) { wf_veto_record("io", a); });
}

static ExtRegister wf_dag_reg(wf_dag_ops, wf_dag_setup);

/* ------------------------------------------------------------------------------------------------ C47: tracing
 * scenario "trace": {"categories": [names]} declares tracing categories (simgrid::instr::declare_tracing_category);
 *   ["cat_exec", flops, category]    exec_init + set_tracing_category + start + wait
 *   ["cat_put", mb, size, category]  put_init + set_tracing_category + start + wait (blocking send)
 *   ["mark", type, value]            simgrid::instr::declare_mark / declare_mark_value (first use) + mark
 *   ["host_var", host, variable, "set"|"add"|"sub", value]   user variables of a host (declared at first use) */
static bool wf_trace_ops(Ctx& c, int idx, const json& op, json& result)
{
  const std::string o = op[0].get<std::string>();
  result              = nullptr;
  if (o == "cat_exec") {
    auto ex = sg4::this_actor::exec_init(op[1].get<double>());
    ex->set_name(c.name + "#" + std::to_string(idx));
    ex->set_tracing_category(op[2].get<std::string>());
    ex->start()->wait();
    return true;
  }
  if (o == "cat_put") {
    auto* p   = make_payload(c, op[2].get<double>(), 0);
    auto comm = S->mailboxes[op[1].get<int>()]->put_init(p, static_cast<uint64_t>(op[2].get<double>()));
    comm->set_name(c.name + "#" + std::to_string(idx));
    comm->set_tracing_category(op[3].get<std::string>());
    comm->start()->wait();
    return true;
  }
  if (o == "mark") {
    static std::set<std::string> types, vals;
    std::string t = op[1].get<std::string>(), v = op[2].get<std::string>();
    if (types.insert(t).second)
      simgrid::instr::declare_mark(t);
    if (vals.insert(t + "/" + v).second)
      simgrid::instr::declare_mark_value(t, v);
    simgrid::instr::mark(t, v);
    return true;
  }
  if (o == "host_var") {
    static std::set<std::string> vars;
    std::string h = op[1].get<std::string>(), v = op[2].get<std::string>(), how = op[3].get<std::string>();
    if (vars.insert(v).second)
      simgrid::instr::declare_host_variable(v);
    if (how == "set")
      simgrid::instr::set_host_variable(h, v, op[4].get<double>());
    else if (how == "add")
      simgrid::instr::add_host_variable(h, v, op[4].get<double>());
    else
      simgrid::instr::sub_host_variable(h, v, op[4].get<double>());
    return true;
  }
  return false;
}

static void wf_trace_setup()
{
  if (S->scenario.contains("trace") && S->scenario["trace"].contains("categories"))
    for (auto const& cat : S->scenario["trace"]["categories"])
      simgrid::instr::declare_tracing_category(cat.get<std::string>());
}

static ExtRegister wf_trace_reg(wf_trace_ops, wf_trace_setup);

/* run by drivers/s4u_wf.cpp: the operations of the main thread (before Engine::run) */
static void wf_main_ops(const json& ops)
{
  Ctx c;
  c.name  = "main";
  c.ops   = &ops;
  int idx = 0;
  for (auto const& op : ops) {
    json j = {{"k", "req"}, {"a", "main"}, {"i", idx}, {"op", op}, {"t", hx(now())}};
    emit(j);
    try {
      json r = do_op(c, idx, op);
      log_ret(c, idx, r);
    } catch (const std::invalid_argument& e) {
      log_exc(c, idx, std::string("invalid_argument:") + e.what());
    }
    idx++;
  }
}

} // namespace vf
