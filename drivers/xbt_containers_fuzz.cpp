// vf-driver: kind=fuzz flags=-I$${VF_REPO:-/repo}/include -I$${VF_REPO:-/repo}/src -I$${VF_REPO:-/repo} -I$${VF_BUILD:-/verif/build}/sg/include -I$${VF_BUILD:-/verif/build}/sg -Wno-deprecated -Wno-unused-value libs=-L$${VF_BUILD:-/verif/build}/sg/lib -Wl,-rpath,$${VF_BUILD:-/verif/build}/sg/lib -lsimgrid
/* xbt_containers_fuzz (C50, thorough tier): libFuzzer + ASan + UBSan target.  The sources of xbt_dynar and xbt_dict are
 * compiled INTO this binary (so that they are instrumented); logging, mallocators and string helpers come from libsimgrid.
 * The input bytes are decoded into a history of operations; std::vector / std::map are the models; any disagreement calls
 * abort() (reported by libFuzzer as a crash, with the input saved).  Keys never contain NUL bytes (the binary-key class is
 * covered by the Hypothesis check, where a known defect lives).
 *
 *   xbt_containers_fuzz -runs=N -seed=S -max_len=L -artifact_prefix=DIR/      fuzzing
 *   xbt_containers_fuzz FILE                                                  replay of one input
 */
#include <cstdint>
#include <cstdio>
#include <cstdlib>
#include <cstring>
#include <map>
#include <stdexcept>
#include <string>
#include <vector>

/* every source file declares a static "default log category" variable of the same name: rename it per file */
#define _misuse_of_XBT_LOG_macros_detected__default vf_default_cat_dynar
#include "src/xbt/dynar.cpp"
#undef _misuse_of_XBT_LOG_macros_detected__default
#define _misuse_of_XBT_LOG_macros_detected__default vf_default_cat_dict
#include "src/xbt/dict.cpp"
#undef _misuse_of_XBT_LOG_macros_detected__default
/* the two C files: their functions are declared extern "C" by the headers, so the definitions get C linkage */
#define _misuse_of_XBT_LOG_macros_detected__default vf_default_cat_dict_elm
#define xbt_mallocator_get(m) ((xbt_dictelm_t)xbt_mallocator_get(m))
#include "src/xbt/dict_elm.c"
#undef xbt_mallocator_get
#undef _misuse_of_XBT_LOG_macros_detected__default
#define _misuse_of_XBT_LOG_macros_detected__default vf_default_cat_dict_cursor
#include "src/xbt/dict_cursor.c"
#undef _misuse_of_XBT_LOG_macros_detected__default

#define CHECK(cond, ...)                                                                                               \
  do {                                                                                                                 \
    if (!(cond)) {                                                                                                     \
      fprintf(stderr, "MODEL-MISMATCH %s:%d: %s: ", __FILE__, __LINE__, #cond);                                        \
      fprintf(stderr, __VA_ARGS__);                                                                                    \
      fprintf(stderr, "\n");                                                                                           \
      abort();                                                                                                         \
    }                                                                                                                  \
  } while (0)

struct In {
  const uint8_t* p;
  size_t n;
  size_t i = 0;
  bool more() const { return i < n; }
  unsigned u8() { return i < n ? p[i++] : 0; }
};

static long frees_seen;
static void count_free(void* p)
{
  frees_seen++;
  free(p);
}
static void count_free_slot(void* slot)
{
  frees_seen++;
  free(*static_cast<void**>(slot));
}

using Elem = std::vector<unsigned char>;
static unsigned long g_elmsize;
static int cmp_elem(const void* a, const void* b)
{
  return memcmp(a, b, g_elmsize);
}
static void map_elem(void* e)
{
  static_cast<unsigned char*>(e)[0] ^= 0x5a;
}

static void compare_dynar(xbt_dynar_t d, const std::vector<Elem>& m, unsigned long elmsize)
{
  CHECK(xbt_dynar_length(d) == m.size(), "length %lu vs model %zu", xbt_dynar_length(d), m.size());
  CHECK(xbt_dynar_is_empty(d) == (m.empty() ? 1 : 0), "is_empty");
  Elem buf(elmsize);
  unsigned int cursor;
  for (cursor = 0; _xbt_dynar_cursor_get(d, cursor, buf.data()); cursor++) {
    CHECK(cursor < m.size(), "foreach delivers more than %zu elements", m.size());
    CHECK(buf == m[cursor], "element %u differs", cursor);
  }
  CHECK(cursor == m.size(), "foreach delivered %u of %zu elements", cursor, m.size());
}

static void fuzz_dynar(In& in)
{
  static const unsigned long sizes[] = {1, 2, 3, 4, 8, 12, 16, 24};
  unsigned long elmsize              = sizes[in.u8() % 8];
  g_elmsize                          = elmsize;
  xbt_dynar_t d                      = xbt_dynar_new(elmsize, nullptr);
  std::vector<Elem> m;
  auto elem = [&](unsigned v) {
    Elem e(elmsize);
    for (unsigned long k = 0; k < elmsize; k++)
      e[k] = static_cast<unsigned char>(v * 31 + k * 7 + (v >> 3));
    return e;
  };
  Elem dst(elmsize);
  while (in.more()) {
    unsigned op = in.u8() % 20;
    unsigned a  = in.u8();
    unsigned v  = in.u8() % 11;
    size_t n    = m.size();
    switch (op) {
      case 0:
      case 1: {
        Elem e = elem(v);
        xbt_dynar_push(d, e.data());
        m.push_back(e);
        break;
      }
      case 2: {
        Elem e = elem(v);
        memcpy(xbt_dynar_push_ptr(d), e.data(), elmsize);
        m.push_back(e);
        break;
      }
      case 3: {
        Elem e = elem(v);
        xbt_dynar_unshift(d, e.data());
        m.insert(m.begin(), e);
        break;
      }
      case 4:
      case 5: {
        Elem e   = elem(v);
        size_t i = a % (n + 1);
        if (op == 4)
          xbt_dynar_insert_at(d, static_cast<int>(i), e.data());
        else
          memcpy(xbt_dynar_insert_at_ptr(d, static_cast<int>(i)), e.data(), elmsize);
        m.insert(m.begin() + i, e);
        break;
      }
      case 6: { // set, possibly beyond the end (the gap is zero filled)
        Elem e   = elem(v);
        size_t i = a % (n + 4);
        memcpy(xbt_dynar_set_at_ptr(d, i), e.data(), elmsize);
        if (i >= n)
          m.resize(i + 1, Elem(elmsize, 0));
        m[i] = e;
        break;
      }
      case 7:
        if (n) {
          xbt_dynar_pop(d, dst.data());
          CHECK(dst == m.back(), "pop");
          m.pop_back();
        }
        break;
      case 8:
        if (n) {
          CHECK(memcmp(xbt_dynar_pop_ptr(d), m.back().data(), elmsize) == 0, "pop_ptr");
          m.pop_back();
        }
        break;
      case 9:
        if (n) {
          xbt_dynar_shift(d, dst.data());
          CHECK(dst == m.front(), "shift");
          m.erase(m.begin());
        }
        break;
      case 10:
      case 11:
        if (n) {
          size_t i = a % n;
          if (op == 10) {
            xbt_dynar_remove_at(d, static_cast<int>(i), dst.data());
            CHECK(dst == m[i], "remove_at");
          } else
            xbt_dynar_remove_at(d, static_cast<int>(i), nullptr);
          m.erase(m.begin() + i);
        }
        break;
      case 12:
        if (n) {
          size_t i = a % n;
          xbt_dynar_get_cpy(d, i, dst.data());
          CHECK(dst == m[i], "get_cpy");
          CHECK(memcmp(xbt_dynar_get_ptr(d, i), m[i].data(), elmsize) == 0, "get_ptr");
        }
        break;
      case 13: {
        Elem e     = elem(v);
        bool found = false;
        for (auto const& x : m)
          found = found || x == e;
        CHECK(xbt_dynar_member(d, e.data()) == (found ? 1 : 0), "member");
        break;
      }
      case 14:
        xbt_dynar_sort(d, cmp_elem);
        std::sort(m.begin(), m.end());
        break;
      case 15:
        xbt_dynar_map(d, map_elem);
        for (auto& x : m)
          x[0] ^= 0x5a;
        break;
      case 16:
        if (a % 8 == 0) {
          xbt_dynar_reset(d);
          m.clear();
        }
        break;
      default:
        compare_dynar(d, m, elmsize);
    }
  }
  compare_dynar(d, m, elmsize);
  xbt_dynar_free(&d);
  CHECK(d == nullptr, "free did not reset the handle");
}

static void fuzz_dynar_ptr(In& in)
{
  xbt_dynar_t d = xbt_dynar_new(sizeof(void*), count_free_slot);
  size_t live   = 0;
  frees_seen    = 0;
  long expected = 0;
  while (in.more()) {
    unsigned op = in.u8() % 8;
    unsigned a  = in.u8();
    size_t n    = live;
    void* p;
    switch (op) {
      case 0:
      case 1:
        p = malloc(8);
        xbt_dynar_push(d, &p);
        live++;
        break;
      case 2:
        p = malloc(8);
        xbt_dynar_insert_at(d, static_cast<int>(a % (n + 1)), &p);
        live++;
        break;
      case 3:
        if (n) {
          xbt_dynar_remove_at(d, static_cast<int>(a % n), nullptr); // freed by free_f
          live--;
          expected++;
        }
        break;
      case 4:
        if (n) {
          xbt_dynar_remove_at(d, static_cast<int>(a % n), &p); // handed back, not freed
          free(p);
          live--;
        }
        break;
      case 5:
        if (n) {
          xbt_dynar_pop(d, nullptr);
          live--;
          expected++;
        }
        break;
      case 6:
        if (a % 8 == 0) {
          xbt_dynar_reset(d);
          expected += static_cast<long>(live);
          live = 0;
        }
        break;
      default:
        CHECK(xbt_dynar_length(d) == live, "length");
    }
    CHECK(frees_seen == expected, "free function called %ld times, expected %ld", frees_seen, expected);
  }
  expected += static_cast<long>(live);
  xbt_dynar_free(&d);
  CHECK(frees_seen == expected, "free function called %ld times after xbt_dynar_free, expected %ld", frees_seen, expected);
}

static std::string key_of(In& in)
{
  // short keys over an alphabet that produces full-hash collisions ("aa" vs "b@") and bucket collisions ("ae" vs "ea")
  static const char alpha[] = "ab@eiq\x01\x7f";
  unsigned len              = in.u8() % 6;
  std::string k;
  for (unsigned i = 0; i < len; i++)
    k += alpha[in.u8() % 8];
  return k;
}

static void compare_dict(xbt_dict_t d, const std::map<std::string, long*>& m)
{
  CHECK(xbt_dict_length(d) == static_cast<int>(m.size()), "length %d vs model %zu", xbt_dict_length(d), m.size());
  CHECK(xbt_dict_size(d) == m.size(), "size");
  CHECK(xbt_dict_is_empty(d) == (m.empty() ? 1 : 0), "is_empty");
  std::map<std::string, long*> seen;
  xbt_dict_cursor_t cursor = nullptr;
  char* key;
  long* data;
  xbt_dict_foreach (d, cursor, key, data) {
    CHECK(seen.emplace(key, data).second, "key '%s' delivered twice", key);
  }
  CHECK(cursor == nullptr, "foreach leaves a cursor");
  CHECK(seen == m, "foreach content differs (%zu vs %zu entries)", seen.size(), m.size());
}

static void fuzz_dict(In& in)
{
  bool with_free = in.u8() % 2;
  xbt_dict_t d   = xbt_dict_new_homogeneous(with_free ? count_free : nullptr);
  std::map<std::string, long*> m;
  std::vector<long*> mine; // objects we must free ourselves (no free function)
  frees_seen    = 0;
  long expected = 0;
  auto drop     = [&](long* old) {
    if (old == nullptr)
      return;
    if (with_free)
      expected++;
    else
      mine.push_back(old);
  };
  while (in.more()) {
    unsigned op = in.u8() % 12;
    switch (op) {
      case 0:
      case 1:
      case 2: {
        std::string k = key_of(in);
        auto* v       = static_cast<long*>(malloc(sizeof(long)));
        auto it       = m.find(k);
        if (it != m.end())
          drop(it->second);
        if (op == 0)
          xbt_dict_set(d, k.c_str(), v);
        else
          xbt_dict_set_ext(d, k.data(), static_cast<int>(k.size()), v);
        m[k] = v;
        break;
      }
      case 3: { // bulk insertion: forces rehashes
        unsigned start = 1 + in.u8() % 20;
        unsigned count = 60 + in.u8() % 60;
        std::string p  = key_of(in).substr(0, 2);
        for (unsigned i = 0; i < count && start + i < 127; i++) {
          std::string k = p + static_cast<char>(start + i);
          auto* v       = static_cast<long*>(malloc(sizeof(long)));
          auto it       = m.find(k);
          if (it != m.end())
            drop(it->second);
          xbt_dict_set_ext(d, k.data(), static_cast<int>(k.size()), v);
          m[k] = v;
        }
        break;
      }
      case 4:
      case 5: {
        std::string k = key_of(in);
        auto it       = m.find(k);
        long* want    = it == m.end() ? nullptr : it->second;
        CHECK(xbt_dict_get_or_null(d, k.c_str()) == want, "get_or_null('%s')", k.c_str());
        CHECK(xbt_dict_get_or_null_ext(d, k.data(), static_cast<int>(k.size())) == want, "get_or_null_ext('%s')", k.c_str());
        xbt_dictelm_t e = xbt_dict_get_elm_or_null(d, k.c_str());
        CHECK((e == nullptr) == (it == m.end()), "get_elm_or_null('%s')", k.c_str());
        if (e)
          CHECK(e->content == want && k == std::string(e->key, e->key_len), "get_elm content");
        break;
      }
      case 6:
      case 7:
      case 8: { // removal; half of the time of a key that is present
        std::string k = key_of(in);
        if (op != 6 && not m.empty()) {
          auto it = m.begin();
          std::advance(it, in.u8() % m.size());
          k = it->first;
        }
        auto it     = m.find(k);
        bool thrown = false;
        try {
          xbt_dict_remove_ext(d, k.data(), static_cast<int>(k.size()));
        } catch (const std::out_of_range&) {
          thrown = true;
        }
        CHECK(thrown == (it == m.end()), "remove_ext('%s') %s", k.c_str(), thrown ? "threw" : "did not throw");
        if (it != m.end()) {
          drop(it->second);
          m.erase(it);
        }
        break;
      }
      default:
        compare_dict(d, m);
    }
    CHECK(frees_seen == expected, "free function called %ld times, expected %ld", frees_seen, expected);
  }
  compare_dict(d, m);
  for (auto const& [k, v] : m)
    drop(v);
  xbt_dict_free(&d);
  CHECK(d == nullptr, "xbt_dict_free did not reset the handle");
  CHECK(frees_seen == expected, "free function called %ld times after xbt_dict_free, expected %ld", frees_seen, expected);
  for (long* p : mine)
    free(p);
}

extern "C" int LLVMFuzzerTestOneInput(const uint8_t* data, size_t size)
{
  In in{data, size};
  switch (in.u8() % 4) {
    case 0:
    case 1:
      fuzz_dynar(in);
      break;
    case 2:
      fuzz_dynar_ptr(in);
      break;
    default:
      fuzz_dict(in);
  }
  return 0;
}
